#!/bin/bash
# Confirm an agent-seeded change and run a check against it.
# usage: tools/seeded_eval.sh <worktree> <out-subdir> <PROPERTY-ID> <name> [skip-tests]
#  1. demo passes on the clean worktree, fails with the patch   2. existing suite has no new failures with the patch
#  3. the property's quick check is run against a patched scratch copy (tools/mutant.sh)   4. files are kept in seeded/<name>/
set -u
wt=$1; sub=$2; pid=$3; name=$4; skip=${5:-}
src=$wt/$sub
cd $wt || exit 3
git checkout -q -- . ; git status --short | grep -v '^??' && { echo "worktree dirty"; exit 3; }
/venv/bin/python $sub/demo.py > /tmp/seed_demo_clean.$$ 2>&1; rc_clean=$?
git apply $sub/patch.diff || { echo "patch does not apply"; exit 3; }
/venv/bin/python $sub/demo.py > /tmp/seed_demo_patched.$$ 2>&1; rc_patched=$?
echo "demo clean rc=$rc_clean patched rc=$rc_patched: $(tail -1 /tmp/seed_demo_patched.$$ | cut -c1-200)"
if [ -z "$skip" ]; then
  tests=$(/verif/tools/run_tests.sh 2>&1); echo "$tests" | tail -6
  newf=$(echo "$tests" | sed -n '/^--- failures not/,/^--- end/p' | grep -c -E "^(FAILED|ERROR)")
else newf=skipped; fi
git checkout -q -- .
rm -f /tmp/seed_demo_clean.$$ /tmp/seed_demo_patched.$$
cd /verif
res=$(tools/mutant.sh $src/patch.diff $pid quick 2>&1); echo "$res" | tail -5
rc=$(echo "$res" | sed -n 's/^MUTANT .* exit=\([0-9]*\)$/\1/p')
mkdir -p seeded/$name; cp $src/patch.diff seeded/$name/patch.diff; cp $src/demo.py seeded/$name/demo.py; cp $src/README.md seeded/$name/README.md
/venv/bin/python - "$name" "$pid" "$rc_clean" "$rc_patched" "$newf" "$rc" "${NEEDS:-see README.md}" "$(echo "$res" | grep -E '^violation' | head -3 | cut -c1-300)" <<'PY'
import json, sys
name, pid, c, p, newf, rc, needs, viol = sys.argv[1:9]
json.dump({'breaks_property': pid, 'needs_to_manifest': needs, 'origin': 'independent sub-agent given only the property text and a scratch worktree',
  'confirmed': {'demo_exit_unchanged_tree': int(c), 'demo_exit_with_patch': int(p), 'new_failures_in_existing_suite_with_patch': newf,
                'how': 'tools/seeded_eval.sh: demo.py on clean and patched scratch worktree; full pytest suite with patch compared with the unchanged tree\'s failure list; quick check run against a patched scratch copy (tools/mutant.sh)'},
  'check_exit_with_patch': int(rc) if rc.isdigit() else rc, 'detected': rc == '1', 'first_violations': viol.splitlines()},
  open('seeded/%s/meta.json' % name, 'w'), indent=1)
PY
echo "RESULT name=$name property=$pid demo_clean=$rc_clean demo_patched=$rc_patched new_test_failures=$newf check_exit=$rc"
