#!/bin/bash
# usage: cd <worktree> && /verif/tools/run_tests.sh   -> runs the existing test suite against the worktree (inside a private network
# namespace, because the suite's mock servers use fixed localhost ports and several suites may run at once) and compares the
# set of failing tests with the unchanged tree's (/verif/tools/baseline_failures.txt). Prints NEW failures (must be none).
out=$(mktemp)
unshare -rn sh -c "ip link set lo up; /venv/bin/python -m pytest -q -p no:cacheprovider --timeout=900 --continue-on-collection-errors mapproxy 2>&1" | tail -60 > $out
grep -E "^(FAILED|ERROR)" $out | sed 's/ - .*//' | sort -u > $out.f
tail -1 $out
echo "--- failures not in the unchanged tree's list:"
comm -23 $out.f /verif/tools/baseline_failures.txt
echo "--- end"
rm -f $out $out.f
