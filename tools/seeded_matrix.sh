#!/bin/bash
# Re-runs every seeded change against the check(s) that should see it, on the current /repo, and writes seeded/MATRIX.json.
# usage: tools/seeded_matrix.sh [name-prefix]
cd /verif
out=seeded/MATRIX.tmp; : > $out
for d in seeded/${1:-}*/; do
  name=$(basename $d); [ -f $d/meta.json ] || continue
  patch=$d/patch.diff; [ -f $d/patch_rebased.diff ] && patch=$d/patch_rebased.diff
  pid=$(/venv/bin/python -c "import json,sys; m=json.load(open('$d/meta.json')); print(m.get('detected_by') or m['breaks_property'])")
  res=$(tools/mutant.sh $patch $pid 2>&1)
  rc=$(echo "$res" | sed -n 's/^MUTANT .* exit=\([0-9]*\)$/\1/p'); [ -z "$rc" ] && rc="patch-failed"
  first=$(echo "$res" | grep -E "^violation" | head -1 | cut -c1-220)
  echo "$name|$pid|$rc|$first" | tee -a $out
done
