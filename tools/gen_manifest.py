#!/usr/bin/env python3
"""Regenerates MANIFEST.json from tools/manifest_src.py (single source of truth for the checks)."""
import json, os, sys
sys.path.insert(0, os.path.dirname(os.path.abspath(__file__)))
from manifest_src import CHECKS, NOT_APPLICABLE, HOOK_COMMITS

ALL = ['C%02d' % i for i in range(1, 21)]
checks = []
for pid in ALL:
    if pid not in CHECKS:
        continue
    c = CHECKS[pid]
    checks.append({
        'property_id': pid,
        'quick_cmd': 'cd /verif && PYTHONHASHSEED=0 /venv/bin/python -m vcheck %s --tier quick' % pid,
        'thorough_cmd': 'cd /verif && PYTHONHASHSEED=0 /venv/bin/python -m vcheck %s --tier thorough' % pid,
        'evidence_file': '/verif/evidence/%s.json' % pid,
        'replay_cmd_template': 'cd /verif && PYTHONHASHSEED=0 /venv/bin/python -m vcheck %s --replay {path}' % pid,
        'engine': 'vcheck',
        'level_claimed': {'category': c['category'], 'text': c['text'], 'design_ref': c['design_ref']},
        'level_note': c['note'],
        'technique': c['technique'],
    })
na = [dict(property_id=p, reason=r) for p, r in NOT_APPLICABLE.items()]
for pid in ALL:
    if pid not in CHECKS and pid not in NOT_APPLICABLE:
        na.append({'property_id': pid, 'reason': 'check not built yet (planned, see DESIGN.md); not claimed at this commit'})
m = {
    'version': 1,
    'setup_cmd': 'cd /verif && ./setup.sh',
    'hooks': {
        'guard': 'MAPPROXY_VERIF',
        'enable': 'no source hooks are needed: all observation is done by monkey-patching from the harness process; '
                  'checks import /repo\'s working tree directly (sys.path[0] = /repo)',
        'baseline_off_cmd': 'cd /repo && /venv/bin/python -m pytest -ra -q -p no:cacheprovider --timeout=900 --continue-on-collection-errors',
        'source_commits': HOOK_COMMITS,
        'add_only': True,
    },
    'engines': [{'name': 'vcheck', 'path': '/verif/vcheck', 'serves_properties': sorted(CHECKS),
                 'kind_free_text': 'Python package: Hypothesis strategies / stateful machines, bounded-exhaustive enumerators, '
                                   'deterministic thread scheduler, file-system crash recorder, audit-hook sandbox, atheris fuzz targets; '
                                   'one module per property under vcheck/props'}],
    'checks': checks,
    'not_applicable': na,
    'notes': 'python -m vcheck <ID> exits 0 (held / only known findings), 1 (VIOLATION line), 2 (harness error). '
             'Known findings: /verif/known_findings.json. Sensitivity patches: /verif/mutants, agent-seeded changes: /verif/seeded.',
}
with open(os.path.join(os.path.dirname(__file__), '..', 'MANIFEST.json'), 'w') as f:
    json.dump(m, f, indent=1)
print('MANIFEST.json: %d checks, %d not claimed' % (len(checks), len(na)))
