#!/bin/bash
# Sensitivity protocol: run a check against a scratch copy of /repo with a property-breaking patch.
# usage: tools/mutant.sh <patch-file> <PROPERTY-ID> [quick|thorough]   -> prints the check's tail and exit code
set -u
patch=$(readlink -f "$1"); pid=$2; tier=${3:-quick}
scratch=$(mktemp -d /tmp/vmut.XXXXXX)
trap 'rm -rf "$scratch"' EXIT
mkdir -p "$scratch/repo" "$scratch/out"
cp -r /repo/mapproxy "$scratch/repo/mapproxy"
find "$scratch/repo" -name __pycache__ -type d -prune -exec rm -rf {} +
if ! patch -s -p1 -d "$scratch/repo" < "$patch"; then echo "PATCH-FAILED $patch"; exit 3; fi
cd /verif
VERIF_REPO="$scratch/repo" VERIF_OUT="$scratch/out" PYTHONHASHSEED=0 /venv/bin/python -m vcheck "$pid" --tier "$tier" > "$scratch/log" 2>&1
rc=$?
grep -E "^(violation|VIOLATION|KNOWN|HARNESS|C[0-9]+ tier)" "$scratch/log" | cut -c1-400 | head -${MUT_LINES:-8}
echo "MUTANT $(basename "$patch") property=$pid exit=$rc"
exit 0
