#!/bin/bash
# usage: tools/quiet.sh "<seeds>" ID...   -> runs each check's quick tier at the given seeds, prints one line per run
seeds=$1; shift
for id in "$@"; do for s in $seeds; do
  out=$(VERIF_SEED=$s PYTHONHASHSEED=0 /venv/bin/python -m vcheck $id --tier quick 2>&1); rc=$?
  echo "QUIET $id seed=$s rc=$rc :: $(echo "$out" | grep -E "^(KNOWN|VIOLATION|violation|HARNESS)" | head -5 | cut -c1-220 | tr '\n' '|') $(echo "$out" | grep -E "^$id tier" | tail -1)"
done; done
