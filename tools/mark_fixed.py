#!/usr/bin/env python3
"""usage: tools/mark_fixed.py <PROPERTY> <signature> <repo-commit>  -- flips an open finding to fixed and records the
'fixed: property=<id> <commit> <what failed>' line required by the interface."""
import json, sys, glob, os
pid, sig, commit = sys.argv[1:4]
base = os.path.join(os.path.dirname(os.path.abspath(__file__)), '..')
for path in [os.path.join(base, 'known_findings.json')] + sorted(glob.glob(os.path.join(base, 'known_findings.d', '*.json'))):
    d = json.load(open(path)); hit = False
    for f in d.get('findings', []):
        if f.get('property') == pid and f.get('signature') == sig:
            f['status'] = 'fixed'; f['commit'] = commit
            f['record'] = 'fixed: property=%s %s %s' % (pid, commit, f['what'])
            hit = True
    if hit:
        json.dump(d, open(path, 'w'), indent=1); print('marked in', path)
