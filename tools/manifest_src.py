HOOK_COMMITS = []
NOT_APPLICABLE = {}
CHECKS = {
 'C03': dict(
  category='exploration',
  design_ref='DESIGN.md section 4',
  technique='property-based testing (Hypothesis) against an exact-rational reference grid + bounded-exhaustive lattice enumeration',
  text='Generated grid definitions and queries (points, rectangles, resolutions placed on / one ulp beside / fractions of a pixel '
       'beside tile edges and level boundaries) are compared with an exact-rational reference model of a regular tile grid; all '
       'rectangles on an edge lattice of tiny grids are enumerated completely. Exploration is the right level: the statement '
       'quantifies over an infinite numeric domain whose failures cluster at float boundaries, which the generator targets.',
  note='Trusts CPython fractions/float semantics and Hypothesis; tolerance tau and the accepted (tau, 0.1 px] band are stated in the evidence assumptions.'),
 'C15': dict(
  category='exploration',
  design_ref='DESIGN.md section 16',
  technique='harness-owned completion order (per-item events + gated consumer thread); bounded-exhaustive enumeration of completion orders x pool sizes x failing subsets x modes x entry points, plus Hypothesis random schedules for n = 5-6; identity-based value/exception oracle; watchdog-bounded liveness',
  text='Every completion (release) order of up to 4 (quick) / 5 (thorough) items x pool sizes 1..n+1 x every failing subset x raise / result-object / '
       'abandon-at-first-error modes x 12 entry points of mapproxy.util.async_ is enumerated completely, with the consumer\'s progress interleaved by 6 fixed '
       'patterns; n = 5-6 is explored randomly with free interleavings. Each run is judged by a timing-independent oracle: exactly one result per input in '
       'input order, the exact exception object of the failing item (or a re-raise of one of them after a correct prefix), termination, and all pool threads exiting.',
  note='Exhaustive at completion-order x consumer-progress granularity; which of the pool\'s two drain loops handles a result depends on OS timing and is '
       'measured (class drain:*), not controlled. Liveness is bounded by a watchdog (expiry = harness error unless all tasks were released). Fresh pool per case.'),
 'C07': dict(
  category='exploration',
  design_ref='DESIGN.md section 8',
  technique='real FileLock/SemLock/LockFile code in threads under a deterministic baton-passing scheduler with yield points at every file-system call (monkey-patched module attributes, real flock on tmpfs); stateless DFS over all schedules within a preemption bound + Hypothesis-generated sparse-preemption schedules; trace oracle',
  text='Exploration of schedules, exhaustive within a preemption bound: every interleaving with <=3 (2 contenders x 2 cycles) / <=2 (3 x 1) preemptions at '
       'file-system-call granularity for both release styles and SemLock n=1,2 (thorough: <=5 / <=4 and 4 contenders), plus ~15k (thorough 450k) generated schedules '
       'for 2-4 contenders x 1-3 cycles, SemLock n<=3. Checked on every trace: at most n holders at every step, LockTimeout only after >= timeout with every attempt '
       'finding every slot held, no deadlock, all slots re-acquirable afterwards.',
  note='Exhaustive only for the listed small configurations and preemption bounds. Schedule granularity = the instrumented calls (open, flock, chmod, close, remove, '
       'sleep, time, randint). Timeouts are modelled as 1-5 polling steps on a virtual clock. NFS/lockd semantics and cleanup_lockdir are outside the model.'),
 'C10': dict(
  category='exploration',
  design_ref='DESIGN.md section 11',
  technique='property-based testing (Hypothesis) of the real WSGI app with a synthetic solid-colour upstream and generated authorize callbacks; independent shapely/pyproj pixel oracle of the permitted regions',
  text='Generated layer trees, services and authorize-callback results (full/partial/none/unauthenticated, per-layer and global limited_to as bbox/WKT/shapely geometry in '
       'the same or another SRS) are driven through WSGI (WMS GetMap/GetFeatureInfo, TMS, WMTS KVP/REST incl. GetFeatureInfo, KML; png and jpeg) against an upstream that '
       'paints each layer a unique opaque colour. Every response pixel, upstream call and feature-info answer is compared with an independent geometric model: denied colours '
       'appear nowhere and are never requested, pixels > 1 px outside a limit are transparent/bgcolor, pixels > 2 px inside keep their colour, feature info only inside.',
  note='Exploration, not exhaustive. Leaks thinner than ~1 px (3 px for JPEG responses) are invisible; "well inside" is 2 px because the mask is mitred by design; '
       'capabilities filtering, legends and the demo service are not judged.'),
}
