HOOK_COMMITS = []
NOT_APPLICABLE = {}
CHECKS = {
 'C03': dict(
  category='exploration',
  design_ref='DESIGN.md section 4',
  technique='property-based testing (Hypothesis) against an exact-rational reference grid + bounded-exhaustive lattice enumeration',
  text='Generated grid definitions and queries (points, rectangles, resolutions placed on / one ulp beside / fractions of a pixel '
       'beside tile edges and level boundaries) are compared with an exact-rational reference model of a regular tile grid; all '
       'rectangles on an edge lattice of tiny grids are enumerated completely. Exploration is the right level: the statement '
       'quantifies over an infinite numeric domain whose failures cluster at float boundaries, which the generator targets.',
  note='Trusts CPython fractions/float semantics and Hypothesis; tolerance tau and the accepted (tau, 0.1 px] band are stated in the evidence assumptions. Later addition: deep 16-24 level pyramids of the global and regional grids queried at their finest levels and largest tile indices.'),
 'C15': dict(
  category='exploration',
  design_ref='DESIGN.md section 16',
  technique='harness-owned completion order (per-item events + gated consumer thread); bounded-exhaustive enumeration of completion orders x pool sizes x failing subsets x modes x entry points, plus Hypothesis random schedules for n = 5-6; identity-based value/exception oracle; watchdog-bounded liveness',
  text='Every completion (release) order of up to 4 (quick) / 5 (thorough) items x pool sizes 1..n+1 x every failing subset x raise / result-object / '
       'abandon-at-first-error modes x 12 entry points of mapproxy.util.async_ is enumerated completely, with the consumer\'s progress interleaved by 6 fixed '
       'patterns; n = 5-6 is explored randomly with free interleavings. Each run is judged by a timing-independent oracle: exactly one result per input in '
       'input order, the exact exception object of the failing item (or a re-raise of one of them after a correct prefix), termination, and all pool threads exiting.',
  note='Exhaustive at completion-order x consumer-progress granularity; which of the pool\'s two drain loops handles a result depends on OS timing and is '
       'measured (class drain:*), not controlled. Liveness is bounded by a watchdog (expiry = harness error unless all tasks were released). Fresh pool per case. Later additions: harness-owned task queue during forced shutdown (worker let through between empty() and get()), injected Thread.start failures.'),
 'C07': dict(
  category='exploration',
  design_ref='DESIGN.md section 8',
  technique='real FileLock/SemLock/LockFile code in threads under a deterministic baton-passing scheduler with yield points at every file-system call (monkey-patched module attributes, real flock on tmpfs); stateless DFS over all schedules within a preemption bound + Hypothesis-generated sparse-preemption schedules; trace oracle',
  text='Exploration of schedules, exhaustive within a preemption bound: every interleaving with <=3 (2 contenders x 2 cycles) / <=2 (3 x 1) preemptions at '
       'file-system-call granularity for both release styles and SemLock n=1,2 (thorough: <=5 / <=4 and 4 contenders), plus ~15k (thorough 450k) generated schedules '
       'for 2-4 contenders x 1-3 cycles, SemLock n<=3. Checked on every trace: at most n holders at every step, LockTimeout only after >= timeout with every attempt '
       'finding every slot held, no deadlock, all slots re-acquirable afterwards.',
  note='Exhaustive only for the listed small configurations and preemption bounds. Schedule granularity = the instrumented calls (open, flock, chmod, close, remove, '
       'sleep, time, randint). Timeouts are modelled as 1-5 polling steps on a virtual clock. NFS/lockd semantics and cleanup_lockdir are outside the model. Later additions: injected os.remove failure (EPERM) on unlock and lock objects kept alive across cycles.'),
 'C10': dict(
  category='exploration',
  design_ref='DESIGN.md section 11',
  technique='property-based testing (Hypothesis) of the real WSGI app with a synthetic solid-colour upstream and generated authorize callbacks; independent shapely/pyproj pixel oracle of the permitted regions',
  text='Generated layer trees, services and authorize-callback results (full/partial/none/unauthenticated, per-layer and global limited_to as bbox/WKT/shapely geometry in '
       'the same or another SRS) are driven through WSGI (WMS GetMap/GetFeatureInfo, TMS, WMTS KVP/REST incl. GetFeatureInfo, KML; png and jpeg) against an upstream that '
       'paints each layer a unique opaque colour. Every response pixel, upstream call and feature-info answer is compared with an independent geometric model: denied colours '
       'appear nowhere and are never requested, pixels > 1 px outside a limit are transparent/bgcolor, pixels > 2 px inside keep their colour, feature info only inside.',
  note='Exploration, not exhaustive. Leaks thinner than ~1 px (3 px for JPEG responses) are invisible; "well inside" is 2 px because the mask is mitred by design; '
       'capabilities filtering, legends and the demo service are not judged. Later additions: services.wms.bbox_srs extents with requests reaching beyond them; services.wms.on_source_errors raise / notify / absent. Local grids with overhanging border tiles and limited_to geometries derived from the grid bbox (exact, grown, shrunk).'),
 'C02': dict(
  category='exploration',
  design_ref='DESIGN.md section 3',
  technique='property-based differential testing against a standards-following reference client (reads only the served capabilities/KML documents) with a ground-function pixel oracle, plus cross-service metamorphic equality',
  text='Hypothesis-generated grid, coverage and service configurations are loaded as real WSGI apps. A reference client written from the TMS 1.0.0 / WMTS 1.0.0 / WMS-C / KML '
       'conventions reads only the served documents; for drawn advertised addresses on all levels (corners, edges, interior, first/last row and column) the served pixels must show '
       'an analytic, level-dependent ground over the rectangle the client computes (rho 1 px, eps 3). The same ground tile must be pixel-identical through every service and origin '
       'convention, and the documents must agree on resolutions.',
  note='About 320 configurations and 16k tile evaluations per quick run. The y-flip limitation documented in doc/configuration.rst (grid origin) is honoured and counted: when a flip does '
       'not preserve rectangles only the native-origin service is judged. Displacements below ~1.5-2 px are invisible to the pixel oracle; tiles crossing a coverage edge are not judged.'),
 'C04': dict(
  category='exploration',
  design_ref='DESIGN.md section 5',
  technique='Hypothesis property-based differential testing of a real TileManager with an analytic ground-function source, a recording cache and an exact-rational reference grid',
  text='About 5k (quick) / 190k (thorough) generated (grid, two cache settings, 1-3 requests) cases run on a real TileManager (real WMSSource/TiledSource with a synthetic client) and a '
       'recording cache. Every stored and served tile is compared with the rendering of its own bbox - exactly (<= 0.5 level rounding) when no buffer is cut off, within 1 px otherwise, with '
       'no background more than 1 px inside the extent. Tiles are compared across the two settings (alone / meta size / buffer / minimised / bulk / threaded), and the upstream/store log against a reference plan.',
  note='No exhaustive part. PNG non-paletted caches only; thread interleavings are whatever the OS produces; an over-fetching meta size at small levels is not observable (equivalent mutant). Later additions: tiled (bulk) sources with coverages whose border crosses the meta tile (tiles without data must not be stored, the others must show their own ground); a forced two-thread episode inside MetaGrid.meta_tile.'),
 'C05': dict(
  category='exploration',
  design_ref='DESIGN.md section 6',
  technique='model-based stateful property testing (Hypothesis RuleBasedStateMachine vs dict model) + bounded-exhaustive operation-sequence enumeration + generated bulk batches crossing the 999-argument split',
  text='Hypothesis state machines run histories of up to 30 (thorough 40) operations (store, bulk store, load, bulk load, is_cached, remove, reopen) against each of 42 loader-built backend '
       'variants (file x 6 layouts x link modes x dimensions, mbtiles, per-level sqlite, geopackage, per-level geopackage, compact v1/v2) and compare with a dict model, with a full read-back of '
       'the collision address pool through load_tile / is_cached / load_tiles after every operation. All 3-operation sequences (thorough: 4 for the plain file layouts) over 4-address collision '
       'pools are enumerated completely per variant.',
  note='Exploration plus exhaustive small scope. One cache object at a time (no concurrency, no crashes - see C06/C08); metadata (timestamp, size) is not judged; only backends that work offline. Later additions: operations are issued through up to three backend objects opened on the same storage and a second thread (separate sqlite connections) against one shared model; digit-group twin addresses (differing by 10^3 / 10^4 / 10^6) at levels 20-22.'),
 'C13': dict(
  category='exploration',
  design_ref='DESIGN.md section 14',
  technique='Hypothesis RuleBasedStateMachine + reference model + virtual clock + synthetic version-encoding upstream; deterministic two-thread race step (gated synthetic upstream plus a hook observing the file tile lock); bounded shrink; replay JSON',
  text='Stateful model-based exploration: generated histories of requests (single, meta, minimised, bulk), clock advances, threshold changes (absolute, relative, mtime of a file, seed-task '
       'threshold, cache-level refresh_before through the real config loader) and upstream failures run against real TileManagers on file, sqlite and mbtiles caches under a virtual clock. After '
       'every step the upstream call log, the served content version and all stored tile slots are compared with a reference model; the same-second band is accepted either way.',
  note='~4.1k histories / 145k steps quick. UTC only, concurrent_tile_creators=1, sqlite ttl option not exercised; the multiprocess seeder is mimicked by pre-check + load_tile_coords. Later addition: the server time zone is a generated dimension (7 zones, January / June clocks).'),
 'C17': dict(
  category='exploration',
  design_ref='DESIGN.md section 18',
  technique='Hypothesis-generated configurations and requests, synthetic upstream logging decoded calls, thread-local wrapper around Source.get_map, pyproj/shapely oracle independent of the code under test',
  text='Per quick run ~960 generated MapProxy configurations (WMS sources with supported_srs/preferred_src_proj, formats, bbox/polygon coverages, res/scale ranges, forwarded params; tile sources '
       'on grids differing from the cache grid; direct, cached and cascaded layers) x ~11000 WMS 1.1.1/1.3.0, TMS and WMTS requests placed around coverage edges and resolution limits. Every '
       'upstream URL and every source.get_map invocation is judged against the configuration and the documentation (SRS and format lists, bbox inside the coverage, forwarded dimensions, in-grid tile '
       'addresses, no call at all for disjoint coverage / excluded resolution).',
  note='Oracle slack 1e-9 same SRS / 1e-6 reprojected, 1 px, alias-lenient; thread schedules are not controlled except in one regression case; ~10 % of generated requests end in '
       'MapProxy-internal HTTP 500s and explore nothing (counted).'),
 'C19': dict(
  category='exploration',
  design_ref='DESIGN.md section 20',
  technique='Hypothesis RuleBasedStateMachine + independent numpy/struct parser of the Esri bundle v1/v2 formats as reference model; before/after comparison around defrag; hand-kept >16 MB regression histories',
  text='Generated store/overwrite/remove/remove-level/reopen/defrag histories over CompactCacheV1 and V2 are checked after every step by an independent parser of both bundle formats against a dict '
       'model (entry empty or a complete record inside the file with matching size, header file size equals actual size, exact bytes, no phantom tiles); around each defragmentation (generated '
       'min-percent/min-bytes incl. 0, dry-run) every address must return the same bytes, no file may grow or appear, no tmp_defrag residue.',
  note='Single writer only; no crash or interruption of defrag (C06 covers crashes of stores); tiles < 16 MB; offsets >= 2^32 not reached. Later addition: several anchor bundles per history sharing a pool of relative slots, so that one defrag run rewrites >= 2 bundles holding the same slot.'),
 'C20': dict(
  category='exploration',
  design_ref='DESIGN.md section 21',
  technique='Hypothesis RuleBasedStateMachine at WSGI level with virtual clock, synthetic upstream with error injection, direct store observation, independent HTTP-date parser, probe-based current-validator oracle',
  text='Generated request / rewrite / clock / outage histories against a real WSGI app (file + sqlite caches, meta- and single-tile creation, TMS, WMTS KVP/REST, KML, WMS-C) with generated '
       'conditional headers (current / historical / garbage ETags, older / current / newer / malformed / pre-1970 dates). After every step the tile is read back from the backend and every response is '
       'checked against the four clauses of the property (stable validators and body, 304 for the current ETag, 304 only if a presented validator matches the stored tile, no-store for uncacheable fill tiles).',
  note='~2000 histories / 35000 judged requests per quick run. Single process, TZ=UTC; rewrites that change neither second nor size on sqlite are outside the oracle ((timestamp, size) ETags cannot distinguish them). Later additions: server time zone as a generated dimension; file caches with linked single-colour tiles (symlink / hardlink) and solid-colour content versions; a bulk_meta_tiles tile-source cache with on_error fill images.'),
 'C09': dict(
  category='exploration',
  design_ref='DESIGN.md section 10',
  technique='Hypothesis grammar fuzzing of all services + sys.addaudithook file-system sandbox (realpath at event time, per-request root allow-lists, wrapped os.stat) + planted bait files + (thorough) atheris/libFuzzer on raw (path, query) bytes',
  text='~40k (quick) / ~640k (thorough) grammar-generated requests over every service and the MultiMapProxy prefix, with attacker dictionaries (dot segments, absolute paths, '
       'backslashes, percent-encoded forms, NUL, long and non-ASCII values) in every slot (dimension values and names, WMTS REST dimension segments, tile indices, layer and app names, '
       'static paths), against one deployment with 20 caches of all local backends, plus a deterministic dimension-escape matrix over all layers and (thorough) coverage-guided raw-byte '
       'executions. Every audited file-system touch of each request is judged against the directories of the caches its layers use and the lock directory, and bait content planted in '
       'sibling directories is searched in responses.',
  note='No absence claim; touches inside C libraries without audit events (sqlite journals, PROJ) are not seen; POSIX only; one fixed deployment (no authorization, no S3/Redis/CouchDB/Azure backends). '
       'os.stat probes outside the roots are counted, not judged. Unicode look-alike separators (fullwidth solidus / backslash / full stop / percent, dot leaders, division and fraction slash) in every attacker dictionary, the escape matrix and the atheris dictionary.'),
 'C06': dict(
  category='fault_enumeration',
  design_ref='DESIGN.md section 7',
  technique='Hypothesis-generated store histories + raw FileIO/os-level operation recorder (fsrec) + exhaustive crash-prefix and page-boundary torn-write re-materialisation + old/new/missing equality oracle + restart re-store + strace cross-check (thorough)',
  text='For each generated store (file cache in all link modes / layouts / dimensions, compact v1/v2 store, batch and remove, legend store, seed progress write) the raw syscall-level operation '
       'list is recorded and EVERY prefix plus every 4096-byte-boundary cut of every write is materialised and read back by a fresh cache object (old or new bytes, missing only where the '
       'statement allows it, other addresses unchanged, no exception), followed by a repeat of the store on the crashed directory (a stale lock must not block it). Exhaustive per case over the '
       'process-death crash model; the cases themselves are sampled (about 3.2k stores / 96k crash states quick, 64k stores thorough).',
  note='Fault enumeration is complete per store under the process-death model (completed syscalls persist, no reordering). Power-loss reordering, concurrent writers and sub-page tears are '
       'not claimed (sub-page tears are counted as statistics only). Two open known findings are tolerated by exact construct and demonstrated by regression cases. Later additions: after each crash state a follow-up store (neighbour address, overwrite of a prior address, same address with smaller / larger content) by a fresh object must leave every address as it read right after the crash.'),
 'C08': dict(
  category='exploration',
  design_ref='DESIGN.md section 9',
  technique='deterministic cooperative scheduling of real threads (detsched) with DFS preemption bounding and Hypothesis-generated sparse schedules; ground-function upstream; response / final-cache / upstream-count / cross-blocking / deadlock oracles',
  text='Real TileManager / TileCreator / TileLocker / FileLock code on real file and sqlite caches runs under a harness-owned scheduler with yield points at cache reads and writes, lock '
       'attempts and releases, and upstream calls. Every schedule with <=3 (single tile) / <=2 (other 2-requester configurations) preemptions is enumerated for 14 configurations (<=4 / <=3 '
       'in thorough); Hypothesis additionally explores 2-6 requesters across thread and multi-process style deployments and the meta-tiling variants (meta tiles, buffers, minimised, bulk, '
       'two caches on one lock directory, concurrent_tile_creators 2).',
  note='Exhaustive within the preemption bound for the listed 2-requester scopes only. "Processes" are threads with separate manager, cache and locker objects; one lock attempt is an atomic '
       'step (the lock-file race is C07). Interleavings inside sqlite, Pillow or the kernel are not explored; liveness is bounded deadlock-freedom. Later additions: forced cleanup_lockdir scans with yield points on their os calls; a cross-process sub-check (fresh interpreters with different hash seeds must compute identical lock file names and tile locations; real process pairs overlapping on one uncached tile must cause one upstream call).'),
 'C11': dict(
  category='exploration',
  design_ref='DESIGN.md section 12',
  technique='Hypothesis-generated configurations through the real mapproxy.yaml / seed.yaml loaders; in-process seed() with recorder pool and virtual clock; exact-rational flat reference enumeration (refgrid + shapely); metamorphic resume relation over all interruption points; root-cause classifier for missing tiles',
  text='~5000 generated seed configurations per quick run are built by the real loaders and run through the real seed() / TileWalker / ProgressLog / ProgressStore (only the worker pool is a '
       'recorder, the clock is virtual). Handed meta tiles are compared with a flat exact-rational enumeration of required and forbidden tiles, and every interruption point of every task is '
       'judged against a really continued run from the progress file as it was at that point.',
  note='All interruption points per task (continued runs once per distinct progress state, <= 40; real interrupted runs for all k when <= 30 calls, 16 sampled above). "Work done" = tiles handed '
       'to the pool. Tiles overlapped by <= 0.1 px are not judged. One open known finding (ancestor-grid-gap) is excused tile by tile and counted. Later additions: the reference coverage is computed independently from the configured coverage in its own SRS (dense pyproj transformation, measured-sagitta tolerance band); a hand-over sub-check runs the real TileWorkerPool with stub workers and virtual put() timeouts.'),
 'C12': dict(
  category='exploration',
  design_ref='DESIGN.md section 13',
  technique='Hypothesis-generated configurations and cache contents through the real loaders and backends; specification oracle plus differential comparison of the three cleanup strategies; file-system snapshot for bystanders',
  text='Generated cleanup scenarios (12 backends x 7 grid kinds x remove_all / remove_before forms x level selections x full extent or bbox / polygon / multi-coverage) are built through the real '
       'mapproxy.yaml / seed.yaml loaders, filled through the real backends with tiles of generated ages, and the real cleanup() result is compared with a specification of what must be removed '
       'and what must be kept, including planted bystanders (other levels, sibling cache, single_color_tiles, lock dir, unrelated files). Full-extent runs are repeated with an all-covering '
       'coverage so that directory walk, bulk delete and tile walk are compared on identical contents.',
  note='About 14k scenarios per quick run. The +-1 s age band and the <= 0.1 px coverage-touch band are accepted either way. Dimension caches, dry_run, --continue and remote backends are not covered. Later addition: tile files vanishing during the directory walk / tile walk (injected ENOENT races) must not make the cleanup skip other expired tiles or abort. Server time zone as a generated dimension; 12-21 level pyramids with content at levels >= 10.'),
 'C18': dict(
  category='exploration',
  design_ref='DESIGN.md section 19',
  technique='grammar-based property testing (Hypothesis) + (thorough) coverage-guided fuzzing (atheris) with WSGI-response, image decode/type/size, XML structure-whitelist, marker-injection and leak oracles',
  text='One application with every service (WMS 1.0.0-1.3.0, WMTS KVP/REST, TMS, KML, demo) is driven with a Hypothesis grammar over all known paths and parameters with per-parameter '
       'mutation (missing, duplicated, empty, huge, wrong type, non-ASCII, control characters, a unique markup marker), hostile headers (Host, X-Forwarded-*, X-Script-Name, conditional headers) '
       'and drawn upstream behaviour (ok / error / non-image / wrong size). Every answer is checked: WSGI response rules, image decodes with the declared type and requested size, XML well-formed '
       'with element names from the fixed template sets, marker only as escaped text in XML/HTML, no traceback or server path. Thorough adds an atheris byte-level campaign.',
  note='Catch-all 500 "internal error" pages are accepted as complete responses (counted by exception class); upstream lies passed through unchanged are not judged; element whitelists in '
       'markup.py were copied from the 4.0.2 templates; JS-string-context injection in demo pages is not detected. Later additions: call plans (same request 1-3 times, neighbours, overlapping responses begun before earlier bodies are consumed), wsgi.file_wrapper with close(), a layer that serves the memoised empty tile.'),
 'C14': dict(
  category='exploration',
  design_ref='DESIGN.md section 15',
  technique='Hypothesis-generated WMS layer stacks over analytic RGBA upstream fields; differential pixel comparison against an independent float "over" compositor that never prunes, fast-paths or combines; upstream-log based root-cause attribution',
  text='~45k generated GetMap requests per quick run (240k configurations thorough) over 1-6 direct WMS sources with opacity, colour keys (+tolerance), coverages with and without clip, resolution '
       'ranges, group layers, RGB / RGBA / paletted / tRNS delivery, combinable same-URL sources (the synthetic server answers LAYERS=a,b with its own composite), transparent flag, bgcolor, png and '
       'jpeg output; each response is compared pixel-wise with the full unoptimised bottom-to-top composition computed from the individual layer images.',
  note='Tolerance 2 levels per layer; pixels within 1.1 px of a coverage edge are not judged; JPEG is judged only in smooth regions. Direct WMS sources only (no caches, tile sources, band merging, '
       'reprojection). One open known finding (colour key applied after a combined request) is excluded by construction and demonstrated by a regression case. Later additions: services.wms.on_source_errors raise / notify / absent and services.wms.bbox_srs extents with requests reaching beyond them.'),
 'C16': dict(
  category='exploration',
  design_ref='DESIGN.md section 17',
  technique='property-based (Hypothesis) configuration generation + systematic boundary-value lattice per service; reference TMS/WMTS client for the advertised matrix; synthetic upstream call log; audit-hook file-system observer; before/after directory and sqlite snapshot diffs',
  text='Generated configurations (grid x cache backends x sources x dimensions x service options) x a boundary lattice of tile, feature-info and map requests ({-1, 0, last, last+1, 2^31, 10^18} per '
       'axis, levels {-1, 0, last, last+1, 99, non-numeric}, off-list formats and dimension values, GetMap sizes around max_output_pixels and max_tile_limit) are sent through a hand-built WSGI '
       'call. Every request that the served capabilities documents, the offered formats/dimensions or the configured limits make invalid must be answered with an error, with an empty upstream '
       'log, no audit-hook write event and an unchanged cache directory / sqlite row snapshot; the last valid address and at/below-limit maps must be served; every upstream tile URL and '
       'stored path/row must decode into the grid.',
  note='~35k requests / 240 configurations quick, ~3.1M / 20000 thorough. T == max_tile_limit is judged only for side effects (documentation and code disagree on whether exactly the limit is allowed). '
       'CPU/memory cost of a refused request is not measured; WMS-C tiled=true and reprojected GetMaps are not probed. Later additions: direct (uncached) and mixed WMS layers, tiled=true / vendor-parameter variants of every pixel-limit probe, two-grid caches and cache-of-cache cascades for the tile-limit probes. Over-limit GetMap must be answered with an error whatever EXCEPTIONS says (in-image / blank spellings of 1.1.1 and 1.3.0); WMTS GetFeatureInfo probes against each matrix set of two-grid layers.'),
 'C01': dict(
  category='exploration',
  design_ref='DESIGN.md section 2 and 25.9',
  technique='Hypothesis-generated deployments driven through WSGI with an analytic ground-function upstream; neighbourhood-interval pixel oracle; single-tile round trip; decoded upstream GetFeatureInfo calls compared with the clicked ground point',
  text='Generated deployments (grid SRS 3857/900913/4326/25832/31467, global or regional bbox, ll/ul origin, factor 2 / sqrt2 / custom resolutions, tile sizes 64-256 incl. non-square, meta size and '
       'buffer, upstream WMS 1.1.1/1.3.0 with supported_srs subsets and coverages or tile URL templates, cache-of-cache cascades, file/sqlite/mbtiles/compact backends) each answer 4-8 WMS 1.1.1/1.3.0 '
       'GetMap views (aligned, shifted, rescaled, far-off, reprojected, exactly one tile; inside, across and beyond the extent) followed by WMS and WMTS GetFeatureInfo clicks. Every sampled output '
       'pixel must lie in the colour interval of the ground function over a disc of rho >= 1.5 output pixels around its centre, pixels wholly inside the extent must not be background, pixels wholly '
       'outside must be; a one-tile request must equal the stored tile; the forwarded feature-info point must hit the clicked ground point within one pixel.',
  note='rho grows with documented resampling stages (coarser served level, clipping at the extent, source-side reprojection, cascades): 33 % of judged views have rho = 1.5, 25 % rho > 3.5. Displacements below '
       '~2 px are invisible. Reprojection cases are restricted to |lat| <= 80 deg and the usage areas of the SRS. Two open known findings (mesh accuracy test, cascade extent through a regional SRS) are '
       'excluded by construction and demonstrated by regression cases.'),
}
