HOOK_COMMITS = []
NOT_APPLICABLE = {}
CHECKS = {
 'C03': dict(
  category='exploration',
  design_ref='DESIGN.md section 4',
  technique='property-based testing (Hypothesis) against an exact-rational reference grid + bounded-exhaustive lattice enumeration',
  text='Generated grid definitions and queries (points, rectangles, resolutions placed on / one ulp beside / fractions of a pixel '
       'beside tile edges and level boundaries) are compared with an exact-rational reference model of a regular tile grid; all '
       'rectangles on an edge lattice of tiny grids are enumerated completely. Exploration is the right level: the statement '
       'quantifies over an infinite numeric domain whose failures cluster at float boundaries, which the generator targets.',
  note='Trusts CPython fractions/float semantics and Hypothesis; tolerance tau and the accepted (tau, 0.1 px] band are stated in the evidence assumptions.'),
}
