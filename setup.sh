#!/bin/bash
# Offline setup: make sure the check dependencies import in /venv (installing from the local wheelhouse if
# missing) and install atheris beside them under /verif/.deps for the coverage-guided campaigns.
set -e
cd "$(dirname "$0")"
WH=/opt/veriftools/wheels
/venv/bin/python -c "import hypothesis" 2>/dev/null || /venv/bin/pip install --no-index --find-links $WH hypothesis
/venv/bin/python -c "import numpy, PIL, shapely, pyproj, lxml, yaml, webtest, hypothesis; print('deps ok, hypothesis', hypothesis.__version__)"
if [ ! -d .deps/atheris ]; then
  /venv/bin/pip install -q --no-index --find-links $WH --target .deps atheris >/dev/null 2>&1 || echo "atheris not installable (fuzz campaigns fall back to hypothesis)"
fi
/venv/bin/python -c "import sys; sys.path.insert(0,'/repo'); import mapproxy; print('mapproxy from', mapproxy.__file__)"
