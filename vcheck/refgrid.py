"""Exact-rational reference model of a MapProxy tile grid.

Written from the definition of a regular tile grid (origin corner, resolution per level, tile size in
pixels), not from mapproxy/grid.py: tile (x, y) of level z covers
    [X0 + x*w*r_z, X0 + (x+1)*w*r_z]  x  [Y0 + y*h*r_z, Y0 + (y+1)*h*r_z]          (origin ll / sw)
    [X0 + x*w*r_z, X0 + (x+1)*w*r_z]  x  [Y1 - (y+1)*h*r_z, Y1 - y*h*r_z]          (origin ul / nw)
All numbers are the exact binary values of the floats the grid was configured with.
"""
import math
from fractions import Fraction as Fr


class RefGrid(object):
    def __init__(self, bbox, tile_size, resolutions, origin, grid_sizes=None):
        self.bbox = tuple(Fr(v) for v in bbox)
        self.tw, self.th = int(tile_size[0]), int(tile_size[1])
        self.res = [Fr(r) for r in resolutions]
        self.ul = origin in ('ul', 'nw')
        self.grid_sizes = grid_sizes

    @classmethod
    def from_grid(cls, grid):
        return cls(grid.bbox, grid.tile_size, list(grid.resolutions), grid.origin,
                   [tuple(g) for g in grid.grid_sizes])

    def span(self, z):
        return self.res[z] * self.tw, self.res[z] * self.th

    def tile_rect(self, x, y, z):
        sx, sy = self.span(z)
        x0 = self.bbox[0] + x * sx
        if self.ul:
            y1 = self.bbox[3] - y * sy
            return (x0, y1 - sy, x0 + sx, y1)
        y0 = self.bbox[1] + y * sy
        return (x0, y0, x0 + sx, y0 + sy)

    def tile_of_point(self, px, py, z):
        """Exact tile index of a point (points exactly on an edge belong to the tile that starts there
        in numbering direction)."""
        sx, sy = self.span(z)
        tx = math.floor((Fr(px) - self.bbox[0]) / sx)
        if self.ul:
            ty = math.floor((self.bbox[3] - Fr(py)) / sy)
        else:
            ty = math.floor((Fr(py) - self.bbox[1]) / sy)
        return tx, ty

    def col_of_edge(self, ex, z):
        """(Fractional) column index of an x coordinate."""
        sx, _ = self.span(z)
        return (Fr(ex) - self.bbox[0]) / sx

    def row_of_edge(self, ey, z, upper):
        """Fractional row index of a y coordinate: for ll grids rows count from the south edge, for ul
        grids from the north edge."""
        _, sy = self.span(z)
        if self.ul:
            return (self.bbox[3] - Fr(ey)) / sy
        return (Fr(ey) - self.bbox[1]) / sy

    def in_grid(self, x, y, z):
        gx, gy = self.grid_sizes[z]
        return 0 <= x < gx and 0 <= y < gy

    def flip_y(self, y, z):
        return self.grid_sizes[z][1] - 1 - y


def ulp_of(*vals):
    m = max(abs(float(v)) for v in vals)
    return math.ulp(m) if m > 0 else 5e-324


def closest_level_spec(resolutions, q, stretch, upper=None):
    """Level for a requested resolution q (all exact rationals): the level closest above q within
    the stretch factor, otherwise the coarsest finer level, otherwise the finest level.
    `upper` overrides the upper end q*stretch of the band (used to model one float rounding)."""
    if upper is None:
        upper = q * stretch
    band = [i for i, r in enumerate(resolutions) if q <= r <= upper]
    if band:
        return max(band)  # resolutions are sorted coarse -> fine, finest in band = closest above q
    finer = [i for i, r in enumerate(resolutions) if r < q]
    if finer:
        return min(finer)
    return len(resolutions) - 1
