"""sandbox.py - file-system observer built on interpreter audit events, with root allow-lists.

Shared component (used by C09, reusable by C16): while an `Observer` is *armed*, every file-system touch
that CPython announces through `sys.audit` is recorded as an `Event` with the path as given and its
`os.path.realpath` **at the time of the event** (audit events are raised before the operation, so the
source of a rename / the victim of a remove still exists and is resolved through whatever symlinks are
in place at that moment).  Nothing is blocked (unless `confine` is given, see below) - the observer only
watches; judging is a separate step.

API
---
    install()                       idempotent; adds the one process-wide audit hook (audit hooks can never
                                    be removed, so it is gated on the module-level `armed` observer and
                                    costs one attribute test per audit event when nothing is armed)
    obs = Observer(write_roots, read_roots=(), read_files=(), probes=True, confine=None, resolved=False)
                                    roots are passed through os.path.realpath unless resolved=True
                                    confine=<dir>: damage limitation for fuzzing code with known path
                                    escapes - a 'write' event whose realpath lies outside `confine` (and
                                    outside write_roots) is recorded with detail 'denied' and then refused
                                    by raising SandboxDenied (a PermissionError) out of the audit hook, so
                                    the host file system stays clean; everything inside `confine` proceeds
    with obs:                       arm ... disarm (also `obs.arm()` / `obs.disarm()`); not re-entrant,
        app(environ, start_response)    only one observer can be armed per process at a time
    obs.events                      list of Event(kind, op, path, real, detail) in program order
    obs.verdicts()                  list of (rule, Event) for events outside the allow-lists (see below)
    obs.counts                      Counter of 'kind:op'
    obs.hook_errors                 list of tracebacks of exceptions inside the hook (must be empty; the
                                    caller should turn a non-empty list into a harness error)
    default_read_roots(extra=())    (roots, files): interpreter, stdlib, site-packages, the mapproxy package
                                    under test, vcheck itself, proj data, zoneinfo, a few /dev and /etc files

Event kinds
-----------
    'write'   open with a writing flag, os.mkdir, os.rename (both ends), os.remove/unlink, os.rmdir,
              os.symlink (the link), os.link (the new name), os.chmod, os.chown, os.truncate, os.utime,
              os.setxattr/removexattr, sqlite3.connect (creates the database file), shutil.rmtree,
              shutil.copyfile/copytree/move/copymode/copystat (destination), tempfile.mkstemp/mkdtemp
    'read'    open without a writing flag, the source of os.link / shutil.copy*, and the *target* of an
              os.symlink resolved relative to the link's directory (op 'os.symlink-target': a link
              pointing outside makes later reads leave the tree)
    'list'    os.listdir, os.scandir, os.walk, glob.glob
    'probe'   os.stat / os.lstat (and therefore os.path.exists/isfile/isdir/getmtime ...).  These have no
              audit event; while armed the two functions are wrapped (and restored on disarm).  Probes
              are recorded for statistics and never judged by `verdicts()`.
    'exec'    subprocess.Popen, os.system, os.exec, os.posix_spawn, os.fork (recorded, never judged here)

Judgement (`verdicts`)
----------------------
    'write-outside'  a 'write' event whose realpath is not below one of `write_roots`
                     (exceptions: os.mkdir of an ancestor of a write root - the way down to it has to be
                     created by somebody; byte-code files `__pycache__/*.pyc*` below a read root - the import
                     machinery, counted in obs.counts['bytecode-write'])
                     A write root may also be a single file (an .mbtiles database and its side files).
    'read-outside'   a 'read' or 'list' event whose realpath is neither below `write_roots`/`read_roots`
                     nor one of `read_files`
    Paths that cannot be resolved (embedded NUL ...) get detail 'unresolvable' and are judged on their
    normalised absolute form; the operation itself fails in the kernel/CPython for those.

Not seen: file access inside C extensions that do not raise audit events (sqlite's own journal/WAL files
beside an audited database path, PROJ's proj.db, Pillow's C-level font loading, libc).  Relative paths are
resolved against `dir_fd` when the event carries one, else against the current working directory.
"""
import collections
import os
import sys
import threading
import traceback

WRITE, READ, LIST, PROBE, EXEC = 'write', 'read', 'list', 'probe', 'exec'

Event = collections.namedtuple('Event', 'kind op path real detail')

armed = None          # the Observer currently recording, or None
_installed = False
_tls = threading.local()
_orig_stat = os.stat
_orig_lstat = os.lstat

_WRITE_FLAGS = os.O_WRONLY | os.O_RDWR | os.O_CREAT | os.O_TRUNC | os.O_APPEND

# event name -> list of (kind, argument index, dir_fd argument index or None)
_SIMPLE = {
    'os.mkdir': [(WRITE, 0, 2)],
    'os.rename': [(WRITE, 0, 2), (WRITE, 1, 3)],
    'os.remove': [(WRITE, 0, 1)],
    'os.rmdir': [(WRITE, 0, 1)],
    'os.link': [(READ, 0, 2), (WRITE, 1, 3)],
    'os.chmod': [(WRITE, 0, 2)],
    'os.chown': [(WRITE, 0, 3)],
    'os.truncate': [(WRITE, 0, None)],
    'os.utime': [(WRITE, 0, 3)],
    'os.setxattr': [(WRITE, 0, None)],
    'os.removexattr': [(WRITE, 0, None)],
    'os.listdir': [(LIST, 0, None)],
    'os.scandir': [(LIST, 0, None)],
    'os.walk': [(LIST, 0, None)],
    'glob.glob': [(LIST, 0, None)],
    'shutil.rmtree': [(WRITE, 0, 1)],
    'shutil.copyfile': [(READ, 0, None), (WRITE, 1, None)],
    'shutil.copytree': [(READ, 0, None), (WRITE, 1, None)],
    'shutil.copymode': [(READ, 0, None), (WRITE, 1, None)],
    'shutil.copystat': [(READ, 0, None), (WRITE, 1, None)],
    'shutil.move': [(WRITE, 0, None), (WRITE, 1, None)],
    'tempfile.mkstemp': [(WRITE, 0, None)],
    'tempfile.mkdtemp': [(WRITE, 0, None)],
}
_EXEC = ('subprocess.Popen', 'os.system', 'os.exec', 'os.posix_spawn', 'os.fork', 'os.forkpty')
_WATCHED = frozenset(list(_SIMPLE) + list(_EXEC) + ['open', 'os.symlink', 'sqlite3.connect'])


def _resolve(path, dir_fd=None):
    """-> (display path, realpath, detail).  Never raises."""
    detail = ''
    try:
        p = os.fsdecode(path)
    except Exception:
        return repr(path), repr(path), 'undecodable'
    base = None
    if dir_fd is not None and not os.path.isabs(p):
        try:
            base = os.readlink('/proc/self/fd/%d' % dir_fd)
        except OSError:
            detail = 'dir_fd-unresolved'
    full = os.path.join(base, p) if base else p
    try:
        real = os.path.realpath(full)
    except (ValueError, OSError):
        real = os.path.normpath(os.path.abspath(full.replace('\x00', '\\0')))
        detail = 'unresolvable'
    return p, real, detail


class SandboxDenied(PermissionError):
    pass


def _record(obs, kind, op, path, dir_fd=None, detail=''):
    p, real, d = _resolve(path, dir_fd)
    deny = (kind == WRITE and obs.confine is not None and not is_under(real, [obs.confine])
            and not is_under(real, obs.write_roots) and obs.classify(Event(kind, op, p, real, '')) is not None)
    obs.events.append(Event(kind, op, p, real, 'denied' if deny else (detail or d)))
    obs.counts['%s:%s' % (kind, op)] += 1
    if deny:
        raise SandboxDenied(13, 'vcheck sandbox: write outside the confinement root refused', p)


def _hook(event, args):
    obs = armed
    if obs is None or event not in _WATCHED:
        return
    if getattr(_tls, 'inside', False):
        return
    _tls.inside = True
    try:
        if event == 'open':
            path, mode, flags = (tuple(args) + (None, None, None))[:3]
            if isinstance(path, int):
                return   # open(fd): the descriptor was announced when it was created
            if flags is None:
                writing = bool(mode) and any(c in mode for c in 'wax+')
            else:
                writing = bool(flags & _WRITE_FLAGS)
            _record(obs, WRITE if writing else READ, 'open', path)
        elif event == 'os.symlink':
            src, dst = args[0], args[1]
            dir_fd = args[2] if len(args) > 2 else None
            _record(obs, WRITE, 'os.symlink', dst, dir_fd)
            try:
                d, s = os.fsdecode(dst), os.fsdecode(src)
                target = os.path.join(os.path.dirname(d), s)
            except Exception:
                target = src
            _record(obs, READ, 'os.symlink-target', target, dir_fd)
        elif event == 'sqlite3.connect':
            db = args[0]
            if isinstance(db, (str, bytes, os.PathLike)):
                name = os.fsdecode(db)
                if name in ('', ':memory:') or name.startswith('file::memory:'):
                    obs.counts['sqlite-memory'] += 1
                else:
                    if name.startswith('file:'):
                        name = name[5:].split('?', 1)[0]
                    _record(obs, WRITE, 'sqlite3.connect', name)
        elif event in _SIMPLE:
            for kind, idx, fd_idx in _SIMPLE[event]:
                if idx >= len(args):
                    continue
                path = args[idx]
                if isinstance(path, int):
                    # fd based variant (os.truncate(fd), os.chmod(fd), os.listdir(fd))
                    try:
                        path = os.readlink('/proc/self/fd/%d' % path)
                    except OSError:
                        continue
                dir_fd = args[fd_idx] if fd_idx is not None and fd_idx < len(args) else None
                if not isinstance(dir_fd, int) or dir_fd < 0:
                    dir_fd = None
                _record(obs, kind, event, path, dir_fd)
        else:
            obs.events.append(Event(EXEC, event, repr(args[:1])[:200], '', ''))
            obs.counts['%s:%s' % (EXEC, event)] += 1
    except SandboxDenied:
        raise
    except Exception:   # an audit hook must never break the audited call
        obs.hook_errors.append(traceback.format_exc())
    finally:
        _tls.inside = False


def install():
    """Add the process-wide audit hook (once)."""
    global _installed
    if not _installed:
        sys.addaudithook(_hook)
        _installed = True


def _make_probe(orig, op):
    def probe(path, *a, **kw):
        obs = armed
        if obs is not None and not getattr(_tls, 'inside', False) and not isinstance(path, int):
            _tls.inside = True
            try:
                _record(obs, PROBE, op, path, kw.get('dir_fd'))
            except Exception:
                obs.hook_errors.append(traceback.format_exc())
            finally:
                _tls.inside = False
        return orig(path, *a, **kw)
    probe.__name__ = orig.__name__
    probe.__wrapped__ = orig
    return probe


def is_under(real, roots):
    for r in roots:
        if real == r or real.startswith(r.rstrip(os.sep) + os.sep):
            return True
    return False


class Observer(object):
    def __init__(self, write_roots, read_roots=(), read_files=(), probes=True, confine=None, resolved=False):
        rp = (lambda p: p) if resolved else os.path.realpath   # resolved=True: caller passes realpaths
        self.confine = rp(confine) if confine else None
        self.write_roots = [rp(r) for r in write_roots]
        self.read_roots = [rp(r) for r in read_roots]
        self.read_files = set(rp(f) for f in read_files)
        self.probes = probes
        self.events = []
        self.counts = collections.Counter()
        self.hook_errors = []
        self._patched = False

    # -- arming -------------------------------------------------------------------------------
    def arm(self):
        global armed
        install()
        if armed is not None:
            raise RuntimeError('another sandbox observer is already armed')
        if self.probes:
            os.stat = _make_probe(_orig_stat, 'os.stat')
            os.lstat = _make_probe(_orig_lstat, 'os.lstat')
            self._patched = True
        armed = self
        return self

    def disarm(self):
        global armed
        armed = None
        if self._patched:
            os.stat = _orig_stat
            os.lstat = _orig_lstat
            self._patched = False

    def __enter__(self):
        return self.arm()

    def __exit__(self, *exc):
        self.disarm()
        return False

    def clear(self):
        del self.events[:]
        self.counts.clear()

    # -- judging ------------------------------------------------------------------------------
    def classify(self, ev):
        """-> None (allowed / not judged) or the name of the broken rule."""
        if ev.kind == WRITE:
            if is_under(ev.real, self.write_roots):
                return None
            if ev.op == 'os.mkdir' and any(is_under(r, [ev.real]) for r in self.write_roots):
                return None     # creating the way down to an allowed directory
            base = os.path.basename(ev.real)
            if '__pycache__' in ev.real and '.pyc' in base and is_under(ev.real, self.read_roots):
                self.counts['bytecode-write'] += 1
                return None
            return 'write-outside'
        if ev.kind in (READ, LIST):
            if is_under(ev.real, self.write_roots) or is_under(ev.real, self.read_roots) \
                    or ev.real in self.read_files:
                return None
            return 'read-outside'
        return None

    def verdicts(self):
        out = []
        for ev in list(self.events):
            rule = self.classify(ev)
            if rule:
                out.append((rule, ev))
        return out

    def probes_outside(self):
        """probe events that leave write_roots + read_roots + read_files (statistics only)"""
        return [ev for ev in list(self.events) if ev.kind == PROBE and not (
            is_under(ev.real, self.write_roots) or is_under(ev.real, self.read_roots)
            or ev.real in self.read_files)]


def default_read_roots(extra=()):
    """Static read allow-list of a Python web application: (directory roots, single files).

    roots: interpreter prefixes, standard library, every site-packages / extra sys.path directory except
    the working directory, the `mapproxy` package directory under test (templates, fonts, schemas), the
    vcheck package, *.egg-info / *.dist-info metadata beside them, PROJ's data directory, zoneinfo;  files: random/null devices, time-zone and mime-type
    tables that the standard library consults lazily."""
    import sysconfig
    from . import REPO, VERIF_DIR
    roots = set()
    for p in (sys.prefix, sys.base_prefix, sys.exec_prefix, sys.base_exec_prefix):
        roots.add(p)
    for key in ('stdlib', 'platstdlib', 'purelib', 'platlib'):
        p = sysconfig.get_paths().get(key)
        if p:
            roots.add(p)
    skip = set(os.path.realpath(p) for p in (os.getcwd(), VERIF_DIR, REPO, '/'))
    for p in sys.path:
        if p and os.path.isdir(p) and os.path.realpath(p) not in skip:
            roots.add(p)
    roots.add(os.path.join(REPO, 'mapproxy'))
    # distribution metadata read by importlib.metadata (entry points of plugins) beside importable packages
    for p in list(sys.path) + [REPO, '/repo']:
        if p and os.path.isdir(p):
            try:
                names = os.listdir(p)
            except OSError:
                continue
            for n in names:
                if n.endswith(('.egg-info', '.dist-info')):
                    roots.add(os.path.join(p, n))
    roots.add(os.path.join(VERIF_DIR, 'vcheck'))
    try:
        import pyproj.datadir
        roots.add(pyproj.datadir.get_data_dir())
    except Exception:
        pass
    roots.add('/usr/share/zoneinfo')
    roots.add('/proc/self')
    roots.add('/proc/%d' % os.getpid())
    roots.update(extra)
    files = ['/dev/urandom', '/dev/random', '/dev/null', '/etc/localtime', '/etc/timezone',
             '/etc/mime.types', '/etc/httpd/mime.types', '/etc/apache2/mime.types']
    roots = sorted(set(os.path.realpath(r) for r in roots if r and os.path.realpath(r) != '/'))
    return roots, files
