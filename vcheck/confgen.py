"""confgen - generated MapProxy configurations (shared component, owner: C01 builder).

A *spec* is a plain JSON-able dict describing one small MapProxy deployment: grids, one upstream source,
one or two caches (optionally a cache-of-cache cascade), the layers on top and the synthetic upstream
servers that belong to it.  Everything else is derived from the spec by pure functions, so a spec that
was serialised into a replay file reproduces the same application.

    spec = {
      'grids':   {'g1': GRID, 'g2': GRID, ...}
      'source':  {'name': 's0', 'type': 'wms', 'host': 'wms.test', 'version': '1.1.1'|'1.3.0',
                  'supported_srs': [..]|None, 'coverage': {'bbox': [..], 'srs': ..}|None,
                  'transparent': bool, 'featureinfo': bool}
               | {'name': 's0', 'type': 'tile', 'host': 'tiles.test', 'grid': 'gs', 'kind': 'tms'|'xyz'|..,
                  'coverage': ..|None, 'transparent': bool}
      'caches':  [{'name': 'c1', 'grid': 'g1', 'sources': ['s0'], 'meta_size': [a, b], 'meta_buffer': n,
                   'backend': {'type': 'file', 'directory_layout': 'tc'} | {'type': 'sqlite'} | ...,
                   'minimize_meta_requests': bool, 'bulk_meta_tiles': bool}, {'name': 'c2', 'sources': ['c1'], ...}]
      'layers':  [{'name': 'l1', 'sources': ['c1']}, {'name': 'l2', 'sources': ['c2']}, {'name': 'ld', 'sources': ['s0']}]
      'wms_srs': [...], 'resampling': 'bicubic'|'bilinear'|'nearest', 'paletted': False,
      'focus':   {'grid': 'g1', 'level': z, 'res': r, 'point': [lon, lat]}     # where/at which scale to look
    }
    GRID = {'srs', 'bbox': [x0, y0, x1, y1], 'origin': 'll'|'ul'|'sw'|'nw', 'tile_size': [w, h],
            'mode': 'f2'|'sqrt2'|'min_res'|'custom', 'num_levels': n, 'min_res': r, 'res_factor': f, 'res': [..]}

Pure functions (no Hypothesis needed, used by replay):
    grid_resolutions(GRID) -> [float]       resolutions computed from the definition of the yaml options,
                                            independently of mapproxy.grid
    grid_sizes(GRID) -> [(nx, ny)]          tiles per level
    ref_grid(GRID) -> refgrid.RefGrid       exact reference grid (incl. grid_sizes)
    grid_yaml(GRID) -> dict                 the `grids:` entry
    config_yaml(spec) -> dict               complete mapproxy.yaml structure for ground.make_app
    install_upstream(spec, ground) -> ground.Upstream   with the synthetic servers of the spec registered
    running(spec, ground) -> context manager yielding Deployment(app=webtest.TestApp, upstream, base_dir, spec);
                                            patches HTTPClient.open, creates and removes the scratch directory
    layer_chain(spec, layer_name) -> dict   what a layer is built from: 'grids' (top cache first), 'source',
                                            'rects' [(bbox, srs)] that bound its data, 'srs_set', 'kind'
    check_model(spec)                       raises AssertionError if mapproxy's loaded grids disagree with
                                            grid_resolutions/grid_sizes (harness self-check)
Geometry helpers: to_lonlat, from_lonlat, dense_bbox, scale_xy, SRS_AREA, safe_area, lonlat_in_area.

Strategies (Hypothesis):
    grid_specs(srs, res_m, point, regional=None)   a grid that has a level close to `res_m` metres/px at `point`
    config_specs(kinds=('wms', 'tile'), cascade=None, direct=None)   complete specs
Every generated configuration is accepted by the loader with ignore_config_warnings=False (no warnings,
no errors): grids always state origin and tile_size, caches always name their grids, tile sources their grid.

Soundness notes for users of this module
 * all SRS of one deployment (grids, supported_srs, coverage, service SRS) come from one DATUM_FAMILIES entry, so
   chained and direct transformations agree (see the comment there).
 * `image.paletted` is always false in generated specs (DESIGN section 1); config_yaml honours spec['paletted'] if a
   user of this module sets it, but the quantisation error is not bounded by eps = 16 (28 levels observed).
 * regional grids and coverages lie inside HOME (lon 6.5..11.5, lat 47.5..54.5), where all five SRS are valid.
 * quadkey directory layout and geopackage are not generated (address collisions on non-pyramid grids /
   level-0 finding of C05 would show up as content errors that are not this family's business).
"""
import contextlib
import math
import shutil
import tempfile

import numpy as np

from . import ground
from .refgrid import RefGrid

GRID_SRS = ['EPSG:3857', 'EPSG:900913', 'EPSG:4326', 'EPSG:25832', 'EPSG:31467']
MERC = ('EPSG:3857', 'EPSG:900913')
PROJECTED_REGIONAL = ('EPSG:25832', 'EPSG:31467')
GLOBAL_BBOX = {
    'EPSG:3857': [-20037508.342789244, -20037508.342789244, 20037508.342789244, 20037508.342789244],
    'EPSG:900913': [-20037508.342789244, -20037508.342789244, 20037508.342789244, 20037508.342789244],
    'EPSG:4326': [-180.0, -90.0, 180.0, 90.0],
}
# lon/lat boxes in which the SRS is used by the generators (inside the area of validity, |lat| <= 80)
SRS_AREA = {
    'EPSG:3857': (-179.0, -80.0, 179.0, 80.0),
    'EPSG:900913': (-179.0, -80.0, 179.0, 80.0),
    'EPSG:4326': (-179.0, -80.0, 179.0, 80.0),
    'EPSG:25832': (3.0, 44.0, 15.0, 60.0),
    'EPSG:31467': (5.0, 45.5, 13.0, 56.5),
}
HOME = (6.5, 47.5, 11.5, 54.5)
# Chains of transformations are only path-independent inside one of these families: PROJ transforms
# ETRS89 <-> DHDN and WGS84 <-> DHDN with different operations (0.6-0.8 m apart in HOME), while it treats
# ETRS89 <-> WGS84 as identical.  A deployment that mixes all three gives MapProxy (which chains request SRS ->
# cache SRS -> source SRS) and any oracle (which goes directly to the ground SRS) legitimately different answers.
DATUM_FAMILIES = {
    'wgs84+etrs89': ['EPSG:3857', 'EPSG:900913', 'EPSG:4326', 'EPSG:25832'],
    'wgs84+dhdn': ['EPSG:3857', 'EPSG:900913', 'EPSG:4326', 'EPSG:31467'],
    'etrs89+dhdn': ['EPSG:25832', 'EPSG:31467'],
}
M_PER_DEG = 111319.49079327358

WMS_HOST = 'wms.test'
TILE_HOST = 'tiles.test'
TILE_KINDS = ['tms', 'xyz', 'zyx', 'quadkey', 'tc', 'arcgis', 'bbox']
FILE_LAYOUTS = ['tc', 'tms', 'mp', 'arcgis', 'reverse_tms']


# -- geometry ------------------------------------------------------------------------------------------

def to_lonlat(x, y, srs):
    lo, la = ground.transform(x, y, srs, 'EPSG:4326')
    return float(lo), float(la)


def from_lonlat(lon, lat, srs):
    x, y = ground.transform(lon, lat, 'EPSG:4326', srs)
    return float(x), float(y)


def dense_bbox(bbox, src, dst, n=64):
    """Bounding box in dst of the boundary of an axis-parallel rectangle given in src (n segments per edge,
    a superset of the 4-segments-per-edge points MapProxy uses).  Non-finite results become +-inf."""
    if ground._crs_code(src) == ground._crs_code(dst):
        return tuple(float(v) for v in bbox)
    t = np.linspace(0.0, 1.0, n + 1)
    x0, y0, x1, y1 = [float(v) for v in bbox]
    xs = np.concatenate([x0 + t * (x1 - x0), np.full(n + 1, x1), x0 + t * (x1 - x0), np.full(n + 1, x0)])
    ys = np.concatenate([np.full(n + 1, y0), y0 + t * (y1 - y0), np.full(n + 1, y1), y0 + t * (y1 - y0)])
    X, Y = ground.transform(xs, ys, src, dst)
    fin = np.isfinite(X) & np.isfinite(Y)
    if not fin.all() or not fin.any():
        return (-math.inf, -math.inf, math.inf, math.inf)
    return (float(X.min()), float(Y.min()), float(X.max()), float(Y.max()))


def scale_xy(src, dst, pt):
    """(sx, sy): dst units per src unit along the x and the y axis of src at pt (src coordinates)."""
    if ground._crs_code(src) == ground._crs_code(dst):
        return 1.0, 1.0
    x, y = float(pt[0]), float(pt[1])
    d = 1e-4 if ground._crs_code(src) == 'EPSG:4326' else 10.0
    X, Y = ground.transform([x - d, x + d, x, x], [y, y, y - d, y + d], src, dst)
    sx = math.hypot(X[1] - X[0], Y[1] - Y[0]) / (2 * d)
    sy = math.hypot(X[3] - X[2], Y[3] - Y[2]) / (2 * d)
    return float(sx), float(sy)


def metres_per_unit(srs, lonlat):
    """Approximate ground metres per SRS unit along x at a place (used only to pick scales)."""
    code = ground._crs_code(srs)
    if code == 'EPSG:4326':
        return M_PER_DEG * math.cos(math.radians(lonlat[1]))
    if code == 'EPSG:3857':
        return math.cos(math.radians(lonlat[1]))
    return 1.0


def safe_area(srs_set):
    """Intersection of the lon/lat usage areas of a set of SRS codes."""
    boxes = [SRS_AREA[s] for s in srs_set]
    return (max(b[0] for b in boxes), max(b[1] for b in boxes), min(b[2] for b in boxes), min(b[3] for b in boxes))


def lonlat_in_area(lon, lat, area):
    return area[0] <= lon <= area[2] and area[1] <= lat <= area[3]


# -- grids ------------------------------------------------------------------------------------------------

def grid_resolutions(g):
    """Resolutions per level from the documented meaning of the grid options (res / res_factor / min_res /
    num_levels): level 0 shows the bbox in one tile unless min_res or res says otherwise."""
    mode = g['mode']
    if mode == 'custom':
        return sorted((float(r) for r in g['res']), reverse=True)
    w = g['bbox'][2] - g['bbox'][0]
    h = g['bbox'][3] - g['bbox'][1]
    first = max(w / g['tile_size'][0], h / g['tile_size'][1])
    if mode == 'f2':
        f = 2.0
    elif mode == 'sqrt2':
        f = math.sqrt(2)
    elif mode == 'min_res':
        first = float(g['min_res'])
        f = math.sqrt(2) if g['res_factor'] == 'sqrt2' else float(g['res_factor'])
    else:
        raise ValueError(mode)
    res = [first]
    while len(res) < g['num_levels']:
        res.append(res[-1] / f)
    return res


def grid_sizes(g):
    w = g['bbox'][2] - g['bbox'][0]
    h = g['bbox'][3] - g['bbox'][1]
    out = []
    for r in grid_resolutions(g):
        nx = max(int(math.ceil((w // r) / g['tile_size'][0])), 1)
        ny = max(int(math.ceil((h // r) / g['tile_size'][1])), 1)
        out.append((nx, ny))
    return out


def ref_grid(g):
    return RefGrid(g['bbox'], g['tile_size'], grid_resolutions(g), g['origin'], grid_sizes(g))


def grid_tile_hull(g):
    """Rectangle covered by the tiles of any level (tiles may overlap the grid bbox on the sides away from the
    origin corner)."""
    res = grid_resolutions(g)
    sizes = grid_sizes(g)
    wx = max(n[0] * g['tile_size'][0] * r for n, r in zip(sizes, res))
    wy = max(n[1] * g['tile_size'][1] * r for n, r in zip(sizes, res))
    x0, y0, x1, y1 = [float(v) for v in g['bbox']]
    if g['origin'] in ('ul', 'nw'):
        return (x0, min(y0, y1 - wy), max(x1, x0 + wx), y1)
    return (x0, y0, max(x1, x0 + wx), max(y1, y0 + wy))


def grid_yaml(g):
    d = {'srs': g['srs'], 'bbox': [float(v) for v in g['bbox']], 'origin': g['origin'],
         'tile_size': [int(v) for v in g['tile_size']]}
    mode = g['mode']
    if mode == 'custom':
        d['res'] = [float(r) for r in g['res']]
    else:
        d['num_levels'] = int(g['num_levels'])
        if mode == 'sqrt2':
            d['res_factor'] = 'sqrt2'
        elif mode == 'min_res':
            d['min_res'] = float(g['min_res'])
            d['res_factor'] = g['res_factor']
    return d


def mapproxy_grid(g, name='g'):
    """The TileGrid the loader builds for this grid spec (same call as GridConfiguration.tile_grid)."""
    from mapproxy.grid import tile_grid
    y = grid_yaml(g)
    return tile_grid(name=name, srs=y['srs'], tile_size=tuple(y['tile_size']), min_res=y.get('min_res'),
                     res=y.get('res'), res_factor=y.get('res_factor', 2.0), bbox=y['bbox'],
                     num_levels=y.get('num_levels'), stretch_factor=1.15, max_shrink_factor=4.0,
                     origin=y['origin'])


def check_model(spec):
    for name, g in spec['grids'].items():
        mg = mapproxy_grid(g, name)
        mine = grid_resolutions(g)
        theirs = list(mg.resolutions)
        assert len(mine) == len(theirs), ('levels', name, mine, theirs)
        for a, b in zip(mine, theirs):
            assert abs(a - b) <= 1e-12 * abs(a), ('resolution model', name, a, b)
        assert [tuple(s) for s in mg.grid_sizes] == grid_sizes(g), ('grid sizes', name)
        assert tuple(mg.bbox) == tuple(float(v) for v in g['bbox'])


# -- configuration ----------------------------------------------------------------------------------------

def _coverage_yaml(cov):
    return {'bbox': [float(v) for v in cov['bbox']], 'srs': cov['srs']}


def source_yaml(spec):
    s = spec['source']
    if s['type'] == 'wms':
        d = {'type': 'wms',
             'req': {'url': 'http://%s/service?' % s['host'], 'layers': 'gnd', 'transparent': bool(s['transparent'])},
             'wms_opts': {'version': s['version'], 'featureinfo': bool(s.get('featureinfo', True))}}
        if s.get('supported_srs'):
            d['supported_srs'] = list(s['supported_srs'])
    else:
        d = {'type': 'tile', 'grid': s['grid'], 'transparent': bool(s['transparent']),
             'url': 'http://%s/t/%s' % (s['host'], ground.TILE_TEMPLATES[s['kind']])}
    if s.get('coverage'):
        d['coverage'] = _coverage_yaml(s['coverage'])
    return d


def cache_yaml(c):
    d = {'grids': [c['grid']], 'sources': list(c['sources']), 'format': 'image/png',
         'meta_size': [int(v) for v in c['meta_size']], 'meta_buffer': int(c['meta_buffer']),
         'cache': dict(c['backend'])}
    if c.get('minimize_meta_requests'):
        d['minimize_meta_requests'] = True
    if c.get('bulk_meta_tiles'):
        d['bulk_meta_tiles'] = True
    return d


def config_yaml(spec):
    conf = {
        'services': {'wms': {'srs': list(spec['wms_srs']), 'md': {'title': 'vcheck'}},
                     'tms': {'use_grid_names': True},
                     'wmts': {'featureinfo_formats': [{'mimetype': 'text/plain', 'suffix': 'text'}]}},
        'grids': dict((name, grid_yaml(g)) for name, g in spec['grids'].items()),
        'sources': {spec['source']['name']: source_yaml(spec)},
        'caches': dict((c['name'], cache_yaml(c)) for c in spec['caches']),
        'layers': [{'name': l['name'], 'title': l['name'], 'sources': list(l['sources'])} for l in spec['layers']],
        'globals': {'image': {'resampling_method': spec.get('resampling', 'bicubic'),
                              'paletted': bool(spec.get('paletted', False))}},
    }
    return conf


def install_upstream(spec, gnd):
    up = ground.Upstream(gnd)
    s = spec['source']
    if s['type'] == 'wms':
        up.add_wms(s['host'])
    else:
        g = spec['grids'][s['grid']]
        up.add_tiles(s['host'], ref_grid(g), g['srs'], kind=s['kind'], prefix='/t/')
    return up


class Deployment(object):
    def __init__(self, app, upstream, base_dir, spec):
        self.app = app
        self.upstream = upstream
        self.base_dir = base_dir
        self.spec = spec


@contextlib.contextmanager
def running(spec, gnd):
    """Build the application of a spec in a scratch directory with its synthetic upstream installed."""
    import webtest
    base = tempfile.mkdtemp(prefix='vconf.')
    up = install_upstream(spec, gnd)
    try:
        with up:
            app = ground.make_app(config_yaml(spec), base, paletted=bool(spec.get('paletted', False)))
            yield Deployment(webtest.TestApp(app), up, base, spec)
    finally:
        shutil.rmtree(base, ignore_errors=True)


def _cache_by_name(spec, name):
    for c in spec['caches']:
        if c['name'] == name:
            return c
    return None


def layer_chain(spec, layer_name):
    """Describe what a layer is made of (top first)."""
    layer = [l for l in spec['layers'] if l['name'] == layer_name][0]
    src = layer['sources'][0]
    grids = []
    caches = []
    while _cache_by_name(spec, src) is not None:
        c = _cache_by_name(spec, src)
        caches.append(c)
        grids.append(c['grid'])
        src = c['sources'][0]
    s = spec['source']
    assert src == s['name']
    rects = [(tuple(spec['grids'][g]['bbox']), spec['grids'][g]['srs']) for g in grids]
    outer = [(grid_tile_hull(spec['grids'][g]), spec['grids'][g]['srs']) for g in grids]
    srs_set = [spec['grids'][g]['srs'] for g in grids]
    if s['type'] == 'tile':
        sg = spec['grids'][s['grid']]
        rects.append((tuple(sg['bbox']), sg['srs']))
        outer.append((grid_tile_hull(sg), sg['srs']))
        srs_set.append(sg['srs'])
    if s.get('coverage'):
        rects.append((tuple(s['coverage']['bbox']), s['coverage']['srs']))
        outer.append((tuple(s['coverage']['bbox']), s['coverage']['srs']))
        srs_set.append(s['coverage']['srs'])
    if s['type'] == 'wms' and s.get('supported_srs'):
        srs_set.extend(s['supported_srs'])
    kind = s['type'] if len(grids) == 1 else ('cascade-' + s['type'] if grids else 'direct')
    return {'layer': layer_name, 'grids': grids, 'caches': caches, 'source': s, 'rects': rects, 'outer_rects': outer,
            'srs_set': srs_set, 'kind': kind, 'queryable': s['type'] == 'wms' and bool(s.get('featureinfo', True))}


# -- strategies -------------------------------------------------------------------------------------------

def _st():
    from hypothesis import strategies as st
    return st


def _round_sig(v, digits):
    if v == 0:
        return 0.0
    return float('%.*g' % (digits, v))


def grid_specs(srs, res_m, point, regional=None):
    """Strategy for a grid in `srs` that has a level whose resolution is close to res_m metres per pixel at
    the lon/lat `point`, and whose bbox contains the point.  Returns (GRID, focus_level)."""
    st = _st()

    @st.composite
    def build(draw):
        mpu = metres_per_unit(srs, point)
        r_units = res_m / mpu
        tile_size = draw(st.sampled_from([[64, 64], [64, 64], [128, 128], [256, 256], [128, 64], [64, 128],
                                          [100, 100], [96, 160]]))
        origin = draw(st.sampled_from(['ll', 'ul', 'sw', 'nw', 'ul', 'll']))
        can_global = srs in GLOBAL_BBOX
        is_regional = regional
        if is_regional is None:
            is_regional = (not can_global) or draw(st.booleans())
        if not can_global:
            is_regional = True
        mode = draw(st.sampled_from(['f2', 'f2', 'sqrt2', 'min_res', 'custom', 'custom']))
        g = {'srs': srs, 'origin': origin, 'tile_size': tile_size, 'mode': mode}
        if not is_regional:
            g['bbox'] = list(GLOBAL_BBOX[srs])
            w = g['bbox'][2] - g['bbox'][0]
            h = g['bbox'][3] - g['bbox'][1]
            first = max(w / tile_size[0], h / tile_size[1])
        else:
            # extent: 1.3 .. 40 tiles of the focus level wide, at most ~200 x 300 km, placed so that it contains
            # the point (which lies in the inner part of HOME): it stays inside the usage area of every SRS
            px, py = from_lonlat(point[0], point[1], srs)
            max_units = 200000.0 / mpu
            span_x = tile_size[0] * r_units
            nx = draw(st.floats(1.3, 40.0))
            aspect = draw(st.sampled_from([1.0, 1.0, 0.5, 0.75, 1.6, 2.0]))
            w = min(nx * span_x, max_units)
            h = min(w * aspect, max_units * 1.5)
            if srs == 'EPSG:4326':
                # degrees of latitude are longer on the ground than degrees of longitude
                h = min(h, 2.7)
            fx = draw(st.floats(0.1, 0.9))
            fy = draw(st.floats(0.1, 0.9))
            digits = draw(st.sampled_from([3, 5, 9, 15]))
            x0 = _round_sig(px - fx * w, max(digits, 6))
            y0 = _round_sig(py - fy * h, max(digits, 6))
            w = _round_sig(w, digits)
            h = _round_sig(h, digits)
            g['bbox'] = [x0, y0, x0 + w, y0 + h]
            first = max(w / tile_size[0], h / tile_size[1])
        extra = draw(st.integers(0, 3))
        if mode in ('f2', 'sqrt2'):
            f = 2.0 if mode == 'f2' else math.sqrt(2)
            z = int(round(math.log(max(first / r_units, 1.0)) / math.log(f)))
            if is_regional and mode == 'f2' and z == 0 and first > r_units * 1.2:
                z = 1
            g['num_levels'] = max(z + 1 + extra, 2)
        elif mode == 'min_res':
            f = draw(st.sampled_from([2.0, 'sqrt2', 1.5, 3.0]))
            fv = math.sqrt(2) if f == 'sqrt2' else f
            start = draw(st.sampled_from([1.0, 0.8, 0.5, 1.0]))
            g['min_res'] = _round_sig(first * start, 12)
            g['res_factor'] = f
            z = int(round(math.log(max(g['min_res'] / r_units, 1.0)) / math.log(fv)))
            g['num_levels'] = max(z + 1 + extra, 2)
        else:
            # custom list around the focus resolution, incl. levels closer together than the stretch factor
            above = draw(st.lists(st.sampled_from([2.0, 1.5, 3.0, 1.1, 2.5, 4.0, 1.3]), min_size=0, max_size=4))
            below = draw(st.lists(st.sampled_from([2.0, 1.5, 3.0, 1.1, 2.5, 1.3]), min_size=0, max_size=3))
            nice = draw(st.booleans())
            r = _round_sig(r_units, 3) if nice else r_units
            res = [r]
            v = r
            for q in above:
                v = v * q
                res.insert(0, _round_sig(v, 4) if nice else v)
            v = r
            for q in below:
                v = v / q
                res.append(_round_sig(v, 4) if nice else v)
            if len(set(res)) < 2:
                # a grid with a single level makes the TMS service fail at load time (res[0]/res[1])
                res.append(_round_sig(res[-1] / 2.0, 4) if nice else res[-1] / 2.0)
            res = sorted(set(res), reverse=True)
            g['res'] = res
            z = res.index(r)
        res = grid_resolutions(g)
        z = min(z, len(res) - 1)
        return g, z
    return build()


def _backend(draw):
    st = _st()
    kind = draw(st.sampled_from(['file', 'file', 'sqlite', 'mbtiles', 'compact1', 'compact2']))
    if kind == 'file':
        return {'type': 'file', 'directory_layout': draw(st.sampled_from(FILE_LAYOUTS))}
    if kind == 'sqlite':
        return {'type': 'sqlite'}
    if kind == 'mbtiles':
        return {'type': 'mbtiles'}
    return {'type': 'compact', 'version': 1 if kind == 'compact1' else 2}


def config_specs(kinds=('wms', 'wms', 'tile'), cascade=None, direct=None):
    """Strategy for complete specs: one upstream source (WMS 1.1.1/1.3.0 or tiles), cache c1 on grid g1,
    optionally cache c2 (grid g2, other SRS/origin/resolutions) cascading on c1, optionally a direct
    (uncached) layer on the WMS source.  Layers: l1 -> c1, l2 -> c2, ld -> source."""
    st = _st()

    @st.composite
    def build(draw):
        scale = draw(st.sampled_from(['fine', 'fine', 'fine', 'coarse']))
        # all SRS of one deployment come from one datum-consistent family (see DATUM_FAMILIES)
        family = 'wgs84+etrs89' if scale == 'coarse' else draw(st.sampled_from(
            ['wgs84+etrs89', 'wgs84+etrs89', 'wgs84+dhdn', 'etrs89+dhdn']))
        pool = list(DATUM_FAMILIES[family])
        if scale == 'coarse':
            pool = [s for s in pool if s in GLOBAL_BBOX]
        g1_srs = draw(st.sampled_from(pool))
        with_cascade = cascade if cascade is not None else draw(st.booleans())
        g2_srs = draw(st.sampled_from(pool)) if with_cascade else None
        if scale == 'fine':
            point = [draw(st.floats(HOME[0] + 1.5, HOME[2] - 1.5)), draw(st.floats(HOME[1] + 1.5, HOME[3] - 2.0))]
            res_m = math.exp(draw(st.floats(math.log(0.5), math.log(600.0))))
        else:
            point = [draw(st.floats(-160.0, 160.0)), draw(st.floats(-65.0, 65.0))]
            res_m = math.exp(draw(st.floats(math.log(600.0), math.log(40000.0))))
        regional1 = None if scale == 'fine' else False
        g1, z1 = draw(grid_specs(g1_srs, res_m, point, regional=regional1))
        grids = {'g1': g1}
        r1 = grid_resolutions(g1)[z1]
        focus = {'grid': 'g1', 'level': z1, 'res': r1, 'point': point, 'scale': scale,
                 'res_m': r1 * metres_per_unit(g1_srs, point)}

        kind = draw(st.sampled_from(list(kinds)))
        transparent = draw(st.sampled_from([True, True, False]))
        src = {'name': 's0', 'type': kind, 'transparent': transparent, 'coverage': None}
        # coverage: a rectangle overlapping the focus area, in the grid SRS or another SRS
        if draw(st.integers(0, 2)) == 0:
            cov_srs = g1_srs if draw(st.integers(0, 2)) else draw(st.sampled_from(pool))
            px, py = from_lonlat(point[0], point[1], cov_srs)
            mpu = metres_per_unit(cov_srs, point)
            half = focus['res_m'] / mpu * draw(st.floats(60.0, 600.0))
            half_y = half * draw(st.sampled_from([1.0, 0.6, 1.5]))
            ox = draw(st.floats(-0.8, 0.8)) * half
            oy = draw(st.floats(-0.8, 0.8)) * half_y
            digits = draw(st.sampled_from([7, 10, 15]))
            cb = [_round_sig(px + ox - half, digits), _round_sig(py + oy - half_y, digits),
                  _round_sig(px + ox + half, digits), _round_sig(py + oy + half_y, digits)]
            if cov_srs in GLOBAL_BBOX:
                # a coverage must lie inside the domain of its SRS (no x beyond the date line, no |lat| > 85/90)
                wb = GLOBAL_BBOX[cov_srs]
                cb = [max(cb[0], wb[0]), max(cb[1], wb[1]), min(cb[2], wb[2]), min(cb[3], wb[3])]
            src['coverage'] = {'bbox': cb, 'srs': cov_srs}
        if kind == 'wms':
            src['host'] = WMS_HOST
            src['version'] = draw(st.sampled_from(['1.1.1', '1.3.0']))
            src['featureinfo'] = True
            how = draw(st.sampled_from(['none', 'none', 'with-grid', 'without-grid', 'without-grid']))
            if how == 'none':
                src['supported_srs'] = None
            else:
                subset = draw(st.lists(st.sampled_from(pool), min_size=1, max_size=3, unique=True))
                same = [s for s in subset if ground._crs_code(s) == ground._crs_code(g1_srs)]
                if how == 'with-grid' and not same:
                    subset.append(g1_srs)
                if how == 'without-grid':
                    subset = [s for s in subset if ground._crs_code(s) != ground._crs_code(g1_srs)]
                    if not subset:
                        subset = [s for s in pool if ground._crs_code(s) != ground._crs_code(g1_srs)][:1]
                src['supported_srs'] = subset
        else:
            src['host'] = TILE_HOST
            src['kind'] = draw(st.sampled_from(TILE_KINDS))
            src['grid'] = 'g1'
            square = (g1['bbox'][2] - g1['bbox'][0]) == (g1['bbox'][3] - g1['bbox'][1])
            if g1['mode'] == 'f2' and square and g1['tile_size'][0] == g1['tile_size'][1] and draw(st.booleans()):
                # the source numbers the same tiles from the opposite corner
                gs = dict(g1)
                gs['origin'] = 'ul' if g1['origin'] in ('ll', 'sw') else 'll'
                grids['gs'] = gs
                src['grid'] = 'gs'
            if src['kind'] == 'quadkey':
                # quadkeys only address pyramids that start with one tile and double per level
                sizes = grid_sizes(g1)
                ok = all(nx <= 2 ** i and ny <= 2 ** i for i, (nx, ny) in enumerate(sizes))
                if not ok:
                    src['kind'] = 'tms'
            if src['kind'] == 'tc' and len(grid_resolutions(g1)) > 99:
                src['kind'] = 'xyz'

        meta = draw(st.sampled_from([[1, 1], [2, 2], [3, 3], [2, 1], [1, 3], [3, 2]]))
        c1 = {'name': 'c1', 'grid': 'g1', 'sources': ['s0'], 'meta_size': meta,
              'meta_buffer': draw(st.sampled_from([0, 7, 40])), 'backend': _backend(draw),
              # minimize_meta_requests asks the source for arbitrary rectangles: only for sources that can do that
              'minimize_meta_requests': draw(st.integers(0, 3)) == 0 and kind == 'wms',
              'bulk_meta_tiles': kind == 'tile' and draw(st.booleans())}
        caches = [c1]
        layers = [{'name': 'l1', 'sources': ['c1']}]
        if with_cascade:
            factor = draw(st.sampled_from([1.0, 1.0, 0.7, 1.4, 0.55, 1.8]))
            same_grid_family = draw(st.integers(0, 4)) == 0
            if same_grid_family:
                # same SRS and resolutions, other origin / tile size: aligned pixels, other tiling
                g2 = dict(g1)
                g2['origin'] = 'ul' if g1['origin'] in ('ll', 'sw') else 'll'
                if draw(st.booleans()):
                    g2['tile_size'] = draw(st.sampled_from([[64, 64], [128, 128], [80, 48]]))
                    g2['mode'] = 'custom'
                    g2['res'] = grid_resolutions(g1)
                z2 = z1
            else:
                regional2 = None if scale == 'fine' else False
                g2, z2 = draw(grid_specs(g2_srs, focus['res_m'] * factor, point, regional=regional2))
            grids['g2'] = g2
            c2 = {'name': 'c2', 'grid': 'g2', 'sources': ['c1'],
                  'meta_size': draw(st.sampled_from([[1, 1], [2, 2], [3, 1]])),
                  'meta_buffer': draw(st.sampled_from([0, 7, 40])), 'backend': _backend(draw),
                  'minimize_meta_requests': False, 'bulk_meta_tiles': False}
            caches.append(c2)
            layers.append({'name': 'l2', 'sources': ['c2']})
            focus['level2'] = z2
        with_direct = kind == 'wms' and (direct if direct is not None else draw(st.integers(0, 2)) == 0)
        if with_direct:
            layers.append({'name': 'ld', 'sources': ['s0']})
        wms_srs = list(pool)
        spec = {'grids': grids, 'source': src, 'caches': caches, 'layers': layers, 'wms_srs': wms_srs,
                'resampling': draw(st.sampled_from(['bicubic', 'bicubic', 'bilinear', 'nearest'])),
                # never the default 255-colour PNG quantisation: its colour error is not bounded by any useful eps
                # (28 levels seen on a gradient-rich 96x160 tile), a pixel oracle cannot be sound there
                'paletted': False, 'focus': focus, 'family': family}
        return spec
    return build()
