import importlib
import os
import pkgutil
import sys

from . import core


def find_module(pid):
    from . import props
    for m in pkgutil.iter_modules(props.__path__):
        if m.name.lower().startswith(pid.lower() + '_') or m.name.lower() == pid.lower():
            return importlib.import_module('vcheck.props.' + m.name)
    raise SystemExit('no check module for %s' % pid)


def main():
    if len(sys.argv) < 2:
        raise SystemExit('usage: python -m vcheck <PROPERTY-ID> [--tier quick|thorough] [--replay FILE]')
    pid = sys.argv[1]
    try:
        module = find_module(pid)
    except SystemExit:
        raise
    except Exception:
        import traceback
        print('HARNESS-ERROR property=%s\n%s' % (pid, traceback.format_exc()))
        sys.exit(2)
    rc = core.main_for(module, sys.argv[2:])
    sys.stdout.flush()
    # worker threads of the code under test must never keep a finished check alive
    os._exit(rc)


if __name__ == '__main__':
    main()
