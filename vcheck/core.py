"""Shared plumbing: statistics, violations, hypothesis driver, process sharding, evidence, exit codes.

Exit codes of `python -m vcheck <ID>`:
  0  property held on everything explored (known findings are printed as KNOWN-FINDING lines)
  1  at least one violation that known_findings.json does not list (VIOLATION line printed)
  2  harness error (never reported as a violation)
"""
import collections
import hashlib
import json
import multiprocessing
import os
import sys
import time
import traceback

from . import VERIF_DIR

MAX_SAMPLES = 12


def jsonable(obj):
    """Best-effort conversion to something json.dump accepts (used for cases and samples)."""
    if isinstance(obj, (str, int, bool)) or obj is None:
        return obj
    if isinstance(obj, float):
        if obj != obj or obj in (float('inf'), float('-inf')):
            return repr(obj)
        return obj
    if isinstance(obj, bytes):
        if len(obj) > 64:
            return {'__bytes_len__': len(obj), 'sha1': hashlib.sha1(obj).hexdigest()[:12]}
        return {'__bytes__': obj.hex()}
    if isinstance(obj, dict):
        return {str(k): jsonable(v) for k, v in obj.items()}
    if isinstance(obj, (list, tuple, set, frozenset)):
        return [jsonable(v) for v in obj]
    try:
        import numpy as np
        if isinstance(obj, np.generic):
            return jsonable(obj.item())
        if isinstance(obj, np.ndarray):
            return jsonable(obj.tolist())
    except ImportError:
        pass
    return repr(obj)


def case_hash(obj):
    data = json.dumps(jsonable(obj), sort_keys=True, default=repr).encode()
    return hashlib.blake2b(data, digest_size=8).hexdigest()


class Violation(object):
    def __init__(self, signature, message, case):
        self.signature = signature  # root-cause key, e.g. 'C05/sqlite-level/load_tiles/level0'
        self.message = message
        self.case = jsonable(case)  # replayable description

    def as_dict(self):
        return {'signature': self.signature, 'message': self.message, 'case': self.case}

    def __repr__(self):
        return 'Violation(%s: %s)' % (self.signature, self.message)


class Stats(object):
    """Counters of one (shard of a) run.  Picklable; merged across worker processes."""

    def __init__(self):
        self.evaluations = 0
        self.nontrivial = set()
        self.classes = collections.Counter()
        self.samples = []
        self.excluded = collections.Counter()
        self.violations = []
        self.notes = collections.Counter()
        self.inconclusive = collections.Counter()
        self.extra = {}

    def case(self, key=None, nontrivial=False, classes=(), sample=None):
        """Record one evaluated case. `key` is the canonical description used for distinctness."""
        self.evaluations += 1
        if nontrivial:
            self.nontrivial.add(case_hash(key if key is not None else self.evaluations))
        for c in classes:
            self.classes[c] += 1
        if sample is not None and len(self.samples) < MAX_SAMPLES:
            # prefer non-trivial samples, keep a few
            if nontrivial or len(self.samples) < 2:
                self.samples.append(jsonable(sample))

    def violation(self, signature, message, case):
        v = Violation(signature, message, case)
        self.violations.append(v)
        return v

    def merge(self, other):
        self.evaluations += other.evaluations
        self.nontrivial |= other.nontrivial
        self.classes.update(other.classes)
        self.excluded.update(other.excluded)
        self.notes.update(other.notes)
        self.inconclusive.update(other.inconclusive)
        for s in other.samples:
            if len(self.samples) < MAX_SAMPLES:
                self.samples.append(s)
        self.violations.extend(other.violations)
        for k, v in other.extra.items():
            if isinstance(v, (int, float)) and isinstance(self.extra.get(k), (int, float)):
                self.extra[k] += v
            elif isinstance(v, list) and isinstance(self.extra.get(k), list):
                self.extra[k] = (self.extra[k] + v)[:50]
            else:
                self.extra.setdefault(k, v)
        return self


class HarnessError(Exception):
    pass


class _Falsified(Exception):
    pass


def derive_seed(seed, *parts):
    h = hashlib.blake2b(repr((seed,) + parts).encode(), digest_size=6).hexdigest()
    return int(h, 16)


def hyp_search(strategy, check, stats, max_examples, seed, max_signatures=4, shrink=True,
               stateful_step_count=None):
    """Drive `check(case, stats)` with cases drawn from a Hypothesis strategy.

    `check` returns None or a Violation (it must not append it to stats itself).  After a failure
    is shrunk, the search is repeated with that root-cause signature ignored, so one shallow defect
    does not hide others (bounded by max_signatures).
    """
    import hypothesis
    from hypothesis import given, settings, HealthCheck, Phase

    ignored = set()
    for _ in range(max_signatures):
        holder = {}

        phases = [Phase.generate] + ([Phase.shrink] if shrink else [])

        @hypothesis.seed(seed)
        @settings(max_examples=max_examples, database=None, deadline=None, derandomize=False,
                  report_multiple_bugs=False, suppress_health_check=list(HealthCheck),
                  phases=phases, print_blob=False, verbosity=hypothesis.Verbosity.quiet)
        @given(strategy)
        def _t(case):
            v = check(case, stats)
            if v is not None and v.signature not in ignored:
                holder['v'] = v
                raise _Falsified()

        try:
            _t()
        except _Falsified:
            v = holder['v']
            stats.violations.append(v)
            ignored.add(v.signature)
            continue
        except hypothesis.errors.Flaky as e:  # pragma: no cover - harness problem, not a verdict
            v = holder.get('v')
            if v is not None:
                stats.violations.append(v)
                ignored.add(v.signature)
                stats.notes['flaky-shrink'] += 1
                continue
            raise HarnessError('flaky check: %r' % (e,))
        break
    return stats


def run_machine(machine_cls, stats, max_examples, seed, step_count=30, max_signatures=3):
    """Run a Hypothesis RuleBasedStateMachine class.  The machine reports violations by raising
    MachineViolation(Violation)."""
    import hypothesis
    from hypothesis import settings, HealthCheck, Phase
    from hypothesis.stateful import run_state_machine_as_test

    ignored = set()
    machine_cls._ignored_signatures = ignored
    machine_cls._stats = stats
    for _ in range(max_signatures):
        try:
            run_state_machine_as_test(
                hypothesis.seed(seed)(machine_cls),
                settings=settings(max_examples=max_examples, stateful_step_count=step_count,
                                  database=None, deadline=None, derandomize=False,
                                  report_multiple_bugs=False,
                                  suppress_health_check=list(HealthCheck),
                                  phases=[Phase.generate, Phase.shrink], print_blob=False,
                                  verbosity=hypothesis.Verbosity.quiet))
        except MachineViolation as e:
            stats.violations.append(e.violation)
            ignored.add(e.violation.signature)
            continue
        break
    return stats


class MachineViolation(Exception):
    def __init__(self, violation):
        Exception.__init__(self, repr(violation))
        self.violation = violation


def _shard_entry(args):
    fn, shard, nshards, seed, tier, extra = args
    try:
        st = fn(shard, nshards, derive_seed(seed, fn.__name__, shard), tier, *extra)
        return ('ok', st)
    except BaseException:
        return ('err', 'shard %d of %s:\n%s' % (shard, fn.__name__, traceback.format_exc()))


def _child_main(conn, job):
    """Body of one forked worker: run the shard, send the result, leave without running exit handlers
    (threads of the code under test must never keep a finished worker alive)."""
    try:
        res = _shard_entry(job)
        try:
            conn.send(res)
        except BaseException:
            conn.send(('err', 'shard %d of %s: result could not be sent:\n%s' % (job[1], job[0].__name__, traceback.format_exc())))
        conn.close()
    finally:
        sys.stdout.flush()
        sys.stderr.flush()
        os._exit(0)


def parallel(fn, nshards, seed, tier, extra=(), procs=None):
    """Run fn(shard, nshards, seed, tier, *extra) -> Stats in forked processes, one fresh process per
    shard, at most `procs` at a time.  A worker that dies without delivering a result (killed, crashed
    interpreter) is a HarnessError, never a hang."""
    from multiprocessing import connection
    procs = procs or int(os.environ.get('VERIF_PROCS', '16'))
    jobs = [(fn, i, nshards, seed, tier, tuple(extra)) for i in range(nshards)]
    total = Stats()
    if procs <= 1 or nshards <= 1:
        results = [_shard_entry(j) for j in jobs]
    else:
        ctx = multiprocessing.get_context('fork')
        results = [None] * len(jobs)
        pending = list(enumerate(jobs))
        running = {}
        try:
            while pending or running:
                while pending and len(running) < procs:
                    idx, job = pending.pop(0)
                    recv_end, send_end = ctx.Pipe(duplex=False)
                    sys.stdout.flush()
                    sys.stderr.flush()
                    proc = ctx.Process(target=_child_main, args=(send_end, job), daemon=True)
                    proc.start()
                    send_end.close()
                    running[recv_end] = (idx, proc)
                for conn in connection.wait(list(running), timeout=5.0):
                    idx, proc = running.pop(conn)
                    try:
                        results[idx] = conn.recv()
                    except (EOFError, OSError):
                        proc.join(10)
                        results[idx] = ('err', 'worker for shard %d of %s died without a result (exit code %r)'
                                        % (idx, fn.__name__, proc.exitcode))
                    conn.close()
                    proc.join(30)
                    if proc.is_alive():
                        proc.kill()
        finally:
            for conn, (idx, proc) in running.items():
                if proc.is_alive():
                    proc.kill()
    for kind, res in results:
        if kind == 'err':
            raise HarnessError(res)
        total.merge(res)
    return total


# ---------------------------------------------------------------------------------------------

def out_dir(sub):
    """Evidence and found-replay files go to /verif, except in sensitivity runs against a mutated
    scratch copy (VERIF_OUT set), which must not overwrite the evidence of the real tree."""
    base = os.environ.get('VERIF_OUT') or VERIF_DIR
    d = os.path.join(base, sub)
    os.makedirs(d, exist_ok=True)
    return d


def load_known_findings(pid):
    path = os.path.join(VERIF_DIR, 'known_findings.json')
    with open(path) as f:
        data = json.load(f)
    findings = list(data.get('findings', []))
    extra = os.path.join(VERIF_DIR, 'known_findings.d')
    if os.path.isdir(extra):
        for name in sorted(os.listdir(extra)):
            if name.endswith('.json'):
                with open(os.path.join(extra, name)) as f:
                    findings.extend(json.load(f).get('findings', []))
    return [f for f in findings if f.get('property') == pid]


def open_signatures(pid):
    """Signatures of the open (unrepaired) known findings of a property.  Generators use this to
    exclude exactly those constructs by construction (and count what they excluded) so that the
    search continues behind a known defect; once a finding is marked fixed the exclusion vanishes."""
    return set(f['signature'] for f in load_known_findings(pid) if f.get('status') == 'open')


def write_evidence(pid, tier, seed, level, stats, rule, assumptions, wall_s, n_new, exhaustive=None,
                   known_lines=(), extra=None):
    cov = {
        'evaluations': int(stats.evaluations),
        'distinct_nontrivial': len(stats.nontrivial),
        'rule': rule,
        'samples': stats.samples[:MAX_SAMPLES],
        'classes': dict(sorted(stats.classes.items())),
        'excluded_by_construction': dict(stats.excluded),
        'notes': dict(stats.notes),
        'inconclusive': dict(stats.inconclusive),
        'known_findings_reproduced': list(known_lines),
        'violation_signatures': sorted(set(v.signature for v in stats.violations)),
    }
    if exhaustive is not None:
        cov['exhaustive'] = bool(exhaustive)
    cov.update(jsonable(stats.extra))
    if extra:
        cov.update(jsonable(extra))
    ev = {
        'property_id': pid, 'tier': tier, 'seed': int(seed), 'level': level, 'coverage': cov,
        'assumptions': list(assumptions), 'wall_s': round(wall_s, 2), 'violations': int(n_new),
    }
    path = os.path.join(out_dir('evidence'), '%s.json' % pid)
    tmp = path + '.tmp'
    with open(tmp, 'w') as f:
        json.dump(ev, f, indent=1, sort_keys=True)
    os.replace(tmp, path)
    return path


def regression_cases(pid):
    d = os.path.join(VERIF_DIR, 'replays', pid)
    if not os.path.isdir(d):
        return []
    out = []
    for name in sorted(os.listdir(d)):
        if name.endswith('.json'):
            with open(os.path.join(d, name)) as f:
                out.append((os.path.join(d, name), json.load(f)))
    return out


def main_for(module, argv=None):
    import argparse
    pid = module.PROPERTY
    ap = argparse.ArgumentParser(prog='vcheck ' + pid)
    ap.add_argument('--tier', default=os.environ.get('VERIF_TIER', 'quick'), choices=['quick', 'thorough'])
    ap.add_argument('--replay', default=None)
    ap.add_argument('--seed', type=int, default=int(os.environ.get('VERIF_SEED', '1') or 1))
    args = ap.parse_args(argv)
    t0 = time.time()

    known = load_known_findings(pid)
    open_sigs = {f['signature']: f for f in known if f.get('status') == 'open'}

    try:
        if args.replay:
            with open(args.replay) as f:
                rec = json.load(f)
            st = Stats()
            vs = module.replay(rec.get('case', rec), st) or []
            new = [v for v in vs if v.signature not in open_sigs]
            for v in vs:
                if v.signature in open_sigs:
                    print('KNOWN-FINDING: property=%s %s' % (pid, open_sigs[v.signature]['what']))
            for v in new:
                print('replayed: %s: %s' % (v.signature, v.message))
                print('VIOLATION property=%s replay=%s' % (pid, args.replay))
            if not vs:
                print('replay: no violation')
            return 1 if new else 0

        stats = Stats()
        # 1. committed regression cases (shrunk earlier failures, hand-kept cases, finding demos)
        n_reg = 0
        for path, rec in regression_cases(pid):
            st = Stats()
            vs = module.replay(rec.get('case', rec), st) or []
            n_reg += 1
            stats.merge(st)
            for v in vs:
                v.case = rec.get('case', rec)
                v.regression_path = path
                stats.violations.append(v)
        stats.notes['regression_cases_replayed'] = n_reg
        # 2. generated search
        module.run(args.tier, args.seed, stats)
    except HarnessError as e:
        print('HARNESS-ERROR property=%s\n%s' % (pid, e))
        return 2
    except Exception:
        print('HARNESS-ERROR property=%s\n%s' % (pid, traceback.format_exc()))
        return 2

    # classify violations
    by_sig = collections.OrderedDict()
    for v in stats.violations:
        by_sig.setdefault(v.signature, v)
    known_lines = []
    new = []
    for sig, v in by_sig.items():
        if sig in open_sigs:
            line = 'KNOWN-FINDING: property=%s %s' % (pid, open_sigs[sig]['what'])
            print(line)
            known_lines.append(sig)
        else:
            new.append(v)
    for v in new:
        path = getattr(v, 'regression_path', None)
        if path is None:
            d = out_dir(os.path.join('replays', pid, 'found'))
            path = os.path.join(d, '%s.json' % case_hash(v.signature))
            with open(path, 'w') as f:
                json.dump({'property': pid, 'signature': v.signature, 'message': v.message,
                           'case': v.case}, f, indent=1, sort_keys=True)
        print('violation: %s: %s' % (v.signature, v.message))
        print('VIOLATION property=%s replay=%s' % (pid, path))
    wall = time.time() - t0
    write_evidence(pid, args.tier, args.seed, module.LEVEL, stats, module.RULE,
                   getattr(module, 'ASSUMPTIONS', []), wall, len(new),
                   exhaustive=stats.extra.pop('exhaustive', None), known_lines=known_lines)
    print('%s tier=%s seed=%d evaluations=%d distinct_nontrivial=%d violations=%d known=%d wall=%.1fs' % (
        pid, args.tier, args.seed, stats.evaluations, len(stats.nontrivial), len(new),
        len(known_lines), wall))
    if len(stats.nontrivial) < 2 and not new:
        print('HARNESS-ERROR property=%s: fewer than 2 non-trivial cases explored' % pid)
        return 2
    return 1 if new else 0
