"""vcheck - property-based testing / fuzzing machinery for the MapProxy properties C01..C20.

The repository under test is /repo (or $VERIF_REPO, used only by the sensitivity protocol to point a
check at a mutated scratch copy).  It is put first on sys.path so that `import mapproxy` always
resolves to that working tree.
"""
import os
import sys

REPO = os.environ.get('VERIF_REPO', '/repo')
if REPO not in sys.path[:1]:
    sys.path.insert(0, REPO)
os.environ.setdefault('TZ', 'UTC')

VERIF_DIR = os.path.dirname(os.path.dirname(os.path.abspath(__file__)))

import warnings
warnings.filterwarnings('ignore', category=DeprecationWarning)
warnings.filterwarnings('ignore', category=FutureWarning)
os.environ.setdefault('PYTHONWARNINGS', 'ignore::DeprecationWarning,ignore::FutureWarning')
