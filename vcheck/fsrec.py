"""fsrec - raw file-system operation recorder and crash-prefix re-materialiser.

While a `Recorder` is active, every *mutating* file-system operation of the current process that
touches a path under `root` is appended to `recorder.ops` in the order the kernel sees it:

* `builtins.open` / `io.open` (and therefore `os.fdopen`) for writing build the normal
  TextIOWrapper / BufferedWriter / BufferedRandom stack of CPython, but on top of a logging
  `io.FileIO` subclass, so `write` / `truncate` are seen *below* Python's buffering, exactly as the
  `write(2)` / `ftruncate(2)` calls the kernel gets (same sizes, same order, same offsets);
* `os.open` / `os.close` / `os.write` / `os.pwrite` / `os.ftruncate` on descriptors opened for writing;
* `os.rename/replace/unlink/remove/link/symlink/mkdir/rmdir/chmod/truncate/utime`; `shutil.rmtree`
  is executed as the individually logged unlink/rmdir calls it consists of.

Operations (plain tuples, `data` is bytes):
    ('open', hid, relpath, flags, mode)     ('write', hid, offset, data)   ('ftruncate', hid, size)
    ('close', hid)                          ('rename', src, dst)           ('unlink', path)
    ('link', src, dst)  ('symlink', target, path)  ('mkdir', path, mode)   ('rmdir', path)
    ('chmod', path, mode)  ('truncate', path, size)  ('utime', path, ns)
Only successful calls are logged (a failed syscall has no effect).  Read-only opens are not logged.

Crash model = process death: every completed syscall persists, nothing is reordered, all
descriptors are closed; the operation in flight is absent or - for `write` - applied up to a cut.
`materialise(ops, pre_dir, dst_dir, upto, torn)` copies the pre-state snapshot and replays
`ops[:upto]` with real syscalls (descriptors are kept open during the replay so that writes to
renamed / unlinked files behave as on the real file system), optionally followed by the first
`torn` bytes of the write `ops[upto]`.  `page_cuts(op)` gives the cuts at 4096-byte file-offset
boundaries (where the kernel checks for a fatal signal while copying a write), `byte_cuts(op)` all others.
"""
import builtins
import hashlib
import io
import os
import shutil
import stat

PAGE = 4096

_WRITE_FLAGS = os.O_WRONLY | os.O_RDWR | os.O_CREAT | os.O_TRUNC | os.O_APPEND

_real = {
    'open': builtins.open,
    'os.open': os.open, 'os.close': os.close, 'os.write': os.write, 'os.pwrite': os.pwrite,
    'os.ftruncate': os.ftruncate,
    'os.rename': os.rename, 'os.replace': os.replace, 'os.unlink': os.unlink, 'os.remove': os.remove,
    'os.link': os.link, 'os.symlink': os.symlink, 'os.mkdir': os.mkdir, 'os.rmdir': os.rmdir,
    'os.chmod': os.chmod, 'os.truncate': os.truncate, 'os.utime': os.utime,
    'shutil.rmtree': shutil.rmtree,
}


class RecorderError(Exception):
    """The recorder met something it cannot log faithfully (harness problem, never a verdict)."""


class _RecFileIO(io.FileIO):
    """FileIO whose write/truncate/close are logged.  Sits under the real Buffered* objects."""

    def __init__(self, rec, file, mode, closefd=True, opener=None):
        self._rec = None
        self._hid = None
        self._append = 'a' in mode
        if isinstance(file, int):
            io.FileIO.__init__(self, file, mode, closefd=closefd)
            self._hid = rec._fd2hid.get(file)
            self._owns = closefd
        else:
            flags = _mode_flags(mode)
            io.FileIO.__init__(self, file, mode, closefd=closefd, opener=opener)
            fd = self.fileno()
            if fd in rec._fd2hid:
                # a custom opener went through the wrapped os.open: already logged
                self._hid = rec._fd2hid[fd]
            else:
                rel = rec.rel(file)
                if rel is not None:
                    self._hid = rec._new_handle(fd)
                    rec.ops.append(('open', self._hid, rel, flags, 0o666))
                else:
                    rec.outside += 1
            self._owns = True
        self._rec = rec

    def write(self, b):
        rec = self._rec
        if rec is None or self._hid is None or not rec.active:
            return io.FileIO.write(self, b)
        fd = self.fileno()
        if self._append:
            off = os.fstat(fd).st_size
        else:
            off = os.lseek(fd, 0, os.SEEK_CUR)
        n = io.FileIO.write(self, b)
        if n:
            rec.ops.append(('write', self._hid, off, bytes(memoryview(b).cast('B')[:n])))
        return n

    def truncate(self, size=None):
        rec = self._rec
        n = io.FileIO.truncate(self, size)
        if rec is not None and self._hid is not None and rec.active:
            rec.ops.append(('ftruncate', self._hid, n))
        return n

    def close(self):
        rec = self._rec
        if not self.closed and rec is not None and self._hid is not None and self._owns:
            fd = self.fileno()
            if rec.active:
                rec.ops.append(('close', self._hid))
            if rec._fd2hid.get(fd) == self._hid:
                del rec._fd2hid[fd]
            self._hid = None
        return io.FileIO.close(self)


def _mode_flags(mode):
    plus = '+' in mode
    if 'x' in mode:
        f = os.O_EXCL | os.O_CREAT
    elif 'w' in mode:
        f = os.O_CREAT | os.O_TRUNC
    elif 'a' in mode:
        f = os.O_CREAT | os.O_APPEND
    else:
        f = 0
    if plus:
        f |= os.O_RDWR
    elif 'r' in mode and not ('w' in mode or 'a' in mode or 'x' in mode):
        f |= os.O_RDONLY
    else:
        f |= os.O_WRONLY
    return f | getattr(os, 'O_CLOEXEC', 0)


class Recorder(object):
    def __init__(self, root):
        self.root = os.path.abspath(root)
        self.ops = []
        self.outside = 0  # mutating operations on paths outside root (not logged)
        self.active = False
        self._fd2hid = {}
        self._next_hid = 0
        self._saved = None

    # ---------------------------------------------------------------------------------------
    def rel(self, path, dir_fd=None):
        if isinstance(path, int):
            raise RecorderError('fd-based path operation is not supported: %r' % (path,))
        path = os.fspath(path)
        if isinstance(path, bytes):
            path = os.fsdecode(path)
        if dir_fd is not None and not os.path.isabs(path):
            base = os.readlink('/proc/self/fd/%d' % dir_fd)
            path = os.path.join(base, path)
        p = os.path.abspath(path)
        if p == self.root:
            return '.'
        if p.startswith(self.root + os.sep):
            return p[len(self.root) + 1:]
        return None

    def _new_handle(self, fd):
        hid = self._next_hid
        self._next_hid += 1
        self._fd2hid[fd] = hid
        return hid

    # ---------------------------------------------------------------------------------------
    def _open(self, file, mode='r', buffering=-1, encoding=None, errors=None, newline=None,
              closefd=True, opener=None):
        real_open = _real['open']
        if not self.active or not isinstance(mode, str) or not any(c in mode for c in 'wax+'):
            return real_open(file, mode, buffering, encoding, errors, newline, closefd, opener)
        if isinstance(file, int):
            if file not in self._fd2hid:
                return real_open(file, mode, buffering, encoding, errors, newline, closefd, opener)
        elif self.rel(file) is None:
            self.outside += 1
            return real_open(file, mode, buffering, encoding, errors, newline, closefd, opener)
        # same construction as io.open (Modules/_io/_iomodule.c), with a logging raw layer
        modes = set(mode)
        if modes - set('axrwb+tU') or len(mode) > len(modes):
            raise ValueError('invalid mode: %r' % mode)
        creating, reading, writing, appending = 'x' in modes, 'r' in modes, 'w' in modes, 'a' in modes
        updating, text, binary = '+' in modes, 't' in modes, 'b' in modes
        if text and binary:
            raise ValueError("can't have text and binary mode at once")
        if creating + reading + writing + appending > 1:
            raise ValueError("can't have read/write/append mode at once")
        if not (creating or reading or writing or appending):
            raise ValueError('must have exactly one of read/write/append mode')
        if binary and (encoding is not None or errors is not None or newline is not None):
            raise ValueError("binary mode doesn't take an encoding/errors/newline argument")
        rawmode = (creating and 'x' or '') + (reading and 'r' or '') + (writing and 'w' or '') + \
            (appending and 'a' or '') + (updating and '+' or '')
        raw = _RecFileIO(self, file, rawmode, closefd, opener)
        result = raw
        try:
            line_buffering = False
            if buffering == 1 or buffering < 0 and raw.isatty():
                buffering = -1
                line_buffering = True
            if buffering < 0:
                buffering = getattr(raw, '_blksize', io.DEFAULT_BUFFER_SIZE)
            if buffering < 0:
                raise ValueError('invalid buffering size')
            if buffering == 0:
                if binary:
                    return result
                raise ValueError("can't have unbuffered text I/O")
            if updating:
                buf = io.BufferedRandom(raw, buffering)
            elif creating or writing or appending:
                buf = io.BufferedWriter(raw, buffering)
            else:
                buf = io.BufferedReader(raw, buffering)
            result = buf
            if binary:
                return result
            txt = io.TextIOWrapper(buf, io.text_encoding(encoding), errors, newline, line_buffering)
            result = txt
            txt.mode = mode
            return result
        except BaseException:
            result.close()
            raise

    def _os_open(self, path, flags, mode=0o777, *, dir_fd=None):
        fd = _real['os.open'](path, flags, mode, dir_fd=dir_fd)
        if self.active and flags & _WRITE_FLAGS:
            rel = self.rel(path, dir_fd)
            if rel is None:
                self.outside += 1
            else:
                hid = self._new_handle(fd)
                self.ops.append(('open', hid, rel, flags, mode))
        return fd

    def _os_close(self, fd):
        hid = self._fd2hid.pop(fd, None)
        r = _real['os.close'](fd)
        if hid is not None and self.active:
            self.ops.append(('close', hid))
        return r

    def _os_write(self, fd, data):
        hid = self._fd2hid.get(fd)
        if hid is None or not self.active:
            return _real['os.write'](fd, data)
        import fcntl
        if fcntl.fcntl(fd, fcntl.F_GETFL) & os.O_APPEND:
            off = os.fstat(fd).st_size
        else:
            off = os.lseek(fd, 0, os.SEEK_CUR)
        n = _real['os.write'](fd, data)
        if n:
            self.ops.append(('write', hid, off, bytes(memoryview(data).cast('B')[:n])))
        return n

    def _os_pwrite(self, fd, data, offset):
        hid = self._fd2hid.get(fd)
        n = _real['os.pwrite'](fd, data, offset)
        if hid is not None and self.active and n:
            self.ops.append(('write', hid, offset, bytes(memoryview(data).cast('B')[:n])))
        return n

    def _os_ftruncate(self, fd, length):
        hid = self._fd2hid.get(fd)
        r = _real['os.ftruncate'](fd, length)
        if hid is not None and self.active:
            self.ops.append(('ftruncate', hid, length))
        return r

    def _log_path_op(self, name, rels, *extra):
        if not self.active:
            return
        if any(r is None for r in rels):
            if all(r is None for r in rels):
                self.outside += 1
                return
            raise RecorderError('%s crosses the recorded root: %r' % (name, rels))
        self.ops.append((name,) + tuple(rels) + tuple(extra))

    def _os_rename(self, src, dst, *, src_dir_fd=None, dst_dir_fd=None):
        rels = (self.rel(src, src_dir_fd), self.rel(dst, dst_dir_fd)) if self.active else ()
        r = _real['os.rename'](src, dst, src_dir_fd=src_dir_fd, dst_dir_fd=dst_dir_fd)
        self._log_path_op('rename', rels)
        return r

    def _os_replace(self, src, dst, *, src_dir_fd=None, dst_dir_fd=None):
        rels = (self.rel(src, src_dir_fd), self.rel(dst, dst_dir_fd)) if self.active else ()
        r = _real['os.replace'](src, dst, src_dir_fd=src_dir_fd, dst_dir_fd=dst_dir_fd)
        self._log_path_op('rename', rels)
        return r

    def _os_unlink(self, path, *, dir_fd=None):
        rels = (self.rel(path, dir_fd),) if self.active else ()
        r = _real['os.unlink'](path, dir_fd=dir_fd)
        self._log_path_op('unlink', rels)
        return r

    def _os_link(self, src, dst, *, src_dir_fd=None, dst_dir_fd=None, follow_symlinks=True):
        rels = (self.rel(src, src_dir_fd), self.rel(dst, dst_dir_fd)) if self.active else ()
        r = _real['os.link'](src, dst, src_dir_fd=src_dir_fd, dst_dir_fd=dst_dir_fd,
                             follow_symlinks=follow_symlinks)
        self._log_path_op('link', rels, bool(follow_symlinks))
        return r

    def _os_symlink(self, src, dst, target_is_directory=False, *, dir_fd=None):
        rels = (self.rel(dst, dir_fd),) if self.active else ()
        r = _real['os.symlink'](src, dst, target_is_directory, dir_fd=dir_fd)
        if self.active:
            target = os.fsdecode(os.fspath(src))
            if os.path.isabs(target):
                trel = self.rel(target)
                target = ('abs', trel) if trel is not None else ('ext', target)
            else:
                target = ('rel', target)
            if rels[0] is None:
                self.outside += 1
            else:
                self.ops.append(('symlink', target, rels[0]))
        return r

    def _os_mkdir(self, path, mode=0o777, *, dir_fd=None):
        rels = (self.rel(path, dir_fd),) if self.active else ()
        r = _real['os.mkdir'](path, mode, dir_fd=dir_fd)
        self._log_path_op('mkdir', rels, mode)
        return r

    def _os_rmdir(self, path, *, dir_fd=None):
        rels = (self.rel(path, dir_fd),) if self.active else ()
        r = _real['os.rmdir'](path, dir_fd=dir_fd)
        self._log_path_op('rmdir', rels)
        return r

    def _os_chmod(self, path, mode, *, dir_fd=None, follow_symlinks=True):
        if isinstance(path, int):
            raise RecorderError('fchmod-style call is not supported')
        rels = (self.rel(path, dir_fd),) if self.active else ()
        r = _real['os.chmod'](path, mode, dir_fd=dir_fd, follow_symlinks=follow_symlinks)
        self._log_path_op('chmod', rels, mode, bool(follow_symlinks))
        return r

    def _os_truncate(self, path, length):
        if isinstance(path, int):
            return self._os_ftruncate(path, length)
        rels = (self.rel(path),) if self.active else ()
        r = _real['os.truncate'](path, length)
        self._log_path_op('truncate', rels, length)
        return r

    def _os_utime(self, path, times=None, *, ns=None, dir_fd=None, follow_symlinks=True):
        if isinstance(path, int):
            raise RecorderError('futimes-style call is not supported')
        rels = (self.rel(path, dir_fd),) if self.active else ()
        kw = {}
        if ns is not None:
            kw['ns'] = ns
        r = _real['os.utime'](path, times, dir_fd=dir_fd, follow_symlinks=follow_symlinks, **kw)
        if self.active and rels[0] is not None:
            st = os.stat(path, dir_fd=dir_fd, follow_symlinks=follow_symlinks)
            self.ops.append(('utime', rels[0], (st.st_atime_ns, st.st_mtime_ns), bool(follow_symlinks)))
        elif self.active:
            self.outside += 1
        return r

    def _rmtree(self, path, ignore_errors=False, onerror=None, *, onexc=None, dir_fd=None):
        """shutil.rmtree as the sequence of unlink/rmdir calls it is (each one logged; a crash can
        fall between any two of them)."""
        if not self.active or dir_fd is not None or self.rel(path) is None:
            if self.active:
                self.outside += 1
            return _real['shutil.rmtree'](path, ignore_errors, onerror, onexc=onexc, dir_fd=dir_fd)
        try:
            if os.path.islink(path):
                raise OSError('Cannot call rmtree on a symbolic link')
            for dirpath, dirnames, filenames in os.walk(path, topdown=False):
                for f in sorted(filenames):
                    os.unlink(os.path.join(dirpath, f))
                for d in sorted(dirnames):
                    p = os.path.join(dirpath, d)
                    if os.path.islink(p):
                        os.unlink(p)
                    else:
                        os.rmdir(p)
            os.rmdir(path)
        except OSError:
            if not ignore_errors:
                raise

    # ---------------------------------------------------------------------------------------
    def __enter__(self):
        if self._saved is not None:
            raise RecorderError('recorder is not re-entrant')
        patches = [
            (builtins, 'open', self._open), (io, 'open', self._open),
            (os, 'open', self._os_open), (os, 'close', self._os_close), (os, 'write', self._os_write),
            (os, 'pwrite', self._os_pwrite), (os, 'ftruncate', self._os_ftruncate),
            (os, 'rename', self._os_rename), (os, 'replace', self._os_replace),
            (os, 'unlink', self._os_unlink), (os, 'remove', self._os_unlink),
            (os, 'link', self._os_link), (os, 'symlink', self._os_symlink),
            (os, 'mkdir', self._os_mkdir), (os, 'rmdir', self._os_rmdir), (os, 'chmod', self._os_chmod),
            (os, 'truncate', self._os_truncate), (os, 'utime', self._os_utime),
            (shutil, 'rmtree', self._rmtree),
        ]
        # the zero-copy fast paths of shutil.copyfile bypass write(2)
        for name in ('_USE_CP_SENDFILE', '_USE_CP_COPY_FILE_RANGE', '_HAS_FCOPYFILE'):
            if hasattr(shutil, name):
                patches.append((shutil, name, False))
        self._saved = []
        for obj, name, new in patches:
            self._saved.append((obj, name, getattr(obj, name)))
            setattr(obj, name, new)
        self.active = True
        return self

    def __exit__(self, *exc):
        self.active = False
        for obj, name, old in reversed(self._saved or []):
            setattr(obj, name, old)
        self._saved = None
        return False

    def open_handles(self):
        """handle ids still open (should be empty after a completed store)"""
        return sorted(self._fd2hid.values())


# -------------------------------------------------------------------------------------------------
# snapshot / re-materialisation


def copy_tree(src, dst):
    """Copy a directory tree preserving symlinks, hard-link structure, modes and mtimes."""
    inodes = {}
    os.mkdir(dst)
    todo = [(src, dst)]
    dirs = []
    while todo:
        s, d = todo.pop()
        dirs.append((s, d))
        with os.scandir(s) as it:
            entries = sorted(it, key=lambda e: e.name)
        for e in entries:
            sp, dp = e.path, os.path.join(d, e.name)
            st = e.stat(follow_symlinks=False)
            if stat.S_ISLNK(st.st_mode):
                os.symlink(os.readlink(sp), dp)
            elif stat.S_ISDIR(st.st_mode):
                os.mkdir(dp)
                todo.append((sp, dp))
            elif stat.S_ISREG(st.st_mode):
                key = (st.st_dev, st.st_ino)
                if st.st_nlink > 1 and key in inodes:
                    os.link(inodes[key], dp)
                    continue
                inodes[key] = dp
                with _real['open'](sp, 'rb') as f:
                    data = f.read()
                fd = _real['os.open'](dp, os.O_WRONLY | os.O_CREAT | os.O_EXCL, 0o600)
                try:
                    _real['os.write'](fd, data) if data else None
                    if len(data) > 0 and os.fstat(fd).st_size != len(data):
                        raise RecorderError('short write while copying %s' % sp)
                finally:
                    _real['os.close'](fd)
                os.chmod(dp, stat.S_IMODE(st.st_mode))
                os.utime(dp, ns=(st.st_atime_ns, st.st_mtime_ns))
            else:
                raise RecorderError('unsupported file type in snapshot: %s' % sp)
    for s, d in dirs:
        st = os.stat(s)
        os.chmod(d, stat.S_IMODE(st.st_mode))
    return dst


def _apply(op, root, fds):
    name = op[0]

    def P(rel):
        return root if rel == '.' else os.path.join(root, rel)

    if name == 'open':
        _, hid, rel, flags, mode = op
        fds[hid] = _real['os.open'](P(rel), flags, mode)
    elif name == 'write':
        _, hid, off, data = op
        done = 0
        while done < len(data):
            done += _real['os.pwrite'](fds[hid], data[done:], off + done)
    elif name == 'ftruncate':
        _real['os.ftruncate'](fds[op[1]], op[2])
    elif name == 'close':
        _real['os.close'](fds.pop(op[1]))
    elif name == 'rename':
        _real['os.rename'](P(op[1]), P(op[2]))
    elif name == 'unlink':
        _real['os.unlink'](P(op[1]))
    elif name == 'link':
        _real['os.link'](P(op[1]), P(op[2]), follow_symlinks=op[3])
    elif name == 'symlink':
        kind, target = op[1]
        if kind == 'abs':
            target = P(target)
        _real['os.symlink'](target, P(op[2]))
    elif name == 'mkdir':
        _real['os.mkdir'](P(op[1]), op[2])
    elif name == 'rmdir':
        _real['os.rmdir'](P(op[1]))
    elif name == 'chmod':
        _real['os.chmod'](P(op[1]), op[2], follow_symlinks=op[3])
    elif name == 'truncate':
        _real['os.truncate'](P(op[1]), op[2])
    elif name == 'utime':
        _real['os.utime'](P(op[1]), ns=tuple(op[2]), follow_symlinks=op[3])
    else:
        raise RecorderError('unknown op %r' % (name,))


def materialise(ops, pre_dir, dst_dir, upto, torn=None):
    """Build the directory a process death leaves behind after `ops[:upto]` (plus the first `torn`
    bytes of the write `ops[upto]`) on top of the snapshot `pre_dir`.  `dst_dir` must not exist."""
    copy_tree(pre_dir, dst_dir)
    fds = {}
    try:
        for op in ops[:upto]:
            _apply(op, dst_dir, fds)
        if torn is not None:
            op = ops[upto]
            if op[0] != 'write' or not (0 < torn < len(op[3])):
                raise RecorderError('torn cut %r does not fit op %r' % (torn, op[:3]))
            _apply(('write', op[1], op[2], op[3][:torn]), dst_dir, fds)
    finally:
        for fd in fds.values():
            try:
                _real['os.close'](fd)
            except OSError:
                pass
    return dst_dir


def page_cuts(op, page=PAGE):
    """Cut lengths of a write op at `page`-byte file-offset boundaries strictly inside the write."""
    if op[0] != 'write':
        return []
    off, n = op[2], len(op[3])
    first = (off // page + 1) * page
    return [b - off for b in range(first, off + n, page)]


def byte_cuts(op, page=PAGE):
    """All other cut lengths (beyond the decided model)."""
    if op[0] != 'write':
        return []
    pc = set(page_cuts(op, page))
    return [c for c in range(1, len(op[3])) if c not in pc]


def tree_digest(root):
    """Canonical description of a tree (names, types, modes, contents, link targets, hard-link
    groups); two trees are equal as far as any reader can tell iff their digests are equal."""
    out = {}
    groups = {}
    for dirpath, dirnames, filenames in os.walk(root):
        dirnames.sort()
        for name in sorted(dirnames + filenames):
            p = os.path.join(dirpath, name)
            rel = os.path.relpath(p, root)
            st = os.lstat(p)
            if stat.S_ISLNK(st.st_mode):
                out[rel] = ('l', os.readlink(p))
            elif stat.S_ISDIR(st.st_mode):
                out[rel] = ('d', stat.S_IMODE(st.st_mode))
            else:
                with _real['open'](p, 'rb') as f:
                    h = hashlib.sha1(f.read()).hexdigest()
                g = None
                if st.st_nlink > 1:
                    g = groups.setdefault((st.st_dev, st.st_ino), rel)
                out[rel] = ('f', stat.S_IMODE(st.st_mode), st.st_size, h, g)
    return out


def describe(op):
    """short human-readable form of an op (for messages)"""
    if op[0] == 'write':
        return 'write(h%d, off=%d, len=%d)' % (op[1], op[2], len(op[3]))
    return '%s%r' % (op[0], tuple(op[1:]))


# -------------------------------------------------------------------------------------------------
# completeness cross-check against strace


STRACE_SYSCALLS = ('write,pwrite64,writev,openat,open,creat,rename,renameat,renameat2,unlink,unlinkat,link,linkat,'
                   'symlink,symlinkat,mkdir,mkdirat,rmdir,chmod,fchmod,fchmodat,truncate,ftruncate,utimensat,'
                   'sendfile,copy_file_range')


def normalise_ops(ops):
    """[(kind, relpath, nbytes)] of a recorded op list, comparable with `parse_strace`."""
    paths = {}
    out = []
    for op in ops:
        n = op[0]
        if n == 'open':
            paths[op[1]] = op[2]
            out.append(('open', op[2], None))
        elif n == 'write':
            out.append(('write', paths[op[1]], len(op[3])))
        elif n == 'ftruncate':
            out.append(('truncate', paths[op[1]], op[2]))
        elif n == 'close':
            pass
        elif n in ('rename', 'link'):
            # the descriptor keeps following the inode; strace -y prints the current name
            for h, p in list(paths.items()):
                if n == 'rename' and p == op[1]:
                    paths[h] = op[2]
            out.append((n, op[1], op[2]))
        elif n == 'symlink':
            out.append(('symlink', op[2], None))
        elif n == 'truncate':
            out.append(('truncate', op[1], op[2]))
        elif n in ('unlink', 'mkdir', 'rmdir', 'chmod', 'utime'):
            out.append((n, op[1], None))
    return out


def parse_strace(text, root):
    """Mutating syscalls under `root` from `strace -f -y -e trace=STRACE_SYSCALLS` output, in order."""
    import re
    root = os.path.abspath(root)
    out = []

    def rel(p):
        p = os.path.normpath(p)
        if p == root:
            return '.'
        if p.startswith(root + os.sep):
            return p[len(root) + 1:]
        return None

    strs = re.compile(r'"((?:[^"\\]|\\.)*)"')
    fdpath = re.compile(r'^\d+<([^>]*)>')
    for line in text.splitlines():
        m = re.match(r'^(?:\d+\s+)?(\w+)\((.*)\)\s+= (-?\d+)', line)
        if not m:
            continue
        call, args, ret = m.group(1), m.group(2), int(m.group(3))
        if ret < 0:
            continue
        if call in ('write', 'pwrite64', 'writev', 'sendfile', 'copy_file_range', 'ftruncate', 'fchmod'):
            a = args if call != 'sendfile' else args
            fm = fdpath.match(a)
            if not fm:
                continue
            p = fm.group(1)
            if p.endswith(' (deleted)'):
                p = p[:-10]
            r = rel(p)
            if r is None:
                continue
            if call == 'ftruncate':
                out.append(('truncate', r, int(args.rsplit(',', 1)[1])))
            elif call == 'fchmod':
                out.append(('chmod', r, None))
            else:
                out.append(('write', r, ret))
            continue
        paths = [s.encode().decode('unicode_escape') for s in strs.findall(args)]
        # resolve paths relative to a printed dir fd (AT_FDCWD</cwd> or N</dir>)
        dm = re.match(r'^(?:AT_FDCWD|\d+)<([^>]*)>', args)
        base = dm.group(1) if dm else None
        paths = [p if os.path.isabs(p) or base is None else os.path.join(base, p) for p in paths]
        if call in ('openat', 'open', 'creat'):
            if not paths:
                continue
            r = rel(paths[0])
            if r is None:
                continue
            if call == 'creat' or re.search(r'O_(WRONLY|RDWR|CREAT|TRUNC|APPEND)', args):
                out.append(('open', r, None))
        elif call in ('rename', 'renameat', 'renameat2', 'link', 'linkat'):
            if len(paths) >= 2 and rel(paths[0]) is not None:
                out.append(('rename' if call.startswith('rename') else 'link', rel(paths[0]), rel(paths[1])))
        elif call in ('symlink', 'symlinkat'):
            if len(paths) >= 2 and rel(paths[1]) is not None:
                out.append(('symlink', rel(paths[1]), None))
        elif call in ('unlink', 'unlinkat', 'rmdir'):
            if paths and rel(paths[0]) is not None:
                kind = 'rmdir' if call == 'rmdir' or 'AT_REMOVEDIR' in args else 'unlink'
                out.append((kind, rel(paths[0]), None))
        elif call in ('mkdir', 'mkdirat'):
            if paths and rel(paths[0]) is not None:
                out.append(('mkdir', rel(paths[0]), None))
        elif call in ('chmod', 'fchmodat'):
            if paths and rel(paths[0]) is not None:
                out.append(('chmod', rel(paths[0]), None))
        elif call == 'truncate':
            if paths and rel(paths[0]) is not None:
                out.append(('truncate', rel(paths[0]), int(args.rsplit(',', 1)[1])))
        elif call == 'utimensat':
            if paths and rel(paths[0]) is not None:
                out.append(('utime', rel(paths[0]), None))
    return out
