"""wsgicall - call a WSGI application with a hand-built PEP 3333 environ and validate the response side.

Why not webtest / wsgiref.validate directly: webtest (and wsgiref.validate's *request*-side assertions)
reject part of the malformed input space before the application sees it.  This helper builds the environ
exactly the way a gateway does (PEP 3333: PATH_INFO is the percent-*decoded* path, QUERY_STRING the raw
query, both "native strings" that are bytes decoded as latin-1; header values latin-1) and then applies the
*response*-side rules of `wsgiref.validate` (status format, header list/tuple/str types, header name and
value syntax, Content-Type presence, bytes-only body chunks, start_response called before the first chunk,
close() called) plus two PEP 3333 requirements that wsgiref.validate leaves to the server (strings must be
latin-1 encodable; a declared Content-Length must equal the number of body bytes).

API (stable; other checks reuse it)
-----------------------------------
    build_environ(method='GET', path='/', query='', headers=(), body=b'', scheme='http',
                  server_name='localhost', server_port='80', script_name='', file_wrapper=True) -> dict
        `path`   wire form of the URL path (may contain %XX escapes and raw non-ASCII characters; characters
                 above U+00FF are sent as UTF-8 bytes the way browsers do).  PATH_INFO becomes
                 unquote_to_bytes(path).decode('latin-1').
        `query`  wire form of the query string (without '?'); becomes QUERY_STRING unchanged (latin-1 str).
        `headers` iterable of (name, value): 'X-Forwarded-Host' -> environ['HTTP_X_FORWARDED_HOST'];
                 Content-Type / Content-Length get their CGI names.  Repeated names are joined with ','.
        environ['wsgi.errors'] is an io.StringIO (read it from result.errors afterwards).

    call(app, environ) -> Result
        Never raises for application misbehaviour: an exception escaping the application call, the body
        iteration or close() is recorded in Result.raised = {'type', 'message', 'where', 'traceback'}.
        The returned iterable is always consumed completely and then close()d if it has a close method (the
        server's PEP 3333 obligation; with file_wrapper=True the wrapper is wsgiref.util.FileWrapper, whose
        close() closes the wrapped file object, as wsgiref / gunicorn / uWSGI / mod_wsgi do).

    begin(app, environ) -> Pending ;  complete(pending) -> Result
        The two halves of call(): begin() calls the application and keeps the body unconsumed, complete()
        consumes + closes + validates.  Use them to model overlapping requests of a threaded server
        (begin A, begin B, complete A, complete B): state shared between responses shows up this way.

    request(app, method='GET', path='/', query='', headers=(), **kw) -> Result      (= build_environ + call)

    Result attributes:
        status (str|None), code (int|None), headers (list of (name, value)), body (bytes),
        raised (dict|None), errors (str; what the app wrote to wsgi.errors),
        problems (list of (rule, message)) - violated response-side rules, rule in:
            'start_response-not-called', 'start_response-late', 'start_response-twice', 'status-type',
            'status-format', 'headers-type', 'header-item-type', 'header-name', 'header-value-ctl',
            'header-not-latin1', 'content-type-missing', 'content-type-on-bodyless', 'body-chunk-type',
            'body-is-string', 'content-length-mismatch', 'write-callable-used' (informational only,
            never produced as a problem: write() is legal)
        header(name, default=None) -> first value (case-insensitive), content_type -> lower-cased mime type
        without parameters ('' if missing).
"""
import io
import re
import traceback
from urllib.parse import unquote_to_bytes
from wsgiref.util import FileWrapper

_HEADER_RE = re.compile(r'^[a-zA-Z][a-zA-Z0-9\-_]*$')          # wsgiref.validate.header_re
_BAD_VALUE_RE = re.compile(r'[\000-\037]')                       # wsgiref.validate.bad_header_value_re
NO_MESSAGE_BODY = (204, 304)


def to_wire(s):
    """str -> latin-1 'native string' (characters above U+00FF are UTF-8 encoded first, as browsers do)."""
    if isinstance(s, bytes):
        return s.decode('latin-1')
    try:
        s.encode('latin-1')
        return s
    except UnicodeEncodeError:
        return s.encode('utf-8', 'surrogatepass').decode('latin-1')


def build_environ(method='GET', path='/', query='', headers=(), body=b'', scheme='http',
                  server_name='localhost', server_port='80', script_name='', file_wrapper=True):
    path = to_wire(path)
    environ = {
        'REQUEST_METHOD': method,
        'SCRIPT_NAME': script_name,
        'PATH_INFO': unquote_to_bytes(path.encode('latin-1')).decode('latin-1'),
        'QUERY_STRING': to_wire(query),
        'SERVER_NAME': server_name,
        'SERVER_PORT': str(server_port),
        'SERVER_PROTOCOL': 'HTTP/1.1',
        'REMOTE_ADDR': '127.0.0.1',
        'wsgi.version': (1, 0),
        'wsgi.url_scheme': scheme,
        'wsgi.input': io.BytesIO(body),
        'wsgi.errors': io.StringIO(),
        'wsgi.multithread': False,
        'wsgi.multiprocess': True,
        'wsgi.run_once': False,
    }
    if file_wrapper:
        environ['wsgi.file_wrapper'] = FileWrapper
    if body:
        environ['CONTENT_LENGTH'] = str(len(body))
    for name, value in headers:
        key = name.upper().replace('-', '_')
        if key not in ('CONTENT_TYPE', 'CONTENT_LENGTH'):
            key = 'HTTP_' + key
        value = to_wire(value)
        if key in environ and key.startswith('HTTP_'):
            environ[key] = environ[key] + ',' + value
        else:
            environ[key] = value
    return environ


class Result(object):
    def __init__(self):
        self.status = None
        self.code = None
        self.headers = []
        self.body = b''
        self.raised = None
        self.errors = ''
        self.problems = []

    def header(self, name, default=None):
        name = name.lower()
        for k, v in self.headers:
            if isinstance(k, str) and k.lower() == name:
                return v
        return default

    @property
    def content_type(self):
        v = self.header('content-type')
        if not isinstance(v, str):
            return ''
        return v.split(';', 1)[0].strip().lower()

    def __repr__(self):
        return 'Result(status=%r, headers=%r, body=%d bytes, raised=%r, problems=%r)' % (
            self.status, self.headers, len(self.body), self.raised and self.raised['type'], self.problems)


def _raised(where):
    import sys
    et, ev, tb = sys.exc_info()
    frames = traceback.extract_tb(tb)
    inner = frames[-1] if frames else None
    return {
        'type': et.__name__,
        'message': str(ev)[:300],
        'where': where,
        'frame': '%s:%s' % (inner.filename.rsplit('/', 1)[-1], inner.name) if inner else '',
        'traceback': ''.join(traceback.format_exception(et, ev, tb))[-3000:],
    }


def _check_start_response(res, status, headers):
    p = res.problems
    # -- status (wsgiref.validate.check_status)
    if type(status) is not str:
        p.append(('status-type', 'status is %r, not str' % (type(status).__name__,)))
    else:
        code = status.split(None, 1)[0] if status.strip() else ''
        if len(code) != 3 or not code.isdigit() or int(code) < 100:
            p.append(('status-format', 'status %r does not start with a 3-digit code >= 100' % (status,)))
        else:
            res.code = int(code)
        if _BAD_VALUE_RE.search(status):
            p.append(('status-format', 'status %r contains control characters' % (status,)))
        try:
            status.encode('latin-1')
        except UnicodeEncodeError:
            p.append(('header-not-latin1', 'status %r is not latin-1 encodable' % (status,)))
    # -- headers (wsgiref.validate.check_headers)
    if type(headers) is not list:
        p.append(('headers-type', 'headers is %r, not list' % (type(headers).__name__,)))
        try:
            headers = list(headers)
        except TypeError:
            headers = []
    has_ct = False
    for item in headers:
        if type(item) is not tuple or len(item) != 2:
            p.append(('header-item-type', 'header item %r is not a 2-tuple' % (item,)))
            continue
        name, value = item
        if type(name) is not str or type(value) is not str:
            p.append(('header-item-type', 'header %r: %r has a non-str member' % (name, value)))
            continue
        if name.lower() == 'status' or '\n' in name or ':' in name or not _HEADER_RE.search(name) \
                or name.endswith('-') or name.endswith('_'):
            p.append(('header-name', 'bad header name %r' % (name,)))
        if _BAD_VALUE_RE.search(value):
            p.append(('header-value-ctl', 'header %s: value %r contains control characters' % (name, value[:120])))
        try:
            (name + value).encode('latin-1')
        except UnicodeEncodeError:
            p.append(('header-not-latin1', 'header %s: value %r is not latin-1 encodable' % (name, value[:120])))
        if name.lower() == 'content-type':
            has_ct = True
    # -- wsgiref.validate.check_content_type
    if res.code is not None:
        if res.code in NO_MESSAGE_BODY:
            if has_ct:
                p.append(('content-type-on-bodyless', 'Content-Type header in a %d response' % res.code))
        elif not has_ct:
            p.append(('content-type-missing', 'no Content-Type header in a %d response' % res.code))


class Pending(object):
    """A started but not yet consumed response (see begin / complete)."""

    def __init__(self, environ):
        self.environ = environ
        self.res = Result()
        self.state = {'called': 0, 'chunks_before_start': False}
        self.written = []
        self.iterable = None
        self.completed = False


def begin(app, environ):
    """Call the application and keep the returned iterable *unconsumed* (what a threaded server does before it
    starts sending).  Several responses can be begun before any of them is completed, in any order."""
    pend = Pending(environ)
    res, state = pend.res, pend.state

    def start_response(status, headers, exc_info=None):
        state['called'] += 1
        if state['called'] > 1 and exc_info is None:
            res.problems.append(('start_response-twice', 'start_response called twice without exc_info'))
        res.status = status
        res.headers = list(headers) if isinstance(headers, (list, tuple)) else []
        res.problems[:] = [q for q in res.problems if q[0] == 'start_response-twice']
        res.code = None
        _check_start_response(res, status, headers)
        return pend.written.append

    try:
        pend.iterable = app(environ, start_response)
    except Exception:
        res.raised = _raised('call')
    return pend


def complete(pend):
    """Consume the body of a begun response, call close() on the iterable if it has one (the server's obligation
    under PEP 3333; with wsgi.file_wrapper = wsgiref.util.FileWrapper this closes the wrapped file object) and
    apply the response-side rules.  -> Result"""
    res, state, environ = pend.res, pend.state, pend.environ
    if pend.completed:
        return res
    pend.completed = True
    chunks = []
    iterable = pend.iterable
    if res.raised is None:
        if isinstance(iterable, (str, bytes)):
            res.problems.append(('body-is-string', 'application returned a %s, not an iterable of bytes'
                                 % type(iterable).__name__))
            iterable = [iterable] if isinstance(iterable, bytes) else []
        try:
            for chunk in iterable:
                if not state['called'] and not state['chunks_before_start']:
                    state['chunks_before_start'] = True
                    res.problems.append(('start_response-late', 'body chunk produced before start_response'))
                if type(chunk) is not bytes:
                    res.problems.append(('body-chunk-type', 'body chunk of type %s' % type(chunk).__name__))
                    if isinstance(chunk, (bytearray, memoryview)):
                        chunk = bytes(chunk)
                    else:
                        continue
                chunks.append(chunk)
        except Exception:
            res.raised = _raised('iterate')
        finally:
            close = getattr(iterable, 'close', None)
            if close is not None:
                try:
                    close()
                except Exception:
                    if res.raised is None:
                        res.raised = _raised('close')
    res.body = b''.join(pend.written) + b''.join(chunks)
    res.errors = environ['wsgi.errors'].getvalue() if hasattr(environ.get('wsgi.errors'), 'getvalue') else ''
    if res.raised is None:
        if not state['called']:
            res.problems.append(('start_response-not-called', 'start_response was never called'))
        cl = res.header('content-length')
        if isinstance(cl, str) and environ.get('REQUEST_METHOD') != 'HEAD' and res.code not in NO_MESSAGE_BODY:
            if not cl.strip().isdigit() or int(cl) != len(res.body):
                res.problems.append(('content-length-mismatch', 'Content-Length %r but %d body bytes'
                                     % (cl, len(res.body))))
    return res


def call(app, environ):
    return complete(begin(app, environ))


def request(app, method='GET', path='/', query='', headers=(), **kw):
    return call(app, build_environ(method, path, query, headers, **kw))
