"""Ground function, synthetic upstream servers and the neighbourhood pixel oracle (shared component).

Idea: the upstream does not serve stored pictures but an *analytic* colour field F(X, Y) defined on the
ground coordinates of one SRS.  Whatever MapProxy does with the data (meta tiles, mosaics, resampling,
reprojection, flips), the colour that a pixel of any response *should* show is computable from the
georeference of that response alone, so every generated request has an oracle.

    g = Ground('EPSG:3857', r0=1000.0)              # colour changes ~3.5-7 levels per r0 metres
    img = g.render((x0, y0, x1, y1), (w, h), 'EPSG:4326')        # PIL RGB image, what a correct WMS returns
    bad = g.check_image(arr, bbox, size, srs, rho=1.5, eps=3)    # -> PixelReport (rejected pixel count ...)

    up = Upstream(g)                                  # patches mapproxy.client.http.HTTPClient.open
    up.add_wms('wms.test')                            # http://wms.test/service?  (any path)
    up.add_tiles('tiles.test', grid=RefGrid(...), kind='tms'|'xyz'|'quadkey'|'tc'|'arcgis'|'bbox')
    with up: ... drive MapProxy ...;  up.log -> list of UpstreamCall

The servers parse requests the way a *standards-following* server would (WMS 1.3.0 axis order from the
CRS definition, I/J vs X/Y, ...) - independently of MapProxy's request classes.

F has two fine channels (R: triangle wave in X, G: triangle wave in Y, period P*r0) that make displacements
of a few pixels visible and one coarse channel (B) that makes large displacements (tile swaps, row flips,
wrong level) visible.  All values are in [40, 210]: white/black/transparent are never legitimate content.
"""
import email.message
import io
import math
import re
import threading
from urllib.parse import urlsplit, parse_qsl, unquote

import numpy as np

_transformers = {}
_tlock = threading.Lock()


def _crs_code(srs):
    srs = str(srs).upper()
    if srs in ('EPSG:900913', 'EPSG:3785', 'EPSG:102100', 'EPSG:102113'):
        return 'EPSG:3857'
    if srs == 'CRS:84':
        return 'EPSG:4326'
    return srs


def transformer(src, dst):
    import pyproj
    key = (_crs_code(src), _crs_code(dst))
    with _tlock:
        t = _transformers.get(key)
        if t is None:
            t = pyproj.Transformer.from_crs(key[0], key[1], always_xy=True)
            _transformers[key] = t
    return t


def transform(x, y, src, dst):
    """x/y -> x/y in traditional GIS order (east, north) whatever the authority axis order is."""
    if _crs_code(src) == _crs_code(dst):
        return np.asarray(x, dtype=float), np.asarray(y, dtype=float)
    t = transformer(src, dst)
    X, Y = t.transform(np.asarray(x, dtype=float), np.asarray(y, dtype=float))
    return np.asarray(X), np.asarray(Y)


_ne_cache = {}


def is_north_east(srs):
    """True if the authority definition of the CRS lists northing/latitude first (WMS 1.3.0 axis order)."""
    code = str(srs).upper()
    if code == 'CRS:84':
        return False
    code = _crs_code(code)
    if code not in _ne_cache:
        import pyproj
        crs = pyproj.CRS.from_user_input(code)
        first = crs.axis_info[0].direction.lower() if crs.axis_info else 'east'
        _ne_cache[code] = first in ('north', 'south')
    return _ne_cache[code]


def tri(t):
    """Triangle wave with period 1, range [0, 1]."""
    t = np.asarray(t, dtype=float)
    f = t - np.floor(t)
    return 1.0 - np.abs(2.0 * f - 1.0)


class Ground(object):
    def __init__(self, srs='EPSG:3857', r0=1000.0, period_px=64.0, x0=0.0, y0=0.0, version=0):
        self.srs = srs
        self.r0 = float(r0)
        self.period = float(period_px) * float(r0)
        self.x0 = float(x0)
        self.y0 = float(y0)
        self.version = int(version)  # shifts the field, to tell "old" from "new" upstream content

    def describe(self):
        return {'srs': self.srs, 'r0': self.r0, 'period_px': self.period / self.r0, 'x0': self.x0, 'y0': self.y0,
                'version': self.version}

    def F(self, X, Y):
        """Colour (float array [..., 3]) of ground points given in self.srs."""
        X = np.asarray(X, dtype=float) - self.x0 + self.version * 0.37 * self.period
        Y = np.asarray(Y, dtype=float) - self.y0 - self.version * 0.23 * self.period
        r = 40.0 + 170.0 * tri(X / self.period)
        g = 40.0 + 170.0 * tri(Y / self.period)
        u = (X + 0.5 * Y) / self.r0
        v = (Y - 0.5 * X) / self.r0
        b = 40.0 + 85.0 * tri(u / 1531.0) + 85.0 * tri(v / 1117.0)
        return np.stack([r, g, b], axis=-1)

    def colour_slope(self):
        """Colour levels per ground unit of the fine channels."""
        return 340.0 / self.period

    def pixel_centres(self, bbox, size):
        w, h = size
        xs = bbox[0] + (np.arange(w) + 0.5) * (bbox[2] - bbox[0]) / w
        ys = bbox[3] - (np.arange(h) + 0.5) * (bbox[3] - bbox[1]) / h
        return np.meshgrid(xs, ys)

    def render_array(self, bbox, size, srs):
        """What a correct, infinitely sharp WMS returns for BBOX (x/y order)/WIDTH/HEIGHT/SRS: F at pixel centres."""
        xx, yy = self.pixel_centres(bbox, size)
        X, Y = transform(xx, yy, srs, self.srs)
        f = self.F(X, Y)
        bad = ~(np.isfinite(X) & np.isfinite(Y))
        f[bad] = 0
        return np.clip(np.rint(f), 0, 255).astype(np.uint8)

    def render(self, bbox, size, srs):
        from PIL import Image
        return Image.fromarray(self.render_array(bbox, size, srs), 'RGB')

    # -- oracle ----------------------------------------------------------------------------------

    def expected_interval(self, px, py, bbox, size, srs, rho, lattice=5):
        """For output pixel indices (px, py arrays; (0,0) = top-left) return (lo, hi) float arrays [N,3]:
        channel-wise min/max of F over a lattice covering the disc of radius rho output pixels around
        each pixel centre."""
        w, h = size
        rx = (bbox[2] - bbox[0]) / w
        ry = (bbox[3] - bbox[1]) / h
        k = np.linspace(-1.0, 1.0, lattice)
        ox, oy = np.meshgrid(k, k)
        keep = (ox ** 2 + oy ** 2) <= 1.0 + 1e-9
        ox = ox[keep] * rho
        oy = oy[keep] * rho
        cx = (np.asarray(px, dtype=float) + 0.5)[:, None] + ox[None, :]
        cy = (np.asarray(py, dtype=float) + 0.5)[:, None] + oy[None, :]
        x = bbox[0] + cx * rx
        y = bbox[3] - cy * ry
        X, Y = transform(x, y, srs, self.srs)
        f = self.F(X, Y)  # N, M, 3
        finite = np.isfinite(X) & np.isfinite(Y)
        lo = np.where(finite[..., None], f, np.inf).min(axis=1)
        hi = np.where(finite[..., None], f, -np.inf).max(axis=1)
        return lo, hi, finite.all(axis=1)

    def check_pixels(self, arr, px, py, bbox, size, srs, rho=1.5, eps=3.0, lattice=5):
        """arr: uint8 array [h, w, >=3].  Returns indices (into px/py) of rejected pixels and their excess."""
        lo, hi, ok = self.expected_interval(px, py, bbox, size, srs, rho, lattice)
        got = arr[np.asarray(py), np.asarray(px), :3].astype(float)
        excess = np.maximum(lo - eps - got, got - hi - eps)
        excess = np.where(ok[:, None], excess, -1.0)
        worst = excess.max(axis=1)
        return np.nonzero(worst > 0)[0], worst


def sample_lattice(size, n_target=2000, border=True):
    """Deterministic sample of pixel indices: a regular lattice of about n_target pixels plus all four borders."""
    w, h = size
    step = max(1, int(math.sqrt(w * h / float(max(n_target, 1)))))
    xs = np.arange(step // 2, w, step)
    ys = np.arange(step // 2, h, step)
    gx, gy = np.meshgrid(xs, ys)
    px = gx.ravel()
    py = gy.ravel()
    if border:
        bx = np.concatenate([np.arange(w), np.arange(w), np.zeros(h, int), np.full(h, w - 1)])
        by = np.concatenate([np.zeros(w, int), np.full(w, h - 1), np.arange(h), np.arange(h)])
        px = np.concatenate([px, bx])
        py = np.concatenate([py, by])
    return px.astype(int), py.astype(int)


def region_class(px, py, bbox, size, srs, region_bbox, region_srs, rho, lattice=5):
    """Classify output pixels against an axis-parallel rectangle given in region_srs:
    +1 = the whole rho-disc around the pixel centre lies inside, -1 = wholly outside, 0 = boundary band."""
    w, h = size
    rx = (bbox[2] - bbox[0]) / w
    ry = (bbox[3] - bbox[1]) / h
    k = np.linspace(-1.0, 1.0, lattice)
    ox, oy = np.meshgrid(k, k)
    keep = (ox ** 2 + oy ** 2) <= 1.0 + 1e-9
    ox = ox[keep] * rho
    oy = oy[keep] * rho
    cx = (np.asarray(px, dtype=float) + 0.5)[:, None] + ox[None, :]
    cy = (np.asarray(py, dtype=float) + 0.5)[:, None] + oy[None, :]
    x = bbox[0] + cx * rx
    y = bbox[3] - cy * ry
    X, Y = transform(x, y, srs, region_srs)
    fin = np.isfinite(X) & np.isfinite(Y)
    inside = fin & (X >= region_bbox[0]) & (X <= region_bbox[2]) & (Y >= region_bbox[1]) & (Y <= region_bbox[3])
    res = np.zeros(len(cx), dtype=int)
    res[inside.all(axis=1)] = 1
    res[(~inside).all(axis=1) & fin.all(axis=1)] = -1
    return res


# -- synthetic upstream ----------------------------------------------------------------------------

class UpstreamCall(object):
    def __init__(self, url, kind, host, params=None, info=None):
        self.url = url
        self.kind = kind      # 'map' | 'featureinfo' | 'tile' | 'capabilities' | 'legend' | 'other'
        self.host = host
        self.params = params or {}
        self.info = info or {}  # decoded: bbox (x/y order), size, srs, layers, tile=(x, y, z) ...

    def as_dict(self):
        return {'url': self.url, 'kind': self.kind, 'info': self.info}

    def __repr__(self):
        return 'UpstreamCall(%s %s)' % (self.kind, self.url)


class FakeResponse(object):
    def __init__(self, body, content_type='image/png', code=200, extra_headers=None):
        self._io = io.BytesIO(body)
        self.code = self.status = code
        self.headers = email.message.Message()
        self.headers['Content-type'] = content_type
        self.headers['Content-length'] = str(len(body))
        for k, v in (extra_headers or {}).items():
            self.headers[k] = v
        self.msg = 'OK'

    def read(self, n=-1):
        return self._io.read(n)

    def info(self):
        return self.headers

    def getcode(self):
        return self.code

    def geturl(self):
        return ''

    def close(self):
        pass


def encode_image(img, fmt):
    fmt = (fmt or 'image/png').lower()
    buf = io.BytesIO()
    if 'jpeg' in fmt or 'jpg' in fmt:
        img.convert('RGB').save(buf, 'JPEG', quality=95)
        return buf.getvalue(), 'image/jpeg'
    if 'tif' in fmt:
        img.save(buf, 'TIFF')
        return buf.getvalue(), 'image/tiff'
    if 'gif' in fmt:
        img.save(buf, 'GIF')
        return buf.getvalue(), 'image/gif'
    img.save(buf, 'PNG', compress_level=1)
    return buf.getvalue(), 'image/png'


class WMSServer(object):
    """Standards-following WMS 1.0.0/1.1.1/1.3.0 GetMap / GetFeatureInfo endpoint rendering a Ground.

    render_fn(call_info) -> PIL image may replace the default (ground field) rendering; call_info has
    bbox (x/y order), size, srs, layers (list), params (upper-cased keys)."""

    def __init__(self, ground, render_fn=None, fail_fn=None, info_fn=None):
        self.ground = ground
        self.render_fn = render_fn
        self.fail_fn = fail_fn  # fail_fn(call) -> None | (code, body, content_type)
        self.info_fn = info_fn

    def handle(self, url, host, data=None):
        from mapproxy.client.http import HTTPClientError
        sp = urlsplit(url)
        params = {}
        for k, v in parse_qsl(sp.query, keep_blank_values=True):
            params.setdefault(k.upper(), v)
        req = params.get('REQUEST', '').lower()
        version = params.get('VERSION', params.get('WMTVER', '1.1.1'))
        call = UpstreamCall(url, 'other', host, params)
        if req in ('getmap', 'map', 'getfeatureinfo', 'feature_info'):
            srs = params.get('CRS') if version.startswith('1.3') else params.get('SRS')
            if srs is None:
                srs = params.get('SRS') or params.get('CRS')
            raw = [float(v) for v in params['BBOX'].split(',')]
            if version.startswith('1.3') and is_north_east(srs):
                bbox = (raw[1], raw[0], raw[3], raw[2])
            else:
                bbox = tuple(raw)
            size = (int(params['WIDTH']), int(params['HEIGHT']))
            call.info = {'version': version, 'srs': srs, 'bbox': bbox, 'size': size,
                         'layers': [l for l in params.get('LAYERS', '').split(',') if l],
                         'format': params.get('FORMAT'), 'transparent': params.get('TRANSPARENT', 'FALSE').upper() == 'TRUE'}
            if req in ('getmap', 'map'):
                call.kind = 'map'
            else:
                call.kind = 'featureinfo'
                if version.startswith('1.3'):
                    pos = (params.get('I'), params.get('J'))
                else:
                    pos = (params.get('X'), params.get('Y'))
                call.info['pos'] = (float(pos[0]), float(pos[1]))
                call.info['query_layers'] = [l for l in params.get('QUERY_LAYERS', '').split(',') if l]
                call.info['info_format'] = params.get('INFO_FORMAT')
        elif req in ('getcapabilities', 'capabilities'):
            call.kind = 'capabilities'
        elif req in ('getlegendgraphic',):
            call.kind = 'legend'
        yield_call = call
        if self.fail_fn is not None:
            failure = self.fail_fn(call)
            if failure is not None:
                code, body, ctype = failure
                if code >= 400:
                    call.info['failed'] = code
                    return yield_call, HTTPClientError('HTTP Error "%s": %d' % (url, code), response_code=code)
                return yield_call, FakeResponse(body, ctype, code)
        if call.kind == 'map':
            if self.render_fn is not None:
                img = self.render_fn(call.info)
            else:
                img = self.ground.render(call.info['bbox'], call.info['size'], call.info['srs'])
            body, ctype = encode_image(img, call.info['format'])
            return yield_call, FakeResponse(body, ctype)
        if call.kind == 'featureinfo':
            if self.info_fn is not None:
                body, ctype = self.info_fn(call.info)
            else:
                body, ctype = ('info %r' % (call.info['pos'],)).encode(), 'text/plain'
            return yield_call, FakeResponse(body, ctype)
        if call.kind == 'legend':
            from PIL import Image
            body, ctype = encode_image(Image.new('RGB', (20, 10), (90, 120, 150)), 'image/png')
            return yield_call, FakeResponse(body, ctype)
        return yield_call, FakeResponse(b'<nothing/>', 'text/xml')


_TILE_PATTERNS = {
    # kind -> (path regex after the prefix, decoder(match) -> (x, y, z))
    'tms': (r'(?P<z>-?\d+)/(?P<x>-?\d+)/(?P<y>-?\d+)\.(?P<fmt>\w+)$', None),
    'xyz': (r'(?P<z>-?\d+)/(?P<x>-?\d+)/(?P<y>-?\d+)\.(?P<fmt>\w+)$', None),
    'zyx': (r'(?P<z>-?\d+)/(?P<y>-?\d+)/(?P<x>-?\d+)\.(?P<fmt>\w+)$', None),
    'quadkey': (r'(?P<q>[0-3]*)\.(?P<fmt>\w+)$', 'quadkey'),
    'tc': (r'(?P<z>\d\d)/(?P<x1>\d{3})/(?P<x2>\d{3})/(?P<x3>\d{3})/(?P<y1>\d{3})/(?P<y2>\d{3})/(?P<y3>\d{3})\.(?P<fmt>\w+)$', 'tc'),
    'arcgis': (r'L(?P<z>\d\d)/R(?P<y>[0-9a-f]{8})/C(?P<x>[0-9a-f]{8})\.(?P<fmt>\w+)$', 'arcgis'),
    'bbox': (r'(?P<bbox>-?[\d.e+-]+,-?[\d.e+-]+,-?[\d.e+-]+,-?[\d.e+-]+)\.(?P<fmt>\w+)$', 'bbox'),
}

TILE_TEMPLATES = {
    'tms': '%(tms_path)s.%(format)s',
    'xyz': '%(z)s/%(x)s/%(y)s.%(format)s',
    'zyx': '%(z)s/%(y)s/%(x)s.%(format)s',
    'quadkey': '%(quadkey)s.%(format)s',
    'tc': '%(tc_path)s.%(format)s',
    'arcgis': '%(arcgiscache_path)s.%(format)s',
    'bbox': '%(bbox)s.%(format)s',
}


class TileServer(object):
    """Tile endpoint: decodes the address from the URL and renders the ground on the tile rectangle that the
    *source* grid (a refgrid.RefGrid + srs) assigns to it.  Addresses outside the grid are logged with
    info['in_grid'] = False and answered with 404."""

    def __init__(self, ground, grid, srs, kind='tms', prefix='/', render_fn=None, fail_fn=None):
        self.ground = ground
        self.grid = grid  # RefGrid with grid_sizes
        self.srs = srs
        self.kind = kind
        self.prefix = prefix
        self.render_fn = render_fn
        self.fail_fn = fail_fn
        self.rx = re.compile(re.escape(prefix) + _TILE_PATTERNS[kind][0])

    def template(self, host):
        return 'http://%s%s%s' % (host, self.prefix, TILE_TEMPLATES[self.kind])

    def decode(self, path):
        m = self.rx.search(path)
        if not m:
            return None
        how = _TILE_PATTERNS[self.kind][1]
        if how is None:
            return int(m.group('x')), int(m.group('y')), int(m.group('z'))
        if how == 'quadkey':
            q = m.group('q')
            x = y = 0
            z = len(q)
            for i, ch in enumerate(q):
                bit = z - i - 1
                d = int(ch)
                if d & 1:
                    x |= 1 << bit
                if d & 2:
                    y |= 1 << bit
            return x, y, z
        if how == 'tc':
            x = int(m.group('x1') + m.group('x2') + m.group('x3'))
            y = int(m.group('y1') + m.group('y2') + m.group('y3'))
            return x, y, int(m.group('z'))
        if how == 'arcgis':
            return int(m.group('x'), 16), int(m.group('y'), 16), int(m.group('z'))
        if how == 'bbox':
            return tuple(float(v) for v in m.group('bbox').split(','))
        raise AssertionError(how)

    def handle(self, url, host, data=None):
        from mapproxy.client.http import HTTPClientError
        sp = urlsplit(url)
        call = UpstreamCall(url, 'tile', host)
        dec = self.decode(unquote(sp.path))
        if dec is None:
            call.kind = 'other'
            call.info['undecodable'] = True
            return call, HTTPClientError('HTTP Error "%s": 404' % url, response_code=404)
        if len(dec) == 4:
            bbox = dec
            call.info = {'bbox': bbox, 'srs': self.srs, 'size': (self.grid.tw, self.grid.th), 'in_grid': None}
        else:
            x, y, z = dec
            in_grid = 0 <= z < len(self.grid.res) and self.grid.in_grid(x, y, z)
            call.info = {'tile': (x, y, z), 'srs': self.srs, 'size': (self.grid.tw, self.grid.th), 'in_grid': in_grid}
            if not in_grid:
                return call, HTTPClientError('HTTP Error "%s": 404' % url, response_code=404)
            bbox = tuple(float(v) for v in self.grid.tile_rect(x, y, z))
            call.info['bbox'] = bbox
        if self.fail_fn is not None:
            failure = self.fail_fn(call)
            if failure is not None:
                code, body, ctype = failure
                if code >= 400:
                    call.info['failed'] = code
                    return call, HTTPClientError('HTTP Error "%s": %d' % (url, code), response_code=code)
                return call, FakeResponse(body, ctype, code)
        if self.render_fn is not None:
            img = self.render_fn(call.info)
        else:
            img = self.ground.render(bbox, call.info['size'], self.srs)
        fmt = sp.path.rsplit('.', 1)[-1]
        body, ctype = encode_image(img, 'image/' + fmt)
        return call, FakeResponse(body, ctype)


class Upstream(object):
    """Replaces mapproxy.client.http.HTTPClient.open by a dispatcher over registered synthetic servers.
    Unknown hosts raise HTTPClientError (like an unreachable server) and are logged with kind 'unknown'."""

    def __init__(self, ground=None):
        self.ground = ground
        self.servers = {}
        self.log = []
        self._lock = threading.Lock()
        self._orig = None
        self.on_call = None  # optional hook(call) executed before answering (e.g. scheduler yield point)

    def add_wms(self, host, **kw):
        self.servers[host] = WMSServer(kw.pop('ground', self.ground), **kw)
        return self.servers[host]

    def add_tiles(self, host, grid, srs, kind='tms', **kw):
        self.servers[host] = TileServer(kw.pop('ground', self.ground), grid, srs, kind, **kw)
        return self.servers[host]

    def add(self, host, server):
        self.servers[host] = server
        return server

    def calls(self, kind=None):
        with self._lock:
            return [c for c in self.log if kind is None or c.kind == kind]

    def clear(self):
        with self._lock:
            del self.log[:]

    def open(self, url, data=None, method=None):
        from mapproxy.client.http import HTTPClientError
        host = urlsplit(url).netloc.split('@')[-1]
        server = self.servers.get(host) or self.servers.get(host.split(':')[0])
        if server is None:
            call = UpstreamCall(url, 'unknown', host)
            with self._lock:
                self.log.append(call)
            raise HTTPClientError('No response from URL "%s": unknown host' % url)
        call, resp = server.handle(url, host, data)
        with self._lock:
            self.log.append(call)
        if self.on_call is not None:
            self.on_call(call)
        if isinstance(resp, Exception):
            raise resp
        return resp

    def __enter__(self):
        import mapproxy.client.http as http
        self._orig = http.HTTPClient.open
        up = self

        def _open(client, url, data=None, method=None):
            return up.open(url, data, method)
        http.HTTPClient.open = _open
        return self

    def __exit__(self, *exc):
        import mapproxy.client.http as http
        http.HTTPClient.open = self._orig
        self._orig = None
        return False


# -- MapProxy application from a configuration dict ----------------------------------------------------

def make_app(conf, base_dir, seed_conf=None, paletted=False):
    """Write conf (dict in mapproxy.yaml structure) into base_dir/mapproxy.yaml and load it the way
    `mapproxy-util serve-develop` / a WSGI deployment does.  Cache and lock directories are put below
    base_dir unless the configuration says otherwise."""
    import os
    import yaml
    from mapproxy.wsgiapp import make_wsgi_app
    conf = dict(conf)
    g = dict(conf.get('globals') or {})
    cache = dict(g.get('cache') or {})
    cache.setdefault('base_dir', os.path.join(base_dir, 'cache_data'))
    cache.setdefault('lock_dir', os.path.join(base_dir, 'cache_data', 'tile_locks'))
    cache.setdefault('tile_lock_dir', os.path.join(base_dir, 'cache_data', 'tile_locks'))
    g['cache'] = cache
    image = dict(g.get('image') or {})
    image.setdefault('paletted', paletted)
    g['image'] = image
    conf['globals'] = g
    path = os.path.join(base_dir, 'mapproxy.yaml')
    with open(path, 'w') as f:
        yaml.safe_dump(conf, f, default_flow_style=False)
    return make_wsgi_app(path, ignore_config_warnings=False, reloader=False)


def decode_image(body):
    from PIL import Image
    img = Image.open(io.BytesIO(body))
    img.load()
    return img


def to_rgba_array(img):
    return np.asarray(img.convert('RGBA'))
