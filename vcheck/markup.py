"""markup - XML / HTML structure whitelist and marker-injection detector (shared component, DESIGN section 19).

Request generators plant *markers* in parameter values, paths and headers; a response document is then
judged with these questions (all answers are lists of `(code, message)` findings; empty list = fine):

    check_xml(body)   - is it well-formed XML (lxml, no DTD loading, no network, no entity resolution)?
                        is the root one of the fixed MapProxy document roots and does every descendant
                        element name belong to the fixed element set of that template?  did a marker become
                        an element or an attribute (instead of escaped character data / attribute text)?
    check_html(body)  - does the parsed DOM (lxml.html, browser-like recovery) contain a marker element or
                        marker attribute, or the raw text an unescaped '<zq9x'?
    check_leaks(body, roots) - does the body contain a Python stack trace or a server file-system path?

Codes:  'xml/not-well-formed', 'xml/unknown-root:<name>', 'xml/unexpected-element:<root>/<name>',
        'xml/marker-element', 'xml/marker-attribute', 'html/marker-element', 'html/marker-attribute',
        'html/raw-marker', 'leak/traceback', 'leak/path:<which>'.

The element sets were taken once from the templates of MapProxy 4.0.2 (mapproxy/service/templates/*.xml and
the KML strings in service/kml.py); they are data of the check, not read from the tree under test.
"""
import re

from lxml import etree
from lxml import html as lxml_html

MARKER_TAG = 'zq9x'
MARKER_ATTR = 'zq9y'
#: the design's marker: opens an element, carries an attribute, a bare ampersand and a double quote
MARKER = "<zq9x a='b'>&\""
#: further markers aimed at attribute values, CDATA sections and comments
MARKERS = [
    MARKER,
    '" zq9y="1',
    "' zq9y='1",
    ']]><zq9x>',
    '--><zq9x>',
    '</Title><zq9x/>',
    '<zq9x/>',
]

_WMS_COMMON = '''Abstract AccessConstraints Address AddressType BoundingBox Capability City ContactAddress
 ContactElectronicMailAddress ContactFacsimileTelephone ContactInformation ContactOrganization ContactPerson
 ContactPersonPrimary ContactPosition ContactVoiceTelephone Country DCPType Dimension Exception Fees Format Get
 GetCapabilities GetFeatureInfo GetMap HTTP Height LatLonBoundingBox Layer Layers LegendURL Name OnlineResource
 PostCode Request Resolutions SRS ScaleHint Service StateOrProvince Style Styles TileSet Title
 VendorSpecificCapabilities Width Post KeywordList Keyword'''.split()

#: root local name -> (document kind, allowed descendant local names)
DOCS = {
    'WMTException': ('wms100-exception', set()),
    'ServiceExceptionReport': ('wms-exception', {'ServiceException'}),
    'ExceptionReport': ('ows-exception', {'Exception', 'ExceptionText'}),
    'TileMapServerError': ('tms-exception', {'Message'}),
    'TileMapService': ('tms-capabilities', {'Title', 'Abstract', 'TileMaps', 'TileMap'}),
    'Services': ('tms-root', {'TileMapService'}),
    'TileMap': ('tms-tilemap', {'Title', 'Abstract', 'SRS', 'BoundingBox', 'Origin', 'TileFormat', 'TileSets',
                                'TileSet'}),
    'WMT_MS_Capabilities': ('wms-capabilities', set(_WMS_COMMON) | set(
        '''BLANK Capabilities FeatureInfo INIMAGE Map StyleURL WMS_XML GetLegendGraphic MetadataURL PNG JPEG GIF
        TIFF MIME GML.1 Attribution LogoURL'''.split())),
    'WMS_Capabilities': ('wms130-capabilities', set(_WMS_COMMON) | set(
        '''Attribution AuthorityURL CRS EX_GeographicBoundingBox Identifier Keyword KeywordList LogoURL MaxHeight
        MaxScaleDenominator MaxWidth MinScaleDenominator eastBoundLongitude northBoundLatitude southBoundLatitude
        westBoundLongitude GetLegendGraphic MetadataURL Conformity DateOfCreation DateOfLastRevision
        DateOfPublication DefaultLanguage Degree EmailAddress KeywordValue Language MandatoryKeyword MediaType
        MetadataDate MetadataPointOfContact MetadataUrl OrganisationName OriginatingControlledVocabulary
        ResourceLocator ResourceType ResponseLanguage SpatialDataServiceType Specification SupportedLanguages
        TemporalReference URI URL ExtendedCapabilities'''.split())),
    'Capabilities': ('wmts-capabilities', set(
        '''Contents Default Dimension Format InfoFormat Layer LegendURL MatrixHeight MatrixWidth ResourceURL
        ScaleDenominator ServiceMetadataURL Style TileHeight TileMatrix TileMatrixSet TileMatrixSetLink TileWidth
        TopLeftCorner Value Abstract AccessConstraints Address AdministrativeArea AllowedValues City Constraint
        ContactInfo Country DCP DeliveryPoint ElectronicMailAddress Facsimile Fees Get HTTP Identifier
        IndividualName Keyword Keywords LowerCorner Operation OperationsMetadata Phone PositionName PostalCode
        ProviderName ProviderSite ServiceContact ServiceIdentification ServiceProvider ServiceType
        ServiceTypeVersion SupportedCRS Title UpperCorner Voice WGS84BoundingBox'''.split())),
    'kml': ('kml', set(
        '''Document name Region LatLonAltBox north south east west NetworkLink Lod minLodPixels maxLodPixels
        minFadeExtent maxFadeExtent Link href viewRefreshMode viewFormat GroundOverlay drawOrder Icon
        LatLonBox'''.split())),
}


def register_doc(root, kind, names):
    """Let a check add the fixed documents of its own synthetic upstream (e.g. feature-info answers)."""
    DOCS[root] = (kind, set(names))


def local(tag):
    if not isinstance(tag, str):
        return None  # comment / PI
    return tag.rsplit('}', 1)[-1]


def _is_marker_name(name):
    n = (name or '').lower()
    return n.startswith(MARKER_TAG) or n.startswith(MARKER_ATTR)


def check_xml(body, expect_kinds=None):
    """-> (kind or None, findings).  `expect_kinds`: optional collection of acceptable document kinds."""
    findings = []
    parser = etree.XMLParser(resolve_entities=False, no_network=True, load_dtd=False, recover=False,
                             huge_tree=True)
    try:
        root = etree.fromstring(body, parser)
    except (etree.XMLSyntaxError, ValueError) as e:
        findings.append(('xml/not-well-formed', str(e)[:200]))
        return None, findings
    rname = local(root.tag)
    marker_hit = False
    for el in root.iter():
        name = local(el.tag)
        if name is None:
            continue
        if _is_marker_name(name):
            findings.append(('xml/marker-element', 'marker became element <%s>' % name))
            marker_hit = True
        for a in el.attrib:
            if _is_marker_name(local(a)):
                findings.append(('xml/marker-attribute', 'marker became attribute %s on <%s>' % (local(a), name)))
                marker_hit = True
    if marker_hit:
        return DOCS.get(rname, (None,))[0], findings
    if rname not in DOCS:
        findings.append(('xml/unknown-root:' + rname, 'root element <%s> is not a MapProxy document root' % rname))
        return None, findings
    kind, allowed = DOCS[rname]
    if expect_kinds is not None and kind not in expect_kinds:
        findings.append(('xml/unexpected-kind:' + kind, 'document kind %s, expected one of %s'
                         % (kind, sorted(expect_kinds))))
    for el in root.iterdescendants():
        name = local(el.tag)
        if name is None:
            continue
        if name not in allowed:
            findings.append(('xml/unexpected-element:%s/%s' % (rname, name),
                             'element <%s> is not part of the %s template' % (name, kind)))
            break
    return kind, findings


_RAW_MARKER_RE = re.compile(r'<\s*/?\s*zq9x', re.I)


def check_html(body):
    findings = []
    text = body.decode('utf-8', 'replace') if isinstance(body, bytes) else body
    if _RAW_MARKER_RE.search(text):
        findings.append(('html/raw-marker', 'unescaped marker tag in the HTML source'))
    if not text.strip():
        return findings
    try:
        doc = lxml_html.document_fromstring(text)
    except (etree.ParserError, etree.XMLSyntaxError, ValueError):
        return findings
    for el in doc.iter():
        if not isinstance(el.tag, str):
            continue
        if _is_marker_name(el.tag):
            findings.append(('html/marker-element', 'marker became element <%s>' % el.tag))
        for a in el.attrib:
            if _is_marker_name(a):
                findings.append(('html/marker-attribute', 'marker became attribute %s on <%s>' % (a, el.tag)))
    return findings


def check_leaks(body, roots=()):
    """Stack traces / server paths.  `roots`: list of (label, path string) that must not occur."""
    findings = []
    if b'Traceback (most recent call last)' in body:
        findings.append(('leak/traceback', 'body contains a Python stack trace'))
    for label, path in roots:
        if path and path.encode('utf-8') in body:
            findings.append(('leak/path:' + label, 'body contains the server path %r' % path))
    return findings
