"""refclient - a standards-following tile client that works ONLY from the documents a server publishes.

Shared component (used by C02, reused by C16).  Nothing in here is derived from MapProxy code: every
rectangle is computed from the conventions of the respective specification, in exact rational arithmetic
(`fractions.Fraction`) over the decimal numbers printed in the documents.

Conventions implemented
-----------------------
* TMS 1.0.0 (OSGeo Tile Map Service Specification): the root resource lists `<TileMap href=...>`; a TileMap
  has `<SRS>`, `<BoundingBox minx miny maxx maxy>`, `<Origin x y>`, `<TileFormat width height mime-type
  extension>` and `<TileSet href units-per-pixel order>`.  Tile (x, y) of a TileSet is fetched from
  `{TileSet href}/{x}/{y}.{extension}`; x counts east, y counts NORTH, and the lower-left corner of tile
  (0, 0) is `<Origin>`:
      rect(x, y) = [Ox + x*W*upp, Ox + (x+1)*W*upp] x [Oy + y*H*upp, Oy + (y+1)*H*upp]
  Advertised addresses of a TileSet = the tiles that intersect `<BoundingBox>` with positive area.
* WMTS 1.0.0 (OGC 07-057r7), KVP and RESTful: `TileMatrix` has ScaleDenominator, TopLeftCorner (in the axis
  order of the CRS definition: EPSG:4326 is "lat lon", EPSG:31467 is "northing easting"), TileWidth/Height,
  MatrixWidth/Height.  pixel span = ScaleDenominator * 0.28 mm / metres-per-CRS-unit (degrees:
  111319.49079327358 m, the value the standard's well-known scale sets are built with; other units from the
  CRS definition).  TileCol counts east, TileRow counts SOUTH from TopLeftCorner:
      rect(col, row) = [TLx + col*TW*s, TLx + (col+1)*TW*s] x [TLy - (row+1)*TH*s, TLy - row*TH*s]
  valid iff 0 <= col < MatrixWidth and 0 <= row < MatrixHeight (and inside TileMatrixSetLimits if given).
  KVP GetTile endpoint = OperationsMetadata/Operation[GetTile]/DCP/HTTP/Get (encoding constraint KVP);
  RESTful tile URL = Layer/ResourceURL[@resourceType='tile']/@template with {Style} {TileMatrixSet}
  {TileMatrix} {TileRow} {TileCol} (and {dimension}) substituted.
* WMS-C (OSGeo WMS Tiling Client Recommendation): WMS 1.1.1 capabilities requested with `tiled=true` carry
  `VendorSpecificCapabilities/TileSet` with SRS, BoundingBox, Resolutions (space separated, units per pixel),
  Width, Height, Format, Layers, Styles.  The tile grid of every resolution is anchored at (minx, miny) of
  the BoundingBox; tile (x, y) of resolution r is requested with an ordinary GetMap whose
      BBOX = minx + x*W*r, miny + y*H*r, minx + (x+1)*W*r, miny + (y+1)*H*r   WIDTH=W HEIGHT=H TILED=true
  Advertised addresses = tiles intersecting the BoundingBox.
* KML 2.2 super-overlays: a document is a set of `<NetworkLink><Link><href>` (further documents) and
  `<GroundOverlay>` elements; the image at `Icon/href` is draped on `LatLonBox` (north/south/east/west in
  WGS84 degrees).  There is no capabilities document: the client is given the URL of the initial document
  and discovers every address by following links.

API
---
    fetch = wsgi_fetcher(app, base='http://localhost')      # any callable url -> Response works
    Response: .status (int) .content_type (str, lower-case, no parameters) .body (bytes) .headers (list)

    Tile (what every client hands out for one advertised address):
        .service   'tms' | 'wmts-kvp' | 'wmts-rest' | 'wmsc' | 'kml'
        .url       absolute URL to GET
        .srs       CRS as advertised, canonicalised ('EPSG:4326', 'EPSG:3857' for OSGEO:41001 / EPSG:900913)
        .rect      (x0, y0, x1, y1) as Fractions in east/north (x/y) order, whatever the CRS axis order is
        .size      (width, height) in pixels as advertised (KML: None, the document does not say)
        .level     level key of the service (TMS order index, WMTS matrix index, WMS-C resolution index)
        .col .row  address inside the level, in the service's own convention
        .res       units per pixel (Fraction) or None
        .frect()   rect as floats;  .key() hashable description

    TMSClient(fetch, root_url)                 root_url like 'http://host/tms/1.0.0'
        .tilemap_refs                          [TMSTileMapRef(title, srs, profile, href)]
        .tilemap(href) -> TMSTileMap
    TMSTileMap: .title .srs .srs_raw .bbox .origin .tile_size .mime .extension .profile .href
                .tilesets [TMSTileSet(href, upp, order)]  (document order)
                .span(i) -> (sx, sy);  .tile_rect(i, x, y)
                .tile_range(i, min_overlap_px=0) -> (x_lo, x_hi, y_lo, y_hi) inclusive: tiles overlapping the
                 BoundingBox by more than min_overlap_px pixels (a server may drop a partial pixel of its extent)
                .tile(i, x, y) -> Tile;  .locate(rect, tol, min_overlap_px) -> [(i, x, y)] advertised addresses with that rect
    WMTSClient(fetch, capabilities_url)        KVP: '...?SERVICE=WMTS&REQUEST=GetCapabilities', REST: '.../WMTSCapabilities.xml'
        .layers {identifier: WMTSLayer(identifier, formats, styles, default_style, links [(tms id, limits|None)],
                 tile_templates [(format, template)], dimensions {id: default})}
        .matrix_sets {identifier: WMTSMatrixSet(identifier, crs, crs_raw, north_east, matrices [WMTSMatrix])}
        WMTSMatrix: .identifier .scale_denominator .res .top_left (x, y) .tile_w .tile_h .matrix_w .matrix_h
        .kvp_url (None if the document advertises no KVP GetTile endpoint)
        .tile_range(layer, tms, mi) -> (col_lo, col_hi, row_lo, row_hi);  .tile_rect(tms, mi, col, row)
        .tile(layer, tms, mi, col, row, encoding='kvp'|'rest', fmt=None) -> Tile
        .locate(layer, rect, tol) -> [(tms id, mi, col, row)]
    WMSCClient(fetch, capabilities_url)        '...?SERVICE=WMS&REQUEST=GetCapabilities&VERSION=1.1.1&TILED=true'
        .getmap_url  .tilesets [WMSCTileSet(srs, srs_raw, bbox, resolutions, width, height, format, layers, styles)]
        .tile_range(ts, li, min_overlap_px=0) / .tile_rect(ts, li, x, y) / .tile(ts, li, x, y) / .locate(ts, rect, tol, min_overlap_px)
    KMLClient(fetch).document(url) -> KMLDocument(.url .links [KMLLink(href, box)] .overlays [KMLOverlay(href, box, name)])
        box = (west, south, east, north) Fractions in degrees;  KMLOverlay.tile() -> Tile (srs 'EPSG:4326', size None)
    get(fetch, tile) -> Response

    crs_canonical(text), crs_north_east(text), crs_metres_per_unit(text): CRS helpers (EPSG codes, URNs,
    CRS:84, OSGEO:41001, EPSG:900913).
"""
import math
import re
from fractions import Fraction as Fr
from urllib.parse import quote, urljoin, urlsplit

METRES_PER_DEGREE = Fr(111319.49079327358)   # 6378137 * 2 * pi / 360, OGC 07-057r7 Annex E
PIXEL_SIZE_M = Fr(28, 100000)                # 0.28 mm "standardized rendering pixel size"

NS_WMTS = 'http://www.opengis.net/wmts/1.0'
NS_OWS = 'http://www.opengis.net/ows/1.1'
NS_XLINK = 'http://www.w3.org/1999/xlink'
NS_KML = 'http://www.opengis.net/kml/2.2'


class ClientError(Exception):
    """The published document cannot be used by a standards-following client (missing / malformed part)."""


# -- transport -----------------------------------------------------------------------------------------

class Response(object):
    def __init__(self, status, headers, body):
        self.status = int(status)
        self.headers = list(headers)
        self.body = body
        ct = ''
        for k, v in self.headers:
            if k.lower() == 'content-type':
                ct = v
                break
        self.content_type = ct.split(';')[0].strip().lower()

    def __repr__(self):
        return 'Response(%d %s %d bytes)' % (self.status, self.content_type, len(self.body))


def wsgi_fetcher(app, base='http://localhost'):
    """GET fetcher over an in-process WSGI application (plain, valid requests only)."""
    import io
    from urllib.parse import unquote
    b = urlsplit(base)

    def fetch(url):
        sp = urlsplit(urljoin(base + '/', url))
        environ = {
            'REQUEST_METHOD': 'GET', 'SCRIPT_NAME': '', 'PATH_INFO': unquote(sp.path, encoding='latin-1'),
            'QUERY_STRING': sp.query, 'SERVER_NAME': b.hostname or 'localhost',
            'SERVER_PORT': str(b.port or (443 if b.scheme == 'https' else 80)), 'HTTP_HOST': b.netloc,
            'SERVER_PROTOCOL': 'HTTP/1.1', 'REMOTE_ADDR': '127.0.0.1', 'wsgi.version': (1, 0),
            'wsgi.url_scheme': b.scheme or 'http', 'wsgi.input': io.BytesIO(b''), 'wsgi.errors': io.StringIO(),
            'wsgi.multithread': False, 'wsgi.multiprocess': False, 'wsgi.run_once': False,
        }
        state = {}

        def start_response(status, headers, exc_info=None):
            state['status'] = status
            state['headers'] = headers
            return lambda data: None
        it = app(environ, start_response)
        try:
            body = b''.join(it)
        finally:
            if hasattr(it, 'close'):
                it.close()
        return Response(int(state['status'].split()[0]), state['headers'], body)
    return fetch


def get(fetch, tile):
    return fetch(tile.url)


# -- CRS helpers -----------------------------------------------------------------------------------------

_URN_RE = re.compile(r'^urn:(?:x-)?ogc:def:crs:([A-Za-z]+):[^:]*:(\w+)$')
_URL_RE = re.compile(r'^https?://www\.opengis\.net/(?:def|gml/srs)/(?:crs/)?([A-Za-z]+)(?:/[^/]*/|\.xml#)(\w+)$')


def crs_canonical(text):
    """'EPSG:4326', 'urn:ogc:def:crs:EPSG::4326', 'OSGEO:41001', 'EPSG:900913' ... -> 'EPSG:<code>' / 'CRS:84'."""
    t = (text or '').strip()
    m = _URN_RE.match(t) or _URL_RE.match(t)
    if m:
        t = '%s:%s' % (m.group(1), m.group(2))
    t = t.upper()
    if t in ('OGC:CRS84', 'CRS:84', 'CRS84'):
        return 'CRS:84'
    if t in ('OSGEO:41001', 'EPSG:900913', 'EPSG:3785', 'EPSG:102100', 'EPSG:102113'):
        return 'EPSG:3857'          # all are spherical mercator on the WGS84 semi-major axis
    if not re.match(r'^[A-Z]+:\w+$', t):
        raise ClientError('unusable CRS identifier %r' % (text,))
    return t


_crs_cache = {}


def _crs(text):
    code = crs_canonical(text)
    if code not in _crs_cache:
        import pyproj
        _crs_cache[code] = pyproj.CRS.from_user_input('EPSG:4326' if code == 'CRS:84' else code)
    return _crs_cache[code]


def crs_north_east(text):
    """True if the CRS definition lists northing / latitude first."""
    if crs_canonical(text) == 'CRS:84':
        return False
    info = _crs(text).axis_info
    return bool(info) and info[0].direction.lower() in ('north', 'south')


def crs_metres_per_unit(text):
    crs = _crs(text)
    if crs.is_geographic:
        return METRES_PER_DEGREE
    info = crs.axis_info
    f = info[0].unit_conversion_factor if info else 1.0
    return Fr(f)


# -- common ----------------------------------------------------------------------------------------------

def _num(text, what):
    try:
        return Fr(str(text).strip())
    except (ValueError, ZeroDivisionError, AttributeError):
        raise ClientError('%s is not a number: %r' % (what, text))


def _parse_xml(body, what):
    from lxml import etree
    parser = etree.XMLParser(resolve_entities=False, no_network=True, load_dtd=False, huge_tree=False)
    try:
        return etree.fromstring(body, parser)
    except etree.XMLSyntaxError as e:
        raise ClientError('%s is not well-formed XML: %s' % (what, e))


def _fetch_xml(fetch, url, what):
    r = fetch(url)
    if r.status != 200:
        raise ClientError('%s: HTTP %d for %s' % (what, r.status, url))
    return _parse_xml(r.body, what)


def _floor(v):
    return math.floor(v)


def _ceil(v):
    return math.ceil(v)


def _range_intersecting(lo, hi, origin, span, downwards=False):
    """Indices of the cells [origin + i*span, origin + (i+1)*span] (or downwards from origin) that
    intersect [lo, hi] with positive length -> (first, last) inclusive, may be empty (first > last)."""
    if downwards:
        first = _floor((origin - hi) / span)
        last = _ceil((origin - lo) / span) - 1
    else:
        first = _floor((lo - origin) / span)
        last = _ceil((hi - origin) / span) - 1
    return first, last


class Tile(object):
    def __init__(self, service, url, srs, rect, size, level, col, row, res=None, extra=None):
        self.service = service
        self.url = url
        self.srs = srs
        self.rect = tuple(rect)
        self.size = size
        self.level = level
        self.col = col
        self.row = row
        self.res = res
        self.extra = extra or {}

    def frect(self):
        return tuple(float(v) for v in self.rect)

    def key(self):
        return (self.service, self.level, self.col, self.row)

    def describe(self):
        return {'service': self.service, 'url': self.url, 'srs': self.srs, 'rect': list(self.frect()),
                'size': list(self.size) if self.size else None, 'level': self.level, 'col': self.col, 'row': self.row}

    def __repr__(self):
        return 'Tile(%s %s)' % (self.service, self.url)


def rect_close(a, b, tol):
    return all(abs(p - q) <= tol for p, q in zip(a, b))


def _index_if_integral(v, tol):
    i = round(v)
    return i if abs(v - i) <= tol else None


# -- TMS 1.0.0 -------------------------------------------------------------------------------------------

class TMSTileMapRef(object):
    def __init__(self, title, srs, profile, href):
        self.title, self.srs, self.profile, self.href = title, srs, profile, href


class TMSTileSet(object):
    def __init__(self, href, upp, order):
        self.href, self.upp, self.order = href, upp, order


class TMSTileMap(object):
    def __init__(self, root, href):
        if root.tag != 'TileMap':
            raise ClientError('TMS TileMap document has root element %r' % root.tag)
        self.href = href
        self.title = root.findtext('Title') or ''
        self.srs_raw = (root.findtext('SRS') or '').strip()
        self.srs = crs_canonical(self.srs_raw)
        bb = root.find('BoundingBox')
        og = root.find('Origin')
        tf = root.find('TileFormat')
        ts = root.find('TileSets')
        if bb is None or og is None or tf is None or ts is None:
            raise ClientError('TMS TileMap lacks BoundingBox / Origin / TileFormat / TileSets')
        self.bbox = tuple(_num(bb.get(k), 'BoundingBox/@' + k) for k in ('minx', 'miny', 'maxx', 'maxy'))
        self.origin = (_num(og.get('x'), 'Origin/@x'), _num(og.get('y'), 'Origin/@y'))
        self.tile_size = (int(_num(tf.get('width'), 'TileFormat/@width')), int(_num(tf.get('height'), 'TileFormat/@height')))
        self.mime = tf.get('mime-type')
        self.extension = tf.get('extension')
        self.profile = ts.get('profile')
        self.tilesets = []
        for el in ts.findall('TileSet'):
            self.tilesets.append(TMSTileSet(el.get('href'), _num(el.get('units-per-pixel'), 'TileSet/@units-per-pixel'),
                                            el.get('order')))
        if self.tile_size[0] <= 0 or self.tile_size[1] <= 0 or any(t.upp <= 0 for t in self.tilesets):
            raise ClientError('TMS TileMap with non-positive tile size / units-per-pixel')
        if not (self.bbox[0] < self.bbox[2] and self.bbox[1] < self.bbox[3]):
            raise ClientError('TMS TileMap with empty BoundingBox')

    def span(self, i):
        upp = self.tilesets[i].upp
        return upp * self.tile_size[0], upp * self.tile_size[1]

    def tile_rect(self, i, x, y):
        sx, sy = self.span(i)
        x0 = self.origin[0] + x * sx
        y0 = self.origin[1] + y * sy
        return (x0, y0, x0 + sx, y0 + sy)

    def tile_range(self, i, min_overlap_px=0):
        """Tiles that overlap <BoundingBox> by more than min_overlap_px pixels of that TileSet in both axes
        (0: any positive area).  (x_lo, x_hi, y_lo, y_hi) inclusive; empty if lo > hi."""
        sx, sy = self.span(i)
        m = self.tilesets[i].upp * min_overlap_px
        x_lo, x_hi = _range_intersecting(self.bbox[0] + m, self.bbox[2] - m, self.origin[0], sx)
        y_lo, y_hi = _range_intersecting(self.bbox[1] + m, self.bbox[3] - m, self.origin[1], sy)
        return x_lo, x_hi, y_lo, y_hi

    def advertised(self, i, x, y, min_overlap_px=0):
        x_lo, x_hi, y_lo, y_hi = self.tile_range(i, min_overlap_px)
        return x_lo <= x <= x_hi and y_lo <= y <= y_hi

    def tile_url(self, i, x, y):
        return '%s/%d/%d.%s' % (self.tilesets[i].href.rstrip('/'), x, y, self.extension)

    def tile(self, i, x, y):
        return Tile('tms', self.tile_url(i, x, y), self.srs, self.tile_rect(i, x, y), self.tile_size, i, x, y,
                    res=self.tilesets[i].upp, extra={'order': self.tilesets[i].order, 'profile': self.profile})

    def locate(self, rect, tol_spans=Fr(1, 10 ** 6), min_overlap_px=0):
        """Advertised addresses whose rectangle equals `rect` (within tol_spans tile spans)."""
        out = []
        for i in range(len(self.tilesets)):
            sx, sy = self.span(i)
            if abs((rect[2] - rect[0]) - sx) > tol_spans * sx or abs((rect[3] - rect[1]) - sy) > tol_spans * sy:
                continue
            x = _index_if_integral((rect[0] - self.origin[0]) / sx, tol_spans)
            y = _index_if_integral((rect[1] - self.origin[1]) / sy, tol_spans)
            if x is not None and y is not None and self.advertised(i, x, y, min_overlap_px):
                out.append((i, x, y))
        return out


class TMSClient(object):
    def __init__(self, fetch, root_url):
        self.fetch = fetch
        self.root_url = root_url
        root = _fetch_xml(fetch, root_url, 'TMS TileMapService document')
        if root.tag != 'TileMapService':
            raise ClientError('TMS root resource has root element %r' % root.tag)
        self.tilemap_refs = []
        for el in root.findall('TileMaps/TileMap'):
            self.tilemap_refs.append(TMSTileMapRef(el.get('title'), el.get('srs'), el.get('profile'), el.get('href')))

    def tilemap(self, href):
        return TMSTileMap(_fetch_xml(self.fetch, href, 'TMS TileMap document'), href)


# -- WMTS 1.0.0 ------------------------------------------------------------------------------------------

def _q(ns, tag):
    return '{%s}%s' % (ns, tag)


class WMTSMatrix(object):
    def __init__(self, el, north_east, mpu):
        self.identifier = (el.findtext(_q(NS_OWS, 'Identifier')) or '').strip()
        self.scale_denominator = _num(el.findtext(_q(NS_WMTS, 'ScaleDenominator')), 'ScaleDenominator')
        corner = (el.findtext(_q(NS_WMTS, 'TopLeftCorner')) or '').split()
        if len(corner) != 2:
            raise ClientError('TopLeftCorner of matrix %r is not two numbers' % self.identifier)
        a, b = _num(corner[0], 'TopLeftCorner'), _num(corner[1], 'TopLeftCorner')
        self.top_left = (b, a) if north_east else (a, b)   # stored x (east), y (north)
        self.tile_w = int(_num(el.findtext(_q(NS_WMTS, 'TileWidth')), 'TileWidth'))
        self.tile_h = int(_num(el.findtext(_q(NS_WMTS, 'TileHeight')), 'TileHeight'))
        self.matrix_w = int(_num(el.findtext(_q(NS_WMTS, 'MatrixWidth')), 'MatrixWidth'))
        self.matrix_h = int(_num(el.findtext(_q(NS_WMTS, 'MatrixHeight')), 'MatrixHeight'))
        self.res = self.scale_denominator * PIXEL_SIZE_M / mpu
        if self.res <= 0 or min(self.tile_w, self.tile_h, self.matrix_w, self.matrix_h) <= 0:
            raise ClientError('TileMatrix %r with non-positive scale / size' % self.identifier)

    def span(self):
        return self.res * self.tile_w, self.res * self.tile_h


class WMTSMatrixSet(object):
    def __init__(self, el):
        self.identifier = (el.findtext(_q(NS_OWS, 'Identifier')) or '').strip()
        self.crs_raw = (el.findtext(_q(NS_OWS, 'SupportedCRS')) or '').strip()
        self.crs = crs_canonical(self.crs_raw)
        self.north_east = crs_north_east(self.crs_raw)
        mpu = crs_metres_per_unit(self.crs_raw)
        self.matrices = [WMTSMatrix(m, self.north_east, mpu) for m in el.findall(_q(NS_WMTS, 'TileMatrix'))]


class WMTSLayer(object):
    def __init__(self, el):
        self.identifier = (el.findtext(_q(NS_OWS, 'Identifier')) or '').strip()
        self.formats = [(f.text or '').strip() for f in el.findall(_q(NS_WMTS, 'Format'))]
        self.styles = []
        self.default_style = None
        for s in el.findall(_q(NS_WMTS, 'Style')):
            sid = (s.findtext(_q(NS_OWS, 'Identifier')) or '').strip()
            self.styles.append(sid)
            if s.get('isDefault') == 'true' and self.default_style is None:
                self.default_style = sid
        if self.default_style is None and self.styles:
            self.default_style = self.styles[0]
        self.links = []
        for l in el.findall(_q(NS_WMTS, 'TileMatrixSetLink')):
            tms = (l.findtext(_q(NS_WMTS, 'TileMatrixSet')) or '').strip()
            limits = None
            lim = l.find(_q(NS_WMTS, 'TileMatrixSetLimits'))
            if lim is not None:
                limits = {}
                for tl in lim.findall(_q(NS_WMTS, 'TileMatrixLimits')):
                    limits[(tl.findtext(_q(NS_WMTS, 'TileMatrix')) or '').strip()] = tuple(
                        int(_num(tl.findtext(_q(NS_WMTS, k)), k))
                        for k in ('MinTileCol', 'MaxTileCol', 'MinTileRow', 'MaxTileRow'))
            self.links.append((tms, limits))
        self.tile_templates = [(r.get('format'), r.get('template')) for r in el.findall(_q(NS_WMTS, 'ResourceURL'))
                               if r.get('resourceType') == 'tile']
        self.dimensions = {}
        for d in el.findall(_q(NS_WMTS, 'Dimension')):
            self.dimensions[(d.findtext(_q(NS_OWS, 'Identifier')) or '').strip()] = (d.findtext(_q(NS_WMTS, 'Default')) or '').strip()


class WMTSClient(object):
    def __init__(self, fetch, capabilities_url):
        self.fetch = fetch
        self.capabilities_url = capabilities_url
        root = _fetch_xml(fetch, capabilities_url, 'WMTS capabilities')
        if root.tag != _q(NS_WMTS, 'Capabilities'):
            raise ClientError('WMTS capabilities has root element %r' % root.tag)
        self.kvp_url = None
        for op in root.findall('%s/%s' % (_q(NS_OWS, 'OperationsMetadata'), _q(NS_OWS, 'Operation'))):
            if op.get('name') != 'GetTile':
                continue
            for g in op.findall('%s/%s/%s' % (_q(NS_OWS, 'DCP'), _q(NS_OWS, 'HTTP'), _q(NS_OWS, 'Get'))):
                values = [(v.text or '').strip().upper() for v in g.iter(_q(NS_OWS, 'Value'))]
                if not values or 'KVP' in values:
                    self.kvp_url = g.get(_q(NS_XLINK, 'href'))
        contents = root.find(_q(NS_WMTS, 'Contents'))
        self.layers = {}
        self.matrix_sets = {}
        if contents is not None:
            for el in contents.findall(_q(NS_WMTS, 'Layer')):
                lyr = WMTSLayer(el)
                self.layers[lyr.identifier] = lyr
            for el in contents.findall(_q(NS_WMTS, 'TileMatrixSet')):
                ms = WMTSMatrixSet(el)
                self.matrix_sets[ms.identifier] = ms
        for lyr in self.layers.values():
            for tms, _ in lyr.links:
                if tms not in self.matrix_sets:
                    raise ClientError('layer %r links the undeclared TileMatrixSet %r' % (lyr.identifier, tms))

    def _limits(self, layer, tms, mi):
        m = self.matrix_sets[tms].matrices[mi]
        lo_c, hi_c, lo_r, hi_r = 0, m.matrix_w - 1, 0, m.matrix_h - 1
        for name, limits in self.layers[layer].links:
            if name == tms and limits is not None:
                if m.identifier not in limits:
                    return (0, -1, 0, -1)
                a, b, c, d = limits[m.identifier]
                lo_c, hi_c, lo_r, hi_r = max(lo_c, a), min(hi_c, b), max(lo_r, c), min(hi_r, d)
        return lo_c, hi_c, lo_r, hi_r

    def tile_range(self, layer, tms, mi):
        return self._limits(layer, tms, mi)

    def tile_rect(self, tms, mi, col, row):
        m = self.matrix_sets[tms].matrices[mi]
        sx, sy = m.span()
        x0 = m.top_left[0] + col * sx
        y1 = m.top_left[1] - row * sy
        return (x0, y1 - sy, x0 + sx, y1)

    def tile_url(self, layer, tms, mi, col, row, encoding='kvp', fmt=None):
        lyr = self.layers[layer]
        m = self.matrix_sets[tms].matrices[mi]
        fmt = fmt or (lyr.formats[0] if lyr.formats else 'image/png')
        style = lyr.default_style or 'default'
        if encoding == 'kvp':
            if not self.kvp_url:
                raise ClientError('capabilities advertise no KVP GetTile endpoint')
            base = self.kvp_url
            if '?' not in base:
                base += '?'
            elif not base.endswith(('?', '&')):
                base += '&'
            params = [('SERVICE', 'WMTS'), ('REQUEST', 'GetTile'), ('VERSION', '1.0.0'), ('LAYER', layer),
                      ('STYLE', style), ('TILEMATRIXSET', tms), ('TILEMATRIX', m.identifier),
                      ('TILEROW', str(row)), ('TILECOL', str(col)), ('FORMAT', fmt)]
            return base + '&'.join('%s=%s' % (k, quote(v, safe='/:')) for k, v in params)
        templates = [t for f, t in lyr.tile_templates if f == fmt] or [t for f, t in lyr.tile_templates]
        if not templates:
            raise ClientError('layer %r has no ResourceURL of resourceType tile' % layer)
        url = templates[0]
        subst = {'Style': style, 'style': style, 'TileMatrixSet': tms, 'TileMatrix': m.identifier,
                 'TileRow': str(row), 'TileCol': str(col)}
        for dim, default in lyr.dimensions.items():
            subst[dim] = default
        for k, v in subst.items():
            url = url.replace('{%s}' % k, quote(v, safe=':'))
        if '{' in url:
            raise ClientError('ResourceURL template has unknown variables: %s' % url)
        return url

    def tile(self, layer, tms, mi, col, row, encoding='kvp', fmt=None):
        ms = self.matrix_sets[tms]
        m = ms.matrices[mi]
        return Tile('wmts-' + encoding, self.tile_url(layer, tms, mi, col, row, encoding, fmt), ms.crs,
                    self.tile_rect(tms, mi, col, row), (m.tile_w, m.tile_h), mi, col, row, res=m.res,
                    extra={'matrix': m.identifier, 'matrix_set': tms, 'layer': layer})

    def locate(self, layer, rect, tol_spans=Fr(1, 10 ** 6)):
        out = []
        for tms, _ in self.layers[layer].links:
            for mi, m in enumerate(self.matrix_sets[tms].matrices):
                sx, sy = m.span()
                if abs((rect[2] - rect[0]) - sx) > tol_spans * sx or abs((rect[3] - rect[1]) - sy) > tol_spans * sy:
                    continue
                col = _index_if_integral((rect[0] - m.top_left[0]) / sx, tol_spans)
                row = _index_if_integral((m.top_left[1] - rect[3]) / sy, tol_spans)
                if col is None or row is None:
                    continue
                lo_c, hi_c, lo_r, hi_r = self._limits(layer, tms, mi)
                if lo_c <= col <= hi_c and lo_r <= row <= hi_r:
                    out.append((tms, mi, col, row))
        return out


# -- WMS-C -----------------------------------------------------------------------------------------------

class WMSCTileSet(object):
    def __init__(self, el):
        self.srs_raw = (el.findtext('SRS') or '').strip()
        self.srs = crs_canonical(self.srs_raw)
        bb = el.find('BoundingBox')
        if bb is None:
            raise ClientError('WMS-C TileSet without BoundingBox')
        self.bbox = tuple(_num(bb.get(k), 'TileSet/BoundingBox/@' + k) for k in ('minx', 'miny', 'maxx', 'maxy'))
        self.resolutions = [_num(v, 'Resolutions') for v in (el.findtext('Resolutions') or '').split()]
        self.width = int(_num(el.findtext('Width'), 'Width'))
        self.height = int(_num(el.findtext('Height'), 'Height'))
        self.format = (el.findtext('Format') or '').strip()
        self.layers = (el.findtext('Layers') or '').strip()
        self.styles = (el.findtext('Styles') or '').strip()
        if not self.resolutions or min(self.resolutions) <= 0 or self.width <= 0 or self.height <= 0:
            raise ClientError('WMS-C TileSet with non-positive resolution / size')


def _fmt_coord(v):
    return repr(float(v))


class WMSCClient(object):
    def __init__(self, fetch, capabilities_url):
        self.fetch = fetch
        root = _fetch_xml(fetch, capabilities_url, 'WMS 1.1.1 capabilities')
        if root.tag != 'WMT_MS_Capabilities':
            raise ClientError('WMS capabilities has root element %r' % root.tag)
        res = root.find('Capability/Request/GetMap/DCPType/HTTP/Get/OnlineResource')
        if res is None:
            raise ClientError('WMS capabilities without GetMap endpoint')
        self.getmap_url = res.get(_q(NS_XLINK, 'href'))
        self.tilesets = [WMSCTileSet(el) for el in root.findall('Capability/VendorSpecificCapabilities/TileSet')]

    def span(self, ts, li):
        r = ts.resolutions[li]
        return r * ts.width, r * ts.height

    def tile_rect(self, ts, li, x, y):
        sx, sy = self.span(ts, li)
        x0 = ts.bbox[0] + x * sx
        y0 = ts.bbox[1] + y * sy
        return (x0, y0, x0 + sx, y0 + sy)

    def tile_range(self, ts, li, min_overlap_px=0):
        sx, sy = self.span(ts, li)
        m = ts.resolutions[li] * min_overlap_px
        x_lo, x_hi = _range_intersecting(ts.bbox[0] + m, ts.bbox[2] - m, ts.bbox[0], sx)
        y_lo, y_hi = _range_intersecting(ts.bbox[1] + m, ts.bbox[3] - m, ts.bbox[1], sy)
        return x_lo, x_hi, y_lo, y_hi

    def tile_url(self, ts, li, x, y):
        rect = self.tile_rect(ts, li, x, y)
        base = self.getmap_url
        if '?' not in base:
            base += '?'
        elif not base.endswith(('?', '&')):
            base += '&'
        params = [('SERVICE', 'WMS'), ('VERSION', '1.1.1'), ('REQUEST', 'GetMap'), ('LAYERS', ts.layers),
                  ('STYLES', ts.styles), ('SRS', ts.srs_raw), ('BBOX', ','.join(_fmt_coord(v) for v in rect)),
                  ('WIDTH', str(ts.width)), ('HEIGHT', str(ts.height)), ('FORMAT', ts.format), ('TILED', 'true')]
        return base + '&'.join('%s=%s' % (k, quote(v, safe='/:,')) for k, v in params)

    def tile(self, ts, li, x, y):
        return Tile('wmsc', self.tile_url(ts, li, x, y), ts.srs, self.tile_rect(ts, li, x, y), (ts.width, ts.height),
                    li, x, y, res=ts.resolutions[li], extra={'layers': ts.layers})

    def locate(self, ts, rect, tol_spans=Fr(1, 10 ** 6), min_overlap_px=0):
        out = []
        for li in range(len(ts.resolutions)):
            sx, sy = self.span(ts, li)
            if abs((rect[2] - rect[0]) - sx) > tol_spans * sx or abs((rect[3] - rect[1]) - sy) > tol_spans * sy:
                continue
            x = _index_if_integral((rect[0] - ts.bbox[0]) / sx, tol_spans)
            y = _index_if_integral((rect[1] - ts.bbox[1]) / sy, tol_spans)
            if x is None or y is None:
                continue
            x_lo, x_hi, y_lo, y_hi = self.tile_range(ts, li, min_overlap_px)
            if x_lo <= x <= x_hi and y_lo <= y <= y_hi:
                out.append((li, x, y))
        return out


# -- KML 2.2 super-overlay ---------------------------------------------------------------------------------

def _kml_box(el, what):
    if el is None:
        raise ClientError('%s without box' % what)
    vals = {}
    for k in ('west', 'south', 'east', 'north'):
        vals[k] = _num(el.findtext(_q(NS_KML, k)), what + '/' + k)
    return (vals['west'], vals['south'], vals['east'], vals['north'])


class KMLLink(object):
    def __init__(self, href, box, name):
        self.href, self.box, self.name = href, box, name


class KMLOverlay(object):
    def __init__(self, href, box, name, draw_order):
        self.href, self.box, self.name, self.draw_order = href, box, name, draw_order

    def tile(self):
        return Tile('kml', self.href, 'EPSG:4326', self.box, None, self.draw_order, None, None,
                    extra={'name': self.name})


class KMLDocument(object):
    def __init__(self, root, url):
        if root.tag != _q(NS_KML, 'kml'):
            raise ClientError('KML document has root element %r' % root.tag)
        self.url = url
        self.links = []
        self.overlays = []
        for nl in root.iter(_q(NS_KML, 'NetworkLink')):
            href = nl.findtext('%s/%s' % (_q(NS_KML, 'Link'), _q(NS_KML, 'href')))
            if not href:
                raise ClientError('NetworkLink without Link/href')
            box = _kml_box(nl.find('%s/%s' % (_q(NS_KML, 'Region'), _q(NS_KML, 'LatLonAltBox'))), 'NetworkLink/Region')
            self.links.append(KMLLink(urljoin(url, href.strip()), box, nl.findtext(_q(NS_KML, 'name'))))
        for go in root.iter(_q(NS_KML, 'GroundOverlay')):
            href = go.findtext('%s/%s' % (_q(NS_KML, 'Icon'), _q(NS_KML, 'href')))
            if not href:
                raise ClientError('GroundOverlay without Icon/href')
            box = _kml_box(go.find(_q(NS_KML, 'LatLonBox')), 'GroundOverlay/LatLonBox')
            order = go.findtext(_q(NS_KML, 'drawOrder'))
            self.overlays.append(KMLOverlay(urljoin(url, href.strip()), box, go.findtext(_q(NS_KML, 'name')),
                                            int(order) if order and order.strip().lstrip('-').isdigit() else None))


class KMLClient(object):
    def __init__(self, fetch):
        self.fetch = fetch

    def document(self, url):
        return KMLDocument(_fetch_xml(self.fetch, url, 'KML document'), url)
