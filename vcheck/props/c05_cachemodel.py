"""C05 - Every cache backend behaves like a map from tile address to bytes.

Model-based check of the public cache API (store_tile(s), load_tile(s), is_cached, remove_tile(s)) of
every storage backend that works offline, against a dict.  See DESIGN.md section 6.

Three generators feed one executor/oracle (class Executor):
  * a Hypothesis RuleBasedStateMachine per backend variant (random, long histories),
  * a bounded-exhaustive enumeration of all length-3 sequences (hence also all shorter ones, as
    prefixes) over a fixed alphabet of mutating operations on a 4-address pool per variant,
  * "big batch" cases that cross the 999-argument split of the sqlite based backends.

Every backend object is built by MapProxy's own configuration loader from a YAML file, so only
configurations a user can write are exercised (see Env).
"""
import errno
import itertools
import os
import queue
import shutil
import struct
import tempfile
import threading
import time
import zlib
from io import BytesIO

from hypothesis import strategies as st
from hypothesis.stateful import RuleBasedStateMachine, rule, initialize

from .. import core

PROPERTY = 'C05'
LEVEL = 'exploration'
RULE = ('Per backend variant (file x {tc,mp,tms,reverse_tms,quadkey,arcgis} x link_single_color_images {off,symlink,'
        'hardlink} x layer dimensions {off,on}; mbtiles; sqlite per level; geopackage; geopackage per level; compact '
        'v1, v2 - each built by the configuration loader from YAML) a Hypothesis state machine draws an address pool '
        'from the collision set (x,y in {0,1,126..129,255,256,999..1001,9999,10000,16383,16384,65535,65536,999999,'
        '1000000} within a factor-2 pyramid, level 0..22, swapped x/y, same x/y at other levels, neighbours across '
        '128-bundle and decimal digit-group borders, dimension dicts differing in one value or only in "/" vs "_" '
        'inside a value) and runs up to 30 of: '
        'store_tile, store_tiles, load_tile, load_tiles (single level, optional None tiles), is_cached, remove_tile(s), '
        'load_tile_metadata, the tile-manager call sequence (bulk load miss -> is_cached -> store on the same Tile '
        'objects), cleanup, reopen - issued through one of 1-3 backend objects opened side by side on the same '
        'storage and, optionally, from a second long-lived thread (another sqlite connection). After EVERY operation '
        'every pool address is read back through load_tile, is_cached and (grouped by level and dimension) load_tiles '
        'with fresh Tile objects, through the acting object/thread and one other, and compared with a shared dict. '
        'Plus: all 3-operation sequences over an alphabet of mutating operations on 4-address pools per variant '
        '(bounded exhaustive), all 2-operation sequences whose second operation goes through another object / thread, '
        'and row batches of 2..1000 tiles through the bulk paths. A history is non-trivial '
        'when it contains an overwrite or a remove of a present tile followed by the read-back, a bulk operation '
        'touching level 0 or spanning a bundle / digit-group / level-database border, or two present addresses that '
        'share a bundle, an (x,y) pair, a single-colour link target or all but a dimension value; distinct = distinct '
        '(variant, pool, operation list).')
ASSUMPTIONS = [
    'reference model: dict address -> bytes; address = (x, y, level, frozenset of lower-cased dimension items); '
    'dimensions None and {} are the same address',
    'caller preconditions respected: bulk loads are single-level and carry one dimensions dict (TileManager, '
    '_create_meta_tile), no duplicate address inside one bulk call, addresses inside a factor-2 pyramid '
    '(0 <= x,y < 2**level, what grid.limit_tile guarantees), dimension values may contain "/" (WMS time intervals) '
    'but no ".." components or leading separators (leaving the cache directory is C09), '
    'dimensions only with the file backend (the loader refuses a dimension layer on every other backend)',
    'link_single_color_images stores one file per colour by design: single-colour payloads are canonical '
    '(same bytes for the same colour) and use RGB / RGBA / palette mode',
    'payload bytes pass through unchanged (tile sources carry already encoded PNG bytes, as tiles from a tiled '
    'source or a split meta tile do after encoding)',
    'return values of store/remove calls and of load_tiles are not judged (the property speaks about what loads '
    'return); inconsistent ones are only counted in notes',
    'up to three backend objects on one storage and (sqlite backends: thread-local connections) a second thread, '
    'used strictly one call after the other - real concurrency is C07/C08; the model is shared: a load through '
    'any object/thread returns the latest store through any of them; mbtiles / sqlite caches are configured with '
    'sqlite_timeout: 1 so that a wrongly held database lock costs a second (geopackage has no such option, 30 s)',
    'scratch directory on tmpfs when available (durability is C06)',
    'an exception raised by a well-formed cache API call counts as a violation (a load that raises does not '
    'return the stored bytes), except resource exhaustion of the harness machine (ENOSPC, EMFILE, ENOMEM)',
]

SIG_SQLITE_L0 = 'C05/sqlite-level/load_tiles/missing/level0'
SIG_GPKG_L0 = 'C05/geopackage-level/load_tiles/missing/level0'
SIG_QUADKEY_DIM = 'C05/file-quadkey/interference/dimension-sibling'
SIG_ARCGIS_DIM = 'C05/file-arcgis/interference/dimension-sibling'
SIG_DIM_SEPARATOR = 'C05/file/interference/dimension-separator-twin'
LEVEL0_SIGS = {'sqlite-level': SIG_SQLITE_L0, 'geopackage-level': SIG_GPKG_L0}
DIM_SIGS = {'file-quadkey': SIG_QUADKEY_DIM, 'file-arcgis': SIG_ARCGIS_DIM}


def open_sigs():
    """Open known findings; VERIF_ASSUME_FIXED=all (or a comma separated signature list) switches the
    exclusions off - used only to verify a proposed fix on a scratch copy."""
    sigs = core.open_signatures(PROPERTY)
    assume = os.environ.get('VERIF_ASSUME_FIXED', '')
    if assume == 'all':
        return set()
    return sigs - set(s for s in assume.split(',') if s)


# ------------------------------------------------------------------------------------------------
# backend variants

LAYOUTS = ['tc', 'mp', 'tms', 'reverse_tms', 'quadkey', 'arcgis']
LINKS = [None, 'symlink', 'hardlink']


def all_variants():
    out = []
    for layout in LAYOUTS:
        for link in LINKS:
            for dims in (False, True):
                name = 'file-' + layout + ('-' + link if link else '') + ('-dims' if dims else '')
                out.append({'name': name, 'family': 'file-' + layout, 'type': 'file', 'layout': layout,
                            'link': link, 'dims': dims})
    for name, typ, extra in (('mbtiles', 'mbtiles', {}), ('sqlite-level', 'sqlite', {}),
                             ('geopackage', 'geopackage', {}), ('geopackage-level', 'geopackage', {'levels': True}),
                             ('compact-v1', 'compact', {'version': 1}), ('compact-v2', 'compact', {'version': 2})):
        out.append({'name': name, 'family': name, 'type': typ, 'extra': extra, 'link': None, 'dims': False})
    return out


VARIANTS = all_variants()
VARIANT_BY_NAME = dict((v['name'], v) for v in VARIANTS)
SQLITE_FAMILIES = ('mbtiles', 'sqlite-level', 'geopackage', 'geopackage-level')
SQLITE_TIMEOUT = 1

DIM_LAYER = {'time': {'values': ['2020-08-25T00:00:00Z', '2020-08-26T00:00:00Z'], 'default': '2020-08-25T00:00:00Z'},
             'elevation': {'values': ['700', '850', 'default'], 'default': 'default'},
             'dim_level': {'values': ['1', '2'], 'default': '1'}}
T1, T2 = '2020-08-25T00:00:00Z', '2020-08-26T00:00:00Z'
DIM_CHOICES = [
    {'time': T1}, {'time': T2},
    {'time': T1, 'elevation': '700'}, {'time': T1, 'elevation': '850'}, {'time': T2, 'elevation': '700'},
    {'time': T1, 'elevation': 'default', 'dim_level': '1'}, {'time': T1, 'elevation': 'default', 'dim_level': '2'},
    None,
    # a WMS time interval (start/end/period) and the value that differs from it only in the separator character:
    # WMS GetMap forwards TIME / ELEVATION / DIM_* values unchecked, so both reach the cache as dimension values
    {'time': '2020-08-25/2020-08-26/P1D'}, {'time': '2020-08-25_2020-08-26_P1D'},
]


def separator_twins(a, b):
    """two different dimension keys that become equal when path separators are replaced by '_'"""
    def norm(k):
        return tuple((n.replace('/', '_').replace('\\', '_'), v.replace('/', '_').replace('\\', '_')) for n, v in k)
    return a != b and norm(a) == norm(b)


def scratch_root():
    base = '/dev/shm' if os.path.isdir('/dev/shm') and os.access('/dev/shm', os.W_OK | os.X_OK) else None
    return tempfile.mkdtemp(prefix='vcheck-c05-', dir=base)


class Env(object):
    """A scratch directory with a mapproxy.yaml for one backend variant.  The backend objects are created
    by the loader (`CacheConfiguration._tile_cache`, the function `caches()` uses), never by hand."""

    def __init__(self, variant, link_value=None):
        import yaml
        from mapproxy.config.loader import load_configuration
        self.variant = variant
        self.root = scratch_root()
        self.lives = []
        try:
            cache = {'type': variant['type']}
            cache.update(variant.get('extra') or {})
            if variant['type'] == 'file':
                cache['directory_layout'] = variant['layout']
            if variant['type'] in ('mbtiles', 'sqlite'):
                # plain cache option; a wrongly held database lock then costs a second, not the default 30 s
                cache['sqlite_timeout'] = SQLITE_TIMEOUT
            glob = {'base_dir': './cd', 'lock_dir': './locks', 'tile_lock_dir': './tile_locks'}
            if variant.get('link'):
                glob['link_single_color_images'] = link_value if link_value is not None else variant['link']
            layer = {'name': 'l', 'title': 'l', 'sources': ['c']}
            if variant.get('dims'):
                layer['dimensions'] = DIM_LAYER
            conf = {
                'services': {'tms': {}, 'wmts': {}},
                'grids': {'g': {'base': 'GLOBAL_MERCATOR', 'num_levels': 23}},
                'sources': {'s': {'type': 'wms', 'req': {'url': 'http://127.0.0.1:1/service', 'layers': 'x'}}},
                'caches': {'c': {'grids': ['g'], 'sources': ['s'], 'cache': cache, 'format': 'image/png'}},
                'layers': [layer],
                'globals': {'cache': glob},
            }
            self.conf = conf
            path = os.path.join(self.root, 'mapproxy.yaml')
            with open(path, 'w') as f:
                yaml.safe_dump(conf, f)
            pc = load_configuration(path, ignore_warnings=False)
            self.cache_conf = pc.caches['c']
            grid, extent, mgr = self.cache_conf.caches()[0]
            # a dimension layer on a backend that does not support it is refused here (ConfigurationError)
            tile_layers = pc.layers['l'].tile_layers()
            if len(tile_layers) != 1:
                raise core.HarnessError('expected one tile layer for %s' % variant['name'])
            self.image_opts = mgr.image_opts
            self.grid_conf = self.cache_conf.grid_confs()[0][1]
            self.first = mgr.cache
            self._close(self.first)
            self.cache_class = type(self.first).__name__
        except BaseException:
            shutil.rmtree(self.root, ignore_errors=True)
            raise

    @staticmethod
    def _close(cache):
        if cache is not None and hasattr(cache, 'cleanup'):
            cache.cleanup()

    def new_object(self):
        """one more backend object on the existing directory (another process / worker)"""
        obj = self.cache_conf._tile_cache(self.grid_conf, self.image_opts)
        self.lives.append(obj)
        return obj

    def release(self, obj):
        self._close(obj)
        self.lives = [o for o in self.lives if o is not obj]

    def fresh(self):
        """empty cache directory + new backend object"""
        for obj in self.lives:
            self._close(obj)
        self.lives = []
        shutil.rmtree(os.path.join(self.root, 'cd'), ignore_errors=True)
        return self.new_object()

    def close(self):
        try:
            for obj in self.lives:
                self._close(obj)
        finally:
            self.lives = []
            shutil.rmtree(self.root, ignore_errors=True)


# ------------------------------------------------------------------------------------------------
# payloads: tiny valid PNGs written without PIL (fast, deterministic)

def _chunk(tag, data):
    return struct.pack('>I', len(data)) + tag + data + struct.pack('>I', zlib.crc32(tag + data) & 0xffffffff)


def _png(width, height, color_type, rows, palette=None):
    out = b'\x89PNG\r\n\x1a\n' + _chunk(b'IHDR', struct.pack('>IIBBBBB', width, height, 8, color_type, 0, 0, 0))
    if palette is not None:
        out += _chunk(b'PLTE', palette)
    raw = b''.join(b'\x00' + r for r in rows)
    return out + _chunk(b'IDAT', zlib.compress(raw, 1)) + _chunk(b'IEND', b'')


SINGLE_COLOURS = [('rgb', (255, 0, 0)), ('rgb', (0, 0, 254)), ('rgba', (0, 0, 0, 0)), ('p', (10, 20, 30))]
_payload_cache = {}


def payload_bytes(p):
    key = (p['k'], p.get('n'), p.get('c'))
    b = _payload_cache.get(key)
    if b is not None:
        return b
    if p['k'] == 'u':
        n = int(p['n'])
        px = [((n >> 16) & 255, (n >> 8) & 255, n & 255), (1, 2, 3), (200, 100, 50), (255 - (n & 255), 7, 9)]
        rows = [bytes(v for q in (px[(r + c) % 4] for c in range(4)) for v in q) for r in range(4)]
        b = _png(4, 4, 2, rows)
    else:
        mode, col = SINGLE_COLOURS[p['c'] % len(SINGLE_COLOURS)]
        if mode == 'rgb':
            b = _png(4, 4, 2, [bytes(col) * 4] * 4)
        elif mode == 'rgba':
            b = _png(4, 4, 6, [bytes(col) * 4] * 4)
        else:
            b = _png(4, 4, 3, [b'\x00' * 4] * 4, palette=bytes(col) + bytes((99, 98, 97)))
    if len(_payload_cache) < 5000:
        _payload_cache[key] = b
    return b


# ------------------------------------------------------------------------------------------------
# executor + oracle

ENV_ERRNOS = (errno.ENOSPC, errno.EMFILE, errno.ENFILE, errno.ENOMEM, errno.EDQUOT)


class Worker(object):
    """A second thread that stays alive for one history: the sqlite backends keep one connection per thread,
    so calls issued here use another connection of the same backend object.  Strictly sequential: the caller
    waits for every call."""

    def __init__(self):
        self.q = queue.Queue()
        self.thread = threading.Thread(target=self._loop, name='c05-second-thread')
        self.thread.daemon = True
        self.thread.start()

    def _loop(self):
        while True:
            item = self.q.get()
            if item is None:
                return
            fn, box, done = item
            try:
                box['r'] = fn()
            except BaseException as e:   # handed back to the caller
                box['e'] = e
            done.set()

    def run(self, fn):
        box, done = {}, threading.Event()
        self.q.put((fn, box, done))
        done.wait()
        if 'e' in box:
            raise box['e']
        return box['r']

    def stop(self):
        self.q.put(None)
        self.thread.join()


class CacheRaised(Exception):
    def __init__(self, opname, exc):
        Exception.__init__(self, '%s raised %r' % (opname, exc))
        self.opname = opname
        self.exc = exc


def dimkey(d):
    if not d:
        return ()
    return tuple(sorted((str(k).lower(), str(v)) for k, v in d.items()))


def coord_relation(a, b):
    ax, ay, az = a
    bx, by, bz = b
    if (ax, ay) == (bx, by):
        return 'same-xy-other-level'
    if (ax, ay) == (by, bx):
        return 'swapped-xy' if az == bz else 'swapped-xy-other-level'
    if az == bz:
        if (ax // 128, ay // 128) == (bx // 128, by // 128):
            return 'same-bundle'
        if (ax % 128, ay % 128) == (bx % 128, by % 128):
            return 'same-slot-other-bundle'
        if (ax % 1000, ay % 1000) == (bx % 1000, by % 1000):
            return 'same-digits-other-digit-group'
        return 'same-level'
    return 'other'


MUTATING = ('store_tile', 'store_tiles', 'remove_tile', 'remove_tiles', 'fetch_through')
READ_PATHS = ('load_tiles', 'load_tile', 'is_cached')
BYTE_SYMPTOMS = ('stale-bytes', 'foreign-bytes', 'corrupt-bytes')


class Executor(object):
    """Applies operations (plain dicts) to one backend, keeps the dict model, and after every operation reads
    every pool address back through all read paths.  Used by the state machine, the enumerator and replay."""

    def __init__(self, env, addrs, stats, exclude=frozenset(), link_value=None, objects=1, threads=False):
        from mapproxy.cache.tile import Tile, TileCollection
        from mapproxy.image import ImageSource
        self.Tile, self.TileCollection, self.ImageSource = Tile, TileCollection, ImageSource
        self.env = env
        self.v = env.variant
        self.family = self.v['family']
        self.stats = stats
        self.exclude = exclude
        self.link_value = link_value
        self.addrs = [((int(a[0]), int(a[1]), int(a[2])), (dict(a[3]) if a[3] else None)) for a in addrs]
        self.keys = [(c, dimkey(d)) for c, d in self.addrs]
        if len(set(self.keys)) != len(self.keys):
            raise core.HarnessError('duplicate address in pool %r' % (addrs,))
        if not self.v.get('dims') and any(k[1] for k in self.keys):
            raise core.HarnessError('dimension address on a backend the loader refuses dimensions for')
        self.model = {}
        self.colour = {}      # key -> single-colour index of the current value
        self.past = {}        # key -> set of earlier values
        self.ops = []
        self.features = set()
        self.opcount = {}
        self.skip_l0_bulk = LEVEL0_SIGS.get(self.family) in exclude
        self.excluded_l0 = 0
        self._last_mutated = []
        self.n_objects = max(1, min(3, int(objects)))
        self.threads = bool(threads)
        self.worker = None
        self._o, self._t = 0, 0
        self.last_mutator = None
        self.slow_calls = 0
        self.caches = [env.fresh()]
        while len(self.caches) < self.n_objects:
            self.caches.append(env.new_object())

    @property
    def cache(self):
        """the backend object the current operation goes through"""
        return self.caches[self._o]

    # -- plumbing ---------------------------------------------------------------------------------
    def case(self):
        return {'kind': 'history', 'variant': self.v['name'], 'link_value': self.link_value,
                'objects': self.n_objects, 'threads': self.threads,
                'addrs': [[c[0], c[1], c[2], d] for c, d in self.addrs], 'ops': list(self.ops)}

    def close(self):
        try:
            for obj in self.caches:
                if self.worker is not None:
                    self.worker.run(lambda obj=obj: Env._close(obj))
                self.env.release(obj)
        finally:
            if self.worker is not None:
                self.worker.stop()
                self.worker = None

    def _call(self, opname, fn, *args, **kw):
        t0 = time.time()
        try:
            if self._t:
                if self.worker is None:
                    self.worker = Worker()
                return self.worker.run(lambda: fn(*args, **kw))
            return fn(*args, **kw)
        except MemoryError:
            raise
        except OSError as e:
            if e.errno in ENV_ERRNOS:
                raise
            raise CacheRaised(opname, e)
        except Exception as e:
            raise CacheRaised(opname, e)
        finally:
            if time.time() - t0 >= 0.5 * SQLITE_TIMEOUT:
                self.slow_calls += 1    # statistics only (a lock wait shows up here), never a verdict

    def _dimarg(self, d, salt=0):
        if d:
            return dict(d)
        if self.v.get('dims') or (len(self.ops) + salt) % 2:
            return None
        return {}   # what a tile layer without dimensions passes (checked_dimensions)

    def _new_tile(self, coord, payload):
        t = self.Tile(coord)
        t.source = self.ImageSource(BytesIO(payload_bytes(payload)))
        return t

    def _bytes(self, tile):
        src = tile.source
        if src is None:
            return None
        try:
            buf = src.as_buffer()
            data = buf.read()
        finally:
            src.close_buffers()
        return data

    def _viol(self, parts, message, key=None):
        sig = '/'.join(['C05', self.family] + list(parts))
        if key is not None and key[0][2] == 0:
            sig += '/level0'
        return core.Violation(sig, '[%s] %s (after %d operations)' % (self.v['name'], message, len(self.ops)), self.case())

    def _symptom(self, key, got):
        exp = self.model.get(key)
        if got == exp:
            return None
        if exp is None:
            return 'ghost'
        if got is None:
            return 'missing'
        if any(got == v for k, v in self.model.items() if k != key):
            return 'foreign-bytes'
        if got in self.past.get(key, ()):
            return 'stale-bytes'
        return 'corrupt-bytes'

    # -- model updates ----------------------------------------------------------------------------
    def _set(self, key, payload):
        old = self.model.get(key)
        if old is not None:
            self.past.setdefault(key, set()).add(old)
            self.features.add('overwrite-then-load')
        self.model[key] = payload_bytes(payload)
        self.colour[key] = payload['c'] % len(SINGLE_COLOURS) if payload['k'] == 'sc' else None

    def _del(self, key):
        old = self.model.pop(key, None)
        if old is not None:
            self.past.setdefault(key, set()).add(old)
            self.features.add('remove-then-load')
        self.colour.pop(key, None)

    def _bulk_features(self, idxs, opname):
        coords = [self.addrs[i][0] for i in idxs if i is not None]
        if not coords:
            return
        if any(c[2] == 0 for c in coords):
            self.features.add('bulk-level0')
        if len(set(c[2] for c in coords)) > 1:
            self.features.add('bulk-mixed-levels')
        if len(set((c[0] // 128, c[1] // 128, c[2]) for c in coords)) > 1 and len(set(c[2] for c in coords)) == 1:
            self.features.add('bulk-across-bundle-border')
        if len(set((c[0] // 1000, c[1] // 1000) for c in coords)) > 1:
            self.features.add('bulk-across-digit-group')

    def _shared_features(self):
        present = [k for k in self.keys if k in self.model]
        for a, b in itertools.combinations(present, 2):
            if a[0] == b[0]:
                self.features.add('present:dimension-siblings')
                continue
            rel = coord_relation(a[0], b[0])
            if rel in ('same-xy-other-level', 'same-bundle', 'swapped-xy'):
                self.features.add('present:' + rel)
            if self.v.get('link') and self.colour.get(a) is not None and self.colour.get(a) == self.colour.get(b):
                self.features.add('present:same-colour-link')

    # -- operations -------------------------------------------------------------------------------
    def apply(self, op):
        """returns None or a core.Violation"""
        self.ops.append(op)
        name = op['op']
        self.opcount[name] = self.opcount.get(name, 0) + 1
        self._o = int(op.get('o', 0)) % len(self.caches)
        self._t = 1 if (self.threads and op.get('t')) else 0
        actor = (self._o, self._t)
        if name in MUTATING:
            if self.last_mutator is not None and self.last_mutator != actor:
                self.features.add('mutation-after-mutation-through-other-' +
                                  ('object' if self.last_mutator[0] != actor[0] else 'thread'))
            self.last_mutator = actor
        try:
            v = getattr(self, '_op_' + name)(op)
            if v is None:
                v = self.check_all(op)
        except CacheRaised as e:
            return self._viol([e.opname, 'exception', type(e.exc).__name__],
                              '%s raised %r' % (e.opname, e.exc))
        self._shared_features()
        return v

    def _same_dims(self, idxs):
        ks = set(self.keys[i][1] for i in idxs if i is not None)
        if len(ks) > 1:
            raise core.HarnessError('bulk operation over several dimension dicts: %r' % (idxs,))
        for i in idxs:
            if i is not None:
                return self.addrs[i][1]
        return None

    def _op_store_tile(self, op):
        coord, d = self.addrs[op['a']]
        t = self._new_tile(coord, op['p'])
        self._call('store_tile', self.cache.store_tile, t, dimensions=self._dimarg(d))
        self._set(self.keys[op['a']], op['p'])

    def _op_store_tiles(self, op):
        idxs = op['as']
        if len(set(idxs)) != len(idxs):
            raise core.HarnessError('duplicate address in bulk store')
        d = self._same_dims(idxs)
        tiles = [self._new_tile(self.addrs[i][0], p) for i, p in zip(idxs, op['ps'])]
        ret = self._call('store_tiles', self.cache.store_tiles, tiles, dimensions=self._dimarg(d))
        if ret is False:
            self.stats.notes['store_tiles-returned-False-on-success:' + self.family] += 1
        for i, p in zip(idxs, op['ps']):
            self._set(self.keys[i], p)
        self._bulk_features(idxs, 'store_tiles')

    def _op_remove_tile(self, op):
        coord, d = self.addrs[op['a']]
        self._call('remove_tile', self.cache.remove_tile, self.Tile(coord), dimensions=self._dimarg(d))
        self._del(self.keys[op['a']])

    def _op_remove_tiles(self, op):
        idxs = op['as']
        d = self._same_dims(idxs)
        tiles = [self.Tile(self.addrs[i][0]) for i in idxs]
        self._call('remove_tiles', self.cache.remove_tiles, tiles, dimensions=self._dimarg(d))
        for i in idxs:
            self._del(self.keys[i])
        self._bulk_features(idxs, 'remove_tiles')

    def _op_load_tile(self, op):
        key = self.keys[op['a']]
        coord, d = self.addrs[op['a']]
        t = self.Tile(coord)
        ret = self._call('load_tile', self.cache.load_tile, t, with_metadata=bool(op.get('md')),
                         dimensions=self._dimarg(d))
        got = self._bytes(t)
        if bool(ret) != (got is not None):
            self.stats.notes['load_tile-return-value-disagrees-with-source:' + self.family] += 1
        s = self._symptom(key, got)
        if s:
            return self._viol(['load_tile', s], 'load_tile(%r, dimensions=%r) -> %s' % (coord, d, s), key)

    def _level0_excluded(self, idxs):
        if not self.skip_l0_bulk:
            return False
        for i in idxs:
            if i is not None:
                return self.addrs[i][0][2] == 0
        return False

    def _op_load_tiles(self, op):
        idxs = op['as']
        real = [i for i in idxs if i is not None]
        if len(set(real)) != len(real) or len(set(self.addrs[i][0][2] for i in real)) > 1:
            raise core.HarnessError('bulk load must be single-level without duplicates: %r' % (idxs,))
        if self._level0_excluded(idxs):
            self.excluded_l0 += 1
            return None
        d = self._same_dims(idxs)
        tiles = [self.Tile(self.addrs[i][0] if i is not None else None) for i in idxs]
        arg = self.TileCollection([]) if op.get('coll') else None
        if arg is not None:
            arg.tiles = tiles
            arg.tiles_dict = dict((t.coord, t) for t in tiles)
        else:
            arg = tiles
        ret = self._call('load_tiles', self.cache.load_tiles, arg, bool(op.get('md')), dimensions=self._dimarg(d))
        self._bulk_features(idxs, 'load_tiles')
        all_present = all(self.keys[i] in self.model for i in real)
        if bool(ret) != all_present:
            self.stats.notes['load_tiles-return-value-disagrees-with-model:' + self.family] += 1
        for i, t in zip(idxs, tiles):
            if i is None:
                if t.source is not None:
                    return self._viol(['load_tiles', 'none-tile-filled'], 'load_tiles filled a tile without coord')
                continue
            s = self._symptom(self.keys[i], self._bytes(t))
            if s:
                return self._viol(['load_tiles', s], 'load_tiles(%r, dimensions=%r): tile %r -> %s'
                                  % ([self.addrs[j][0] if j is not None else None for j in idxs], d,
                                     self.addrs[i][0], s), self.keys[i])

    def _op_is_cached(self, op):
        key = self.keys[op['a']]
        coord, d = self.addrs[op['a']]
        ret = self._call('is_cached', self.cache.is_cached, self.Tile(coord), dimensions=self._dimarg(d))
        if bool(ret) != (key in self.model):
            return self._viol(['is_cached', 'ghost' if ret else 'missing'],
                              'is_cached(%r, dimensions=%r) = %r' % (coord, d, ret), key)

    def _op_load_tile_metadata(self, op):
        key = self.keys[op['a']]
        coord, d = self.addrs[op['a']]
        t = self.Tile(coord)
        self._call('load_tile_metadata', self.cache.load_tile_metadata, t, dimensions=self._dimarg(d))
        if t.source is not None:   # the sqlite backends implement it as a load
            s = self._symptom(key, self._bytes(t))
            if s:
                return self._viol(['load_tile_metadata', s], 'load_tile_metadata(%r) loaded %s data' % (coord, s), key)

    def _op_fetch_through(self, op):
        """the call sequence of TileManager._load_tile_coords / TileCreator on the SAME Tile objects:
        bulk load, is_cached on the missing ones, then store them (single or bulk)."""
        idxs = op['as']
        if len(set(self.addrs[i][0][2] for i in idxs)) > 1:
            raise core.HarnessError('fetch_through must be single-level')
        d = self._same_dims(idxs)
        tiles = [self.Tile(self.addrs[i][0]) for i in idxs]
        skip_bulk = self._level0_excluded(idxs)
        if skip_bulk:
            self.excluded_l0 += 1
            for t in tiles:
                self._call('load_tile', self.cache.load_tile, t, dimensions=self._dimarg(d))
        else:
            self._call('load_tiles', self.cache.load_tiles, tiles, False, dimensions=self._dimarg(d))
        self._bulk_features(idxs, 'fetch_through')
        missing = []
        for i, t, p in zip(idxs, tiles, op['ps']):
            s = self._symptom(self.keys[i], self._bytes(t))
            if s:
                return self._viol(['load_tile' if skip_bulk else 'load_tiles', s],
                                  'bulk load in the tile-manager sequence: tile %r -> %s' % (self.addrs[i][0], s),
                                  self.keys[i])
            if t.source is None:
                cached = self._call('is_cached', self.cache.is_cached, t, dimensions=self._dimarg(d))
                if cached:
                    return self._viol(['is_cached', 'ghost'], 'is_cached(%r) true right after a bulk-load miss'
                                      % (self.addrs[i][0],), self.keys[i])
                t.source = self.ImageSource(BytesIO(payload_bytes(p)))
                missing.append((i, t, p))
        if op.get('bulk'):
            if missing:
                self._call('store_tiles', self.cache.store_tiles, [t for _, t, _ in missing],
                           dimensions=self._dimarg(d))
        else:
            for _, t, _ in missing:
                self._call('store_tile', self.cache.store_tile, t, dimensions=self._dimarg(d))
        for i, _, p in missing:
            self._set(self.keys[i], p)
        self._last_mutated = [i for i, _, _ in missing]

    def _op_cleanup(self, op):
        # closes the connection of the calling thread only (connections are thread-local)
        self._call('cleanup', Env._close, self.cache)

    def _op_reopen(self, op):
        """replace the acting backend object by a new one on the same directory (process restart)"""
        old = self.cache
        if self.worker is not None:
            self.worker.run(lambda: Env._close(old))
        self.env.release(old)
        self.caches[self._o] = self.env.new_object()

    # -- read-back of the whole pool ----------------------------------------------------------------
    def _mutated_keys(self, op):
        name = op['op']
        if name in ('store_tile', 'remove_tile'):
            return [self.keys[op['a']]]
        if name in ('store_tiles', 'remove_tiles'):
            return [self.keys[i] for i in op['as']]
        if name == 'fetch_through':
            return [self.keys[i] for i in self._last_mutated]
        return []

    def check_all(self, op):
        """read the whole pool back through the acting object/thread and, when the history has more than one
        object or thread, through one other (rotating): a load through ANY of them returns the latest store
        through ANY of them"""
        acting = (self._o, self._t)
        views = [acting]
        k = len(self.caches)
        if k > 1 or self.threads:
            step = 1 + (len(self.ops) % max(1, k - 1)) if k > 1 else 0
            other = ((self._o + step) % k, (1 - self._t) if self.threads and (k == 1 or len(self.ops) % 2) else self._t)
            if other != acting:
                views.append(other)
        try:
            for vi, view in enumerate(views):
                self._o, self._t = view
                v = self._check_view(op, other=vi > 0)
                if v is not None:
                    return v
        finally:
            self._o, self._t = acting
        return None

    def _check_view(self, op, other=False):
        n = len(self.ops)
        res = dict((k, {}) for k in self.keys)
        for ai, (coord, d) in enumerate(self.addrs):
            key = self.keys[ai]
            t = self.Tile(coord)
            self._call('load_tile', self.cache.load_tile, t, with_metadata=bool((n + ai) % 3 == 0),
                       dimensions=self._dimarg(d, ai))
            res[key]['load_tile'] = self._symptom(key, self._bytes(t))
            c = self._call('is_cached', self.cache.is_cached, self.Tile(coord), dimensions=self._dimarg(d, ai + 1))
            res[key]['is_cached'] = None if bool(c) == (key in self.model) else ('ghost' if c else 'missing')
        groups = {}
        for ai, (coord, d) in enumerate(self.addrs):
            groups.setdefault((self.keys[ai][1], coord[2]), []).append(ai)
        for (dk, z), idxs in sorted(groups.items()):
            if self.skip_l0_bulk and z == 0:
                continue
            if n % 2:
                idxs = idxs[::-1]
            tiles = [self.Tile(self.addrs[i][0]) for i in idxs]
            if n % 3 == 1:
                tiles.insert(len(tiles) // 2, self.Tile(None))
                idxs = idxs[:len(idxs) // 2] + [None] + idxs[len(idxs) // 2:]
            self._call('load_tiles', self.cache.load_tiles, tiles, False,
                       dimensions=self._dimarg(self.addrs[[i for i in idxs if i is not None][0]][1], z))
            for i, t in zip(idxs, tiles):
                if i is not None:
                    res[self.keys[i]]['load_tiles'] = self._symptom(self.keys[i], self._bytes(t))
        mutated = self._mutated_keys(op)
        for key in self.keys:
            r = res[key]
            if not any(r.values()):
                continue
            r = dict(r)
            loads = [r[p] for p in ('load_tiles', 'load_tile') if p in r]
            if r.get('is_cached') is None and all(s_ in BYTE_SYMPTOMS for s_ in loads):
                # is_cached only sees presence: it cannot confirm or contradict wrong bytes
                r.pop('is_cached', None)
            bad = [p for p in READ_PATHS if r.get(p)]
            detail = ', '.join('%s: %s' % (p, r[p] or 'ok') for p in READ_PATHS if p in r)
            where = 'address %r dimensions %r' % (key[0], dict(key[1]) or None)
            if other:
                # the acting object/thread read everything back correctly, another one does not
                return self._viol(['other-connection', r.get('load_tile') or r[bad[0]]],
                                  '%s read through object %d%s: %s after %s through object %d%s' % (
                                      where, self._o, ' (second thread)' if self._t else '', detail, op['op'],
                                      int(op.get('o', 0)) % len(self.caches),
                                      ' (second thread)' if self.threads and op.get('t') else ''), key)
            if len(bad) < len(r):
                # the read paths disagree with each other -> defect of the deviating read path
                p = bad[0]
                return self._viol([p, r[p]], '%s: %s after %s' % (where, detail, op['op']), key)
            sym = r.get('load_tile') or r[bad[0]]
            if op['op'] not in MUTATING:
                return self._viol([op['op'], 'changed-state', sym], '%s: %s after the non-mutating %s'
                                  % (where, detail, op['op']), key)
            if key in mutated:
                return self._viol([op['op'], sym], '%s: %s right after %s of this address' % (where, detail, op['op']),
                                  key)
            rel = self._interference(key, mutated)
            v = self._viol(['interference', rel], '%s: %s after %s of %r' % (
                where, detail, op['op'], [(k[0], dict(k[1]) or None) for k in mutated]))
            if rel == 'dimension-separator-twin':
                v.signature = SIG_DIM_SEPARATOR   # root cause is the shared path.dimensions_part, not one layout
            return v
        return None

    def _interference(self, victim, mutated):
        if any(m[0] == victim[0] and separator_twins(m[1], victim[1]) for m in mutated):
            return 'dimension-separator-twin'
        if any(m[0] == victim[0] for m in mutated):
            return 'dimension-sibling'
        if self.v.get('link'):
            vc = set(self._colours_ever(victim))
            if vc and any(vc & set(self._colours_ever(m)) for m in mutated):
                return 'same-colour-link'
        order = ['same-xy-other-level', 'swapped-xy', 'swapped-xy-other-level', 'same-bundle',
                 'same-slot-other-bundle', 'same-digits-other-digit-group', 'same-level', 'other']
        rels = [coord_relation(victim[0], m[0]) for m in mutated]
        return min(rels, key=order.index) if rels else 'other'

    def _colours_ever(self, key):
        vals = set(self.past.get(key, ()))
        if key in self.model:
            vals.add(self.model[key])
        return [i for i in range(len(SINGLE_COLOURS)) if payload_bytes({'k': 'sc', 'c': i}) in vals]

    # -- statistics ---------------------------------------------------------------------------------
    def pool_classes(self):
        out = set()
        coords = [c for c, _ in self.addrs]
        if any(c[2] == 0 for c in coords):
            out.add('pool:level0')
        if any(v in (127, 128) for c in coords for v in c[:2]):
            out.add('pool:bundle-border-127/128')
        if any(v in (999, 1000, 9999, 10000, 999999, 1000000) for c in coords for v in c[:2]):
            out.add('pool:digit-group-border')
        if any(v >= 65536 for c in coords for v in c[:2]):
            out.add('pool:xy>=65536')
        for a, b in itertools.combinations(sorted(set(coords)), 2):
            if a[2] == b[2] and (a[0] == b[0] or a[1] == b[1]):
                d = abs(a[0] - b[0]) + abs(a[1] - b[1])
                for g in (10 ** 6, 10 ** 4, 10 ** 3):
                    if d and d % g == 0:
                        out.add('pool:twins-differing-by-k*%d' % g)
                        break
        for a, b in itertools.combinations(sorted(set(coords)), 2):
            out.add('pool:' + coord_relation(a, b))
        dks = sorted(set(k[1] for k in self.keys))
        if len(dks) > 1:
            out.add('pool:dimension-siblings')
        if any('/' in v for dk in dks for _, v in dk):
            out.add('pool:dimension-value-with-separator')
        if any(separator_twins(a, b) for a, b in itertools.combinations(dks, 2)):
            out.add('pool:dimension-separator-twins')
        return out

    def record(self):
        nontrivial = bool(self.features)
        classes = ['variant:' + self.v['name'], 'family:' + self.family] + sorted(self.pool_classes())
        classes += ['nt:' + f for f in sorted(self.features)]
        if len(self.ops) >= 20:
            classes.append('history>=20-ops')
        classes.append('objects:%d' % self.n_objects)
        if self.threads:
            classes.append('second-thread')
        if self.slow_calls:
            self.stats.notes['cache-calls-slower-than-%.1fs (lock wait?):%s' % (0.5 * SQLITE_TIMEOUT, self.family)] += self.slow_calls
        for name, cnt in self.opcount.items():
            self.stats.classes['op:' + name] += cnt
        if self.excluded_l0:
            self.stats.excluded['level-0 bulk load on %s (open finding %s)' % (
                self.family, LEVEL0_SIGS[self.family])] += self.excluded_l0
        case = self.case()
        self.stats.case(key=case, nontrivial=nontrivial, classes=classes, sample=case if len(self.ops) <= 12 else None)


# ------------------------------------------------------------------------------------------------
# address pools

XY = [0, 1, 126, 127, 128, 129, 255, 256, 999, 1000, 1001, 9999, 10000, 16383, 16384, 65535, 65536, 999999, 1000000]
LEVELS = [0, 0, 1, 1, 2, 7, 8, 8, 9, 10, 11, 14, 15, 17, 20, 22]
MAX_ADDRS = 18


def _xy(draw, z):
    vals = [v for v in XY if v < 2 ** z]
    return draw(st.sampled_from(vals))


def _valid(c):
    return 0 <= c[2] <= 22 and 0 <= c[0] < 2 ** c[2] and 0 <= c[1] < 2 ** c[2]


@st.composite
def pools(draw, variant, collapse_dims, no_twins=False):
    z = draw(st.sampled_from(LEVELS))
    base = (_xy(draw, z), _xy(draw, z), z)
    coords = [base]
    n_extra = draw(st.integers(1, 5))
    if draw(st.integers(0, 3)) == 0:
        # digit-group twins: addresses that differ by exactly k * 10^3 / 10^4 / 10^6 in x or in y (the group sizes
        # of the tc and mp directory layouts), which needs levels with more than 10^6 rows and columns
        z = draw(st.sampled_from([20, 21, 21, 22]))
        small = [0, 5, 7, 999, 1000, 12345]
        base = (draw(st.sampled_from(small)), draw(st.sampled_from(small)), z)
        coords = [base]
        for _ in range(n_extra):
            x, y, _z = coords[draw(st.integers(0, len(coords) - 1))]
            step = draw(st.sampled_from([1, 1, 2])) * draw(st.sampled_from([10 ** 3, 10 ** 4, 10 ** 6, 10 ** 6]))
            axis = draw(st.sampled_from(['x', 'y', 'y', 'xy']))
            c = (x + step if 'x' in axis else x, y + step if 'y' in axis else y, z)
            if _valid(c) and c not in coords:
                coords.append(c)
        n_extra = 0
    for _ in range(n_extra):
        ref = coords[draw(st.integers(0, len(coords) - 1))]
        kind = draw(st.sampled_from(['swap', 'other-level', 'other-level', 'neighbour', 'neighbour', 'block',
                                     'digits', 'level0', 'same-level', 'free']))
        x, y, zz = ref
        if kind == 'swap':
            c = (y, x, zz)
        elif kind == 'other-level':
            lo = max(x, y).bit_length()
            c = (x, y, draw(st.integers(lo, 22)))
        elif kind == 'neighbour':
            dx, dy = draw(st.sampled_from([(1, 0), (-1, 0), (0, 1), (0, -1), (1, 1), (-1, -1)]))
            c = (x + dx, y + dy, zz)
        elif kind == 'block':
            dx, dy = draw(st.sampled_from([(128, 0), (-128, 0), (0, 128), (0, -128), (128, 128)]))
            c = (x + dx, y + dy, zz)
        elif kind == 'digits':
            k = draw(st.sampled_from([1000, 10000, 1000000, -1000, -10000]))
            c = (x + k, y, zz) if draw(st.booleans()) else (x, y + k, zz)
        elif kind == 'level0':
            c = (0, 0, 0)
        elif kind == 'same-level':
            c = (_xy(draw, zz), _xy(draw, zz), zz)
        else:
            z2 = draw(st.sampled_from(LEVELS))
            c = (_xy(draw, z2), _xy(draw, z2), z2)
        if _valid(c) and c not in coords:
            if c[2] in set(q[2] for q in coords) or len(set(q[2] for q in coords)) < 4:
                coords.append(c)
    if variant.get('dims'):
        dims = draw(st.lists(st.sampled_from(DIM_CHOICES), min_size=2, max_size=3,
                             unique_by=lambda d: dimkey(d)))
        if no_twins:
            dims = [d for i, d in enumerate(dims)
                    if not any(separator_twins(dimkey(d), dimkey(e)) for e in dims[:i])]
        if collapse_dims:
            dims = dims[:1]
    else:
        dims = [None]
    addrs = [[c[0], c[1], c[2], d] for d in dims for c in coords]
    return addrs[:MAX_ADDRS]


def enum_pools(variant, tier, collapse_dims):
    """4-address pools for the bounded-exhaustive part, chosen to collide in the backend's internal addressing"""
    fam = variant['family']
    if variant.get('dims'):
        a, b = {'time': T1}, {'time': T2}
        if collapse_dims:
            b = a
            pools_ = [[[0, 0, 0, a], [0, 0, 1, a], [1, 0, 1, a], [0, 1, 1, a]]]
        else:
            pools_ = [[[0, 0, 0, a], [0, 0, 0, b], [0, 0, 1, a], [0, 0, 0, None]],
                      [[1, 0, 1, a], [1, 0, 1, b], [0, 1, 1, b], [1, 0, 1, {'time': T1, 'elevation': '700'}]],
                      [[999, 1000, 10, a], [999, 1000, 10, b], [1000, 999, 10, a], [999, 1000, 11, b]]]
    elif fam.startswith('compact'):
        pools_ = [[[127, 127, 8, None], [128, 127, 8, None], [127, 255, 8, None], [126, 127, 8, None]],
                  [[127, 127, 8, None], [127, 128, 8, None], [255, 255, 8, None], [127, 127, 9, None]],
                  [[0, 0, 0, None], [0, 0, 1, None], [1, 0, 1, None], [0, 1, 1, None]]]
    elif fam.startswith('file'):
        pools_ = [[[0, 0, 0, None], [0, 0, 1, None], [1, 0, 1, None], [0, 1, 1, None]],
                  [[999, 1000, 10, None], [1000, 999, 10, None], [999, 1000, 11, None], [0, 999, 10, None]],
                  [[5, 7, 21, None], [5, 1000007, 21, None], [1000005, 7, 21, None], [10005, 7, 21, None]]]
    else:
        pools_ = [[[0, 0, 0, None], [0, 0, 1, None], [1, 0, 1, None], [0, 1, 1, None]],
                  [[1, 2, 2, None], [2, 1, 2, None], [1, 2, 3, None], [0, 0, 0, None]],
                  [[127, 128, 8, None], [128, 127, 8, None], [127, 128, 9, None], [0, 0, 8, None]]]
    return pools_[:1] if tier == 'quick' else pools_


def enum_alphabet(variant, addrs):
    """mutating operations of the enumerated space (reads happen after every operation anyway)"""
    ops = []
    n = len(addrs)
    for a in range(n):
        ops.append({'op': 'store_tile', 'a': a, 'p': {'k': 'u'}})
    if variant.get('link'):
        for a in range(n):
            ops.append({'op': 'store_tile', 'a': a, 'p': {'k': 'sc', 'c': 0}})
    for a in range(n):
        ops.append({'op': 'remove_tile', 'a': a})
    for a, b in itertools.combinations(range(n), 2):
        if dimkey(addrs[a][3]) == dimkey(addrs[b][3]):
            ops.append({'op': 'store_tiles', 'as': [a, b], 'ps': [{'k': 'u'}, {'k': 'u'}]})
    ops.append({'op': 'reopen'})
    return ops


def concretise(op, n):
    op = dict(op)
    if 'p' in op:
        op['p'] = dict(op['p'])
        if op['p']['k'] == 'u':
            op['p']['n'] = n
    if 'ps' in op:
        op['ps'] = [dict(p, n=n * 10 + j) if p['k'] == 'u' else dict(p) for j, p in enumerate(op['ps'])]
    return op


# ------------------------------------------------------------------------------------------------
# state machine

IDX = st.integers(0, 63)
WHO = st.one_of(st.none(), st.integers(0, 5))    # None: the object/thread of the previous operation
PKIND = st.sampled_from(['u', 'u', 'u', 'sc', 'sc'])


def make_machine(variant, env, exclude, link_value):
    collapse = DIM_SIGS.get(variant['family']) in exclude and variant.get('dims')
    no_twins = SIG_DIM_SEPARATOR in exclude

    class CacheMachine(RuleBasedStateMachine):
        def __init__(self):
            super(CacheMachine, self).__init__()
            self.ex = None
            self.counter = 0
            self.dead = False
            self.who = 0

        @initialize(addrs=pools(variant, collapse, no_twins), objects=st.sampled_from([1, 2, 2, 3]),
                    threads=st.booleans())
        def setup(self, addrs, objects, threads):
            self.ex = Executor(env, addrs, self._stats, exclude=exclude, link_value=link_value,
                               objects=objects, threads=threads)
            if collapse:
                self._stats.excluded['%s: dimension values collapsed to one per history (open finding %s)' % (
                    variant['family'], DIM_SIGS[variant['family']])] += 1
            if no_twins and variant.get('dims'):
                self._stats.excluded['dimension values differing only in "/" vs "_" never in one pool (open finding '
                                     '%s)' % SIG_DIM_SEPARATOR] += 1

        def teardown(self):
            if self.ex is not None:
                try:
                    self.ex.record()
                finally:
                    self.ex.close()

        # helpers ---------------------------------------------------------------------------------
        def _payload(self, kind, col):
            if kind == 'u':
                self.counter += 1
                return {'k': 'u', 'n': self.counter}
            return {'k': 'sc', 'c': col}

        def _do(self, op, who=None):
            if who is not None:
                self.who = who
            op['o'] = self.who % self.ex.n_objects
            op['t'] = (self.who // 3) % 2 if self.ex.threads else 0
            if self.dead:
                # the backend already diverged from the model through an already reported root cause;
                # anything observed later in this history would only be a consequence of it
                return
            v = self.ex.apply(op)
            if v is not None:
                self.dead = True
                if v.signature not in self._ignored_signatures:
                    raise core.MachineViolation(v)
                self._stats.notes['history-cut-at-already-reported-signature'] += 1

        def _group(self, sel, mask, rot, by_level):
            groups = {}
            for i, key in enumerate(self.ex.keys):
                groups.setdefault((key[1], key[0][2] if by_level else None), []).append(i)
            names = sorted(groups, key=lambda g: (g[0], -1 if g[1] is None else g[1]))
            idxs = groups[names[sel % len(names)]]
            picked = [i for j, i in enumerate(idxs) if (mask >> j) & 1] or [idxs[sel % len(idxs)]]
            r = rot % len(picked)
            return picked[r:] + picked[:r]

        # rules -----------------------------------------------------------------------------------
        @rule(i=IDX, kind=PKIND, col=st.integers(0, 3), who=WHO)
        def store_tile(self, i, kind, col, who):
            self._do({'op': 'store_tile', 'a': i % len(self.ex.addrs), 'p': self._payload(kind, col)}, who)

        @rule(sel=IDX, mask=st.integers(0, 2 ** 12 - 1), rot=IDX, kinds=st.lists(PKIND, min_size=12, max_size=12),
              col=st.integers(0, 3), by_level=st.booleans(), who=WHO)
        def store_tiles(self, sel, mask, rot, kinds, col, by_level, who):
            idxs = self._group(sel, mask, rot, by_level)
            self._do({'op': 'store_tiles', 'as': idxs, 'ps': [self._payload(k, col) for k in kinds[:len(idxs)]]}, who)

        @rule(i=IDX, md=st.booleans())
        def load_tile(self, i, md):
            self._do({'op': 'load_tile', 'a': i % len(self.ex.addrs), 'md': md})

        @rule(sel=IDX, mask=st.integers(0, 2 ** 12 - 1), rot=IDX, nones=st.integers(0, 7), md=st.booleans(),
              coll=st.booleans())
        def load_tiles(self, sel, mask, rot, nones, md, coll):
            idxs = self._group(sel, mask, rot, True)
            if nones & 1:
                idxs = [None] + idxs
            if nones & 2:
                idxs = idxs + [None]
            if nones & 4 and len(idxs) > 1:
                idxs = idxs[:1] + [None] + idxs[1:]
            self._do({'op': 'load_tiles', 'as': idxs, 'md': md, 'coll': coll})

        @rule(i=IDX)
        def is_cached(self, i):
            self._do({'op': 'is_cached', 'a': i % len(self.ex.addrs)})

        @rule(i=IDX)
        def load_tile_metadata(self, i):
            self._do({'op': 'load_tile_metadata', 'a': i % len(self.ex.addrs)})

        @rule(i=IDX, who=WHO)
        def remove_tile(self, i, who):
            self._do({'op': 'remove_tile', 'a': i % len(self.ex.addrs)}, who)

        @rule(sel=IDX, mask=st.integers(0, 2 ** 12 - 1), rot=IDX, by_level=st.booleans(), who=WHO)
        def remove_tiles(self, sel, mask, rot, by_level, who):
            self._do({'op': 'remove_tiles', 'as': self._group(sel, mask, rot, by_level)}, who)

        @rule(sel=IDX, mask=st.integers(0, 2 ** 12 - 1), rot=IDX, kinds=st.lists(PKIND, min_size=12, max_size=12),
              col=st.integers(0, 3), bulk=st.booleans(), who=WHO)
        def fetch_through(self, sel, mask, rot, kinds, col, bulk, who):
            idxs = self._group(sel, mask, rot, True)
            self._do({'op': 'fetch_through', 'as': idxs, 'ps': [self._payload(k, col) for k in kinds[:len(idxs)]],
                      'bulk': bulk}, who)

        @rule(kind=st.sampled_from(['reopen', 'reopen', 'cleanup']), who=WHO)
        def reopen_or_cleanup(self, kind, who):
            self._do({'op': kind}, who)

        @rule(who=st.integers(0, 5))
        def act_through(self, who):
            """the following operations go through backend object who % objects, from the second thread if who >= 3"""
            self.who = who

    CacheMachine.__name__ = 'C05_' + variant['name'].replace('-', '_')
    return CacheMachine


# ------------------------------------------------------------------------------------------------
# big batches through the bulk paths (999-argument split of the sqlite backends, many bundles)

BATCH_SIZES = [2, 127, 129, 300, 332, 333, 334, 335, 400, 666, 667, 1000]


@st.composite
def batch_cases(draw, variant, sizes):
    n = draw(st.sampled_from(sizes))
    z = draw(st.sampled_from([10, 11, 12, 15, 20]))
    x0 = draw(st.sampled_from([0, 1, 100, 127, 900, 999]))
    y = draw(st.sampled_from([v for v in XY if v < 2 ** z]))
    return {'kind': 'bigbatch', 'variant': variant['name'], 'n': n, 'z': z, 'x0': x0, 'y': y,
            'axis': draw(st.sampled_from(['x', 'y'])),
            'stored': draw(st.sampled_from(['all', 'all', 'even', 'first-last', 'all-but-last', 'none'])),
            'chunk': draw(st.sampled_from([0, 0, 100, 333, 334])),
            'reverse': draw(st.booleans()), 'remove': draw(st.sampled_from(['none', 'odd', 'first', 'last']))}


def run_bigbatch(case, stats, env=None):
    from mapproxy.cache.tile import Tile
    from mapproxy.image import ImageSource
    from io import BytesIO
    variant = VARIANT_BY_NAME[case['variant']]
    own = env is None
    if own:
        env = Env(variant)
    cache = env.fresh()
    fam = variant['family']
    n, z, x0, y = case['n'], case['z'], case['x0'], case['y']
    coords = [((x0 + i, y, z) if case['axis'] == 'x' else (y, x0 + i, z)) for i in range(n)]
    coords = [c for c in coords if _valid(c)]
    sel = {'all': lambda i: True, 'even': lambda i: i % 2 == 0, 'first-last': lambda i: i in (0, len(coords) - 1),
           'all-but-last': lambda i: i != len(coords) - 1, 'none': lambda i: False}[case['stored']]
    model = {}

    def viol(parts, msg):
        return core.Violation('/'.join(['C05', fam] + parts), '[%s] %s' % (variant['name'], msg), case)

    def call(name, fn, *a, **kw):
        try:
            return fn(*a, **kw)
        except MemoryError:
            raise
        except OSError as e:
            if e.errno in ENV_ERRNOS:
                raise
            raise CacheRaised(name, e)
        except Exception as e:
            raise CacheRaised(name, e)

    def bulk_check(label):
        order = coords[::-1] if case['reverse'] else coords
        tiles = [Tile(c) for c in order]
        call('load_tiles', cache.load_tiles, tiles, False, dimensions=None)
        for t in tiles:
            got = None
            if t.source is not None:
                try:
                    got = t.source.as_buffer().read()
                finally:
                    t.source.close_buffers()
            exp = model.get(t.coord)
            if got != exp:
                sym = 'ghost' if exp is None else 'missing' if got is None else 'foreign-bytes'
                return viol(['load_tiles', sym, 'batch'], 'bulk load of %d tiles %s: tile %r -> %s'
                            % (len(tiles), label, t.coord, sym))
        # spot check through the single path
        for c in (coords[0], coords[len(coords) // 2], coords[-1]):
            t = Tile(c)
            call('load_tile', cache.load_tile, t)
            got = None
            if t.source is not None:
                try:
                    got = t.source.as_buffer().read()
                finally:
                    t.source.close_buffers()
            if got != model.get(c):
                return viol(['store_tiles', 'batch'], 'single load of %r disagrees with the model %s' % (c, label))
        return None

    v = None
    try:
        try:
            todo = []
            for i, c in enumerate(coords):
                if sel(i):
                    t = Tile(c)
                    b = payload_bytes({'k': 'u', 'n': i + 1})
                    t.source = ImageSource(BytesIO(b))
                    todo.append(t)
                    model[c] = b
            chunk = case['chunk'] or len(todo) or 1
            for k in range(0, len(todo), chunk):
                call('store_tiles', cache.store_tiles, todo[k:k + chunk], dimensions=None)
            v = bulk_check('after the bulk store')
            if v is None and case['remove'] != 'none':
                rm = {'odd': lambda i: i % 2 == 1, 'first': lambda i: i == 0,
                      'last': lambda i: i == len(coords) - 1}[case['remove']]
                tiles = [Tile(c) for i, c in enumerate(coords) if rm(i)]
                call('remove_tiles', cache.remove_tiles, tiles)
                for t in tiles:
                    model.pop(t.coord, None)
                v = bulk_check('after remove_tiles')
        except CacheRaised as e:
            v = viol([e.opname, 'exception', type(e.exc).__name__, 'batch'], '%s raised %r with a batch of %d tiles'
                     % (e.opname, e.exc, len(coords)))
    finally:
        Env._close(cache)
        if own:
            env.close()
    nt = len(coords) > 333 or len(set((c[0] // 128, c[1] // 128) for c in coords)) > 1
    classes = ['bigbatch', 'bigbatch:' + fam]
    if len(coords) > 333:
        classes.append('bigbatch>333-tiles')
    if len(coords) > 666:
        classes.append('bigbatch>666-tiles')
    stats.case(key=case, nontrivial=nt, classes=classes, sample=case)
    return v


# ------------------------------------------------------------------------------------------------
# work units, sharding

def enum_units(variant, tier, collapse):
    """(pool index, depth, nparts) of the bounded-exhaustive part of one variant; heavy enumerations are split
    by the first operation of the sequence so that they spread over the worker processes"""
    fam = variant['family']
    nparts = {'compact-v1': 6, 'geopackage-level': 6, 'geopackage': 3, 'sqlite-level': 3, 'mbtiles': 2,
              'compact-v2': 2}.get(fam, 2 if variant.get('link') else 1)
    units = [(pi, 3, nparts) for pi in range(len(enum_pools(variant, tier, collapse)))]
    if tier == 'thorough' and fam.startswith('file') and not variant.get('link') and not variant.get('dims'):
        units.append((0, 4, 15))
    return units


def selected_variants():
    """all variants; VERIF_C05_ONLY=<name>[,<name>...] restricts a run to some variants (development aid for
    quick sensitivity runs on a busy machine - such a run is marked `restricted_to` and never `exhaustive`)"""
    only = [n for n in os.environ.get('VERIF_C05_ONLY', '').split(',') if n]
    if not only:
        return VARIANTS
    return [v for v in VARIANTS if v['name'] in only or v['family'] in only]


def _tasks(tier, exclude):
    """work units, most expensive first; every unit is one job of the process pool"""
    tasks = []
    for v in selected_variants():
        collapse = bool(DIM_SIGS.get(v['family']) in exclude and v.get('dims'))
        for pi, depth, nparts in enum_units(v, tier, collapse):
            for part in range(nparts):
                tasks.append(('enum', v['name'], pi, depth, part, nparts))
        tasks.append(('enum2', v['name']))
        nm = 1 if tier == 'quick' else 4
        for k in range(nm):
            tasks.append(('machine', v['name'], k, nm))
        tasks.append(('batch', v['name']))
    cost = {'enum': 0, 'machine': 1, 'enum2': 2, 'batch': 3}
    return sorted(tasks, key=lambda t: (cost[t[0]], t[1:]))


def run_enum(variant, env, stats, tier, exclude, pool_index=0, depth=3, part=0, nparts=1):
    collapse = bool(DIM_SIGS.get(variant['family']) in exclude and variant.get('dims'))
    addrs = enum_pools(variant, tier, collapse)[pool_index]
    alphabet = enum_alphabet(variant, addrs)
    local = core.Stats()
    nontrivial = 0
    total = 0
    for seq in itertools.product(range(len(alphabet)), repeat=depth):
        if seq[0] % nparts != part:
            continue
        ex = Executor(env, addrs, local, exclude=exclude)
        v = None
        try:
            for pos, k in enumerate(seq):
                v = ex.apply(concretise(alphabet[k], (pos + 1) * 100 + k))
                if v is not None:
                    break
        finally:
            ex.close()
        total += 1
        if ex.features:
            nontrivial += 1
        for f in ex.features:
            stats.classes['enum-nt:' + f] += 1
        if ex.excluded_l0:
            stats.excluded['level-0 bulk load on %s (open finding %s)' % (
                variant['family'], LEVEL0_SIGS[variant['family']])] += ex.excluded_l0
        if v is not None:
            stats.violations.append(v)
            stats.evaluations += total
            stats.extra['exhaustive_aborted'] = stats.extra.get('exhaustive_aborted', 0) + 1
            return False
    stats.evaluations += total
    stats.notes.update(local.notes)
    stats.extra['exhaustive_sequences'] = stats.extra.get('exhaustive_sequences', 0) + total
    stats.extra['exhaustive_nontrivial_sequences'] = stats.extra.get('exhaustive_nontrivial_sequences', 0) + nontrivial
    stats.nontrivial.add(core.case_hash(('enum', variant['name'], addrs, depth, part, nparts)))
    stats.classes['enum-unit-completed'] += 1
    stats.classes['enum-depth-%d-sequences' % depth] += total
    if collapse:
        stats.excluded['%s: dimension values collapsed to one per history (open finding %s)' % (
            variant['family'], DIM_SIGS[variant['family']])] += total
    return True


def run_enum2(variant, env, stats, tier, exclude):
    """all 2-operation sequences where the second operation goes through ANOTHER backend object on the same
    storage (and, for the sqlite based backends, another thread = another connection of the same or the other
    object) than the first; read-back through both after every operation"""
    collapse = bool(DIM_SIGS.get(variant['family']) in exclude and variant.get('dims'))
    sq = variant['family'] in SQLITE_FAMILIES
    actors = [(1, 0)] + ([(0, 1), (1, 1)] if sq else [])
    local = core.Stats()
    for addrs in enum_pools(variant, tier, collapse):
        alphabet = enum_alphabet(variant, addrs)
        total = 0
        for a, b in itertools.product(range(len(alphabet)), repeat=2):
            for o, t in actors:
                ex = Executor(env, addrs, local, exclude=exclude, objects=2, threads=sq)
                v = None
                try:
                    v = ex.apply(dict(concretise(alphabet[a], 100 + a), o=0, t=0))
                    if v is None:
                        v = ex.apply(dict(concretise(alphabet[b], 200 + b), o=o, t=t))
                finally:
                    ex.close()
                total += 1
                if ex.slow_calls:
                    stats.notes['cache-calls-slower-than-%.1fs (lock wait?):%s' % (
                        0.5 * SQLITE_TIMEOUT, variant['family'])] += ex.slow_calls
                if v is not None:
                    stats.violations.append(v)
                    stats.evaluations += total
                    stats.extra['exhaustive_aborted'] = stats.extra.get('exhaustive_aborted', 0) + 1
                    return False
        stats.evaluations += total
        stats.extra['exhaustive_two_object_sequences'] = stats.extra.get('exhaustive_two_object_sequences', 0) + total
    stats.notes.update(local.notes)
    stats.nontrivial.add(core.case_hash(('enum2', variant['name'])))
    stats.classes['enum-unit-completed'] += 1
    return True


MACHINE_EXAMPLES = {'quick': 120, 'thorough': 1500}    # per machine work unit (thorough: 4 units per variant)
MACHINE_STEPS = {'quick': 30, 'thorough': 40}
BATCH_EXAMPLES = {'quick': (8, 3), 'thorough': (150, 40)}   # (sqlite families, others)


def work_shard(shard, nshards, seed, tier):
    stats = core.Stats()
    exclude = frozenset(open_sigs())
    task = _tasks(tier, exclude)[shard]
    kind, vname = task[0], task[1]
    variant = VARIANT_BY_NAME[vname]
    tseed = core.derive_seed(seed, *task)
    link_value = None
    if variant.get('link') == 'symlink' and kind == 'machine' and tseed % 2:
        link_value = True   # `link_single_color_images: true` is the documented spelling of symlink
    env = Env(variant, link_value)
    try:
        if kind == 'machine':
            core.run_machine(make_machine(variant, env, exclude, link_value), stats,
                             max_examples=MACHINE_EXAMPLES[tier], seed=tseed, step_count=MACHINE_STEPS[tier])
        elif kind == 'enum':
            run_enum(variant, env, stats, tier, exclude, *task[2:])
        elif kind == 'enum2':
            run_enum2(variant, env, stats, tier, exclude)
        else:
            many, few = BATCH_EXAMPLES[tier]
            sq = variant['family'] in SQLITE_FAMILIES
            sizes = BATCH_SIZES if sq or tier == 'thorough' else [2, 127, 129, 300, 334]
            core.hyp_search(batch_cases(variant, sizes),
                            lambda case, st_: run_bigbatch(case, st_, env),
                            stats, max_examples=many if sq else few, seed=tseed)
    finally:
        env.close()
    return stats


def run(tier, seed, stats):
    import yaml  # noqa: F401  (imported before forking so that the workers inherit the loaded modules)
    import mapproxy.config.loader  # noqa: F401
    exclude = frozenset(open_sigs())
    tasks = _tasks(tier, exclude)
    res = core.parallel(work_shard, len(tasks), seed, tier)
    stats.merge(res)
    aborted = stats.extra.pop('exhaustive_aborted', 0)
    n_units = sum(1 for t in tasks if t[0] in ('enum', 'enum2'))
    n_pools = 1 if tier == 'quick' else 3
    scope = (
        'all 3-operation sequences (shorter ones are their prefixes) over the alphabet {store_tile(a) with a fresh '
        'payload, store_tile(a) with the canonical single-colour payload [link variants], remove_tile(a), '
        'store_tiles(a,b) for address pairs with equal dimensions, reopen} on %d four-address pool(s) for each of the '
        '%d backend variants, full read-back of the pool through load_tile / is_cached / load_tiles after every '
        'operation' % (n_pools, len(VARIANTS)))
    scope += ('; all 2-operation sequences over the same alphabet and pools where the second operation goes through '
              'a second backend object on the same storage (sqlite based backends: also through a second thread of '
              'the first or the second object), read-back through both')
    if tier == 'thorough':
        scope += '; all 4-operation sequences on the first pool of the 6 plain file layouts'
    if exclude:
        scope += ('; minus the constructs excluded while findings are open: ' + '; '.join(sorted(
            ['level-0 bulk read-back on ' + f for f, s in LEVEL0_SIGS.items() if s in exclude] +
            ['more than one dimension dict on ' + f for f, s in DIM_SIGS.items() if s in exclude])))
    stats.extra['exhaustive_scope'] = scope
    stats.extra['exhaustive_units_completed'] = '%d of %d' % (stats.classes.get('enum-unit-completed', 0), n_units)
    # complete only if no unit was cut short by a violation
    stats.extra['exhaustive'] = bool(aborted == 0 and stats.classes.get('enum-unit-completed', 0) == n_units
                                     and len(selected_variants()) == len(VARIANTS))
    if len(selected_variants()) != len(VARIANTS):
        stats.extra['restricted_to'] = [v['name'] for v in selected_variants()]
    stats.extra['backend_variants'] = len(VARIANTS)


# ------------------------------------------------------------------------------------------------
# replay (no Hypothesis; exclusions off so that regression cases of open findings demonstrate them)

def replay(case, stats):
    if case.get('kind') == 'bigbatch':
        v = run_bigbatch(case, stats)
        return [v] if v else []
    variant = VARIANT_BY_NAME[case['variant']]
    env = Env(variant, case.get('link_value'))
    out = []
    try:
        ex = Executor(env, case['addrs'], stats, exclude=frozenset(), link_value=case.get('link_value'),
                      objects=case.get('objects', 1), threads=case.get('threads', False))
        try:
            for op in case['ops']:
                v = ex.apply(dict(op))
                if v is not None:
                    out.append(v)
                    break
        finally:
            try:
                ex.record()
            finally:
                ex.close()
    finally:
        env.close()
    return out
