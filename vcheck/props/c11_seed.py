"""C11 - Seeding creates every selected tile, nothing else, and survives interruption.

The coverage the oracle uses is computed from the configured coverage by an independent dense transformation.
Seed tasks are built through the real configuration path (mapproxy.yaml dict + seed.yaml dict ->
ProxyConfiguration -> SeedingConfiguration.seeds()) and run in-process with mapproxy.seed.seeder.seed();
only the worker pool is replaced (by a recorder of what is handed to process()) and the clock used by
ProgressLog is virtual, so that *which* progress reports reach the progress file is a generated choice.

Oracle (flat, written from the definition of a tile pyramid, not from the walker):
  required   every in-grid meta tile of a chosen level whose bbox is overlapped (inside the grid bbox) by the task
             coverage by more than 0.1 px (of that level) in both axes                -> must be handed
  forbidden  every meta tile farther than 0.1 px (own level) from the coverage        -> must not be handed
             (with skip_geoms_for_last_levels > 0: farther than 0.1 px from the coverage *extent*)
  resume     for every interruption point k and the progress file as it was at k:
             handed(run interrupted at k) + handed(continued run) >= handed(uninterrupted run)
  hand-over  (separate sub-check on the real TileWorkerPool) every batch given to process() reaches exactly one worker
See DESIGN.md section 12.
"""
import contextlib
import hashlib
import io
import json
import logging
import math
import os
import shutil
import tempfile
from fractions import Fraction as Fr

from hypothesis import strategies as st

from .. import core

PROPERTY = 'C11'
LEVEL = 'exploration'
RULE = ('Hypothesis-generated seed configurations, built through the real mapproxy.yaml/seed.yaml loaders: grid '
        '(EPSG:3857/4326/25832; global or custom bbox incl. non-square; factor 2, sqrt2, arbitrary factor, custom '
        'and "nice" resolution lists, min_res not derived from the bbox; origin ll/ul; square and non-square tiles) x '
        'meta size 1-4 per axis x levels (lists with gaps, from/to ranges, all) x coverage (none, bbox, WKT polygons '
        'incl. concave/with hole, union/intersection/difference, MultiCoverage of 2-3 parts, each optionally given in '
        'another SRS; edges placed on / 0.05-20 px beside tile edges of a focus level, inside, across and beyond the '
        'grid; in a quarter of the cases a several degrees wide bbox given in a non-cylindrically related SRS - EPSG:4326 on '
        '25832/31467/3035 grids, 25832 on 4326/3857 grids - whose curved edge crosses a small regional grid with meta tiles '
        '0.4-3.3 times as large as the sliver between the edge\'s chord and arc) x skip_geoms_for_last_levels 0-2 x refresh mode x rescaled-tile tasks x which progress reports are saved. '
        'Per task every interruption point k (each process() call) is judged against the continued run (continued '
        'runs are executed once per distinct progress-file state; real interrupted runs for all k when <= 60 calls, '
        'sampled above; some continued runs are interrupted a second time). A case is non-trivial when the pyramid is '
        'irregular (not factor 2 / non-nesting / grid not a whole number of tiles) or the coverage is partial, AND at '
        'least one interruption point lies strictly inside the walk after a saved progress; distinct = distinct '
        'concrete configurations. Plus ~1000 hand-over histories per run through the real TileWorkerPool (pool size 1-3, '
        '2-14 batches, workers paused/free, 0-3 consecutive Queue.Full per batch, dead pool); non-trivial = at least one '
        'Queue.Full was raised.')
ASSUMPTIONS = [
    '"work done" = meta tiles handed to TileWorkerPool.process; the hand-over itself (process() -> queue -> worker, '
    'stop()) is checked separately on the real pool with thread workers and a queue whose put() timeout is virtual '
    '(multiprocessing transport, killed workers with queued batches are not modelled)',
    'the reference coverage is computed from the CONFIGURED coverage in its own SRS with an independent pyproj '
    'transformation (bbox in another SRS = bounding box of its outline there, 128 samples per side; polygons with 128 '
    'points per edge; union/intersection/difference evaluated in the SRS of their first member) - never from '
    'SeedTask.coverage. Where a transformation was needed, the tolerance band is the measured difference between the '
    'dense result and the documented sampling (16 outline points for bboxes, vertices only for polygons) plus 0.25 px '
    'of the judged level; polygons additionally get 2e-6 of their extent (the loader simplifies them by 1e-6)',
    'tile geometry from the exact-rational reference grid (refgrid.py) over the configured floats; grid_sizes are '
    'taken from the grid object (their correctness is C03)',
    'the documented 0.1-px inset is granted: a tile is required only if the coverage overlaps its bbox by more than 0.1 px of '
    'its own level in both axes, measured inside the grid bbox (in non-nesting pyramids: overlaps one of the pieces into which '
    'the tile edges of the coarser levels cut that bbox), and forbidden only if it is farther than 0.1 px from the coverage',
    'with skip_geoms_for_last_levels > 0 extra tiles are only demanded to be inside the grid, of a chosen level and '
    'within 0.1 px of the extent the task itself starts from (SeedTask.coverage.extent)',
    'a walk that raises GridError did not run to completion: counted as aborted, never judged',
    'interruption = exception (SeedInterrupted or KeyboardInterrupt) raised by process(); the progress file is what '
    'ProgressStore.write left on disk at that moment',
]

ETA = Fr(1, 10 ** 6)          # relative guard band around the 0.1-px inset
N_QUICK = 5600
N_THOROUGH = 120000
CALL_BUDGET = 5000            # process() calls per run before a case is given up as inconclusive
MAX_CELLS = 400               # generated tasks are kept below this many meta tiles (flat estimate)
REAL_ALL_K = 30               # really interrupted runs for every k up to this many process() calls, 16 sampled k above
MAX_STATES = 40               # continued runs per case (distinct progress-file states)

SIG_INSET = 'C11/missing-tile/ancestor-inset'
SIG_SPLIT = 'C11/missing-tile/split-inset'
SIG_GAP = 'C11/missing-tile/ancestor-grid-gap'
SIG_REACHABLE = 'C11/missing-tile/reachable-by-the-walk'
SIG_UNEXPLAINED = 'C11/missing-tile/unexplained'
SIG_COVTRANS = 'C11/missing-tile/coverage-cut-by-srs-transformation'
SIG_HANDOFF_LOST = 'C11/handoff/batch-never-reaches-a-worker'
SIG_HANDOFF_DUP = 'C11/handoff/batch-delivered-twice'
SIG_HANDOFF_DEAD = 'C11/handoff/dead-pool-not-reported'
SIG_FORBIDDEN = 'C11/forbidden-tile/outside-coverage'
SIG_FORBIDDEN_EXTENT = 'C11/forbidden-tile/outside-extent-with-skip-geoms'
SIG_OUTSIDE_GRID = 'C11/handed/outside-grid'
SIG_WRONG_LEVEL = 'C11/handed/level-not-chosen'
SIG_UNALIGNED = 'C11/handed/not-a-meta-tile'
SIG_PARTIAL_META = 'C11/handed/tile-list-is-not-the-meta-tile'
SIG_RESUME = 'C11/resume/lost-tiles'
SIG_RESUME_ABORT = 'C11/resume/continued-run-aborts'
EXCUSABLE = (SIG_INSET, SIG_SPLIT, SIG_GAP)
PRIORITY = [SIG_OUTSIDE_GRID, SIG_WRONG_LEVEL, SIG_UNALIGNED, SIG_PARTIAL_META, SIG_FORBIDDEN, SIG_FORBIDDEN_EXTENT,
            SIG_HANDOFF_LOST, SIG_HANDOFF_DUP, SIG_HANDOFF_DEAD, SIG_REACHABLE, SIG_COVTRANS, SIG_UNEXPLAINED, SIG_RESUME, SIG_RESUME_ABORT, SIG_INSET, SIG_SPLIT, SIG_GAP]


# the progress file is rewritten thousands of times per case: keep the scratch dir on tmpfs when there is one
_SCRATCH_BASE = '/dev/shm' if os.path.isdir('/dev/shm') and os.access('/dev/shm', os.W_OK) else None


_OPEN = {}


def _open_signatures():
    key = os.environ.get('VERIF_C11_ASSUME_FIXED') or ''
    if key not in _OPEN:
        _OPEN[key] = _load_open_signatures()
    return _OPEN[key]


def _load_open_signatures():
    sigs = core.open_signatures(PROPERTY)
    # used only to verify a proposed repair on a scratch copy: treat these findings as repaired
    for s in (os.environ.get('VERIF_C11_ASSUME_FIXED') or '').split(','):
        sigs.discard(s.strip())
    return sigs


# ------------------------------------------------------------------------------------------------
# harness: real loaders, real seed(), recorder pool, virtual clock


class _Clock(object):
    """stands in for the `time` module inside mapproxy.seed.util"""

    def __init__(self):
        self.now = 1000000.0

    def time(self):
        return self.now

    def sleep(self, s):
        self.now += s


class _RunCtx(object):
    def __init__(self, task_index, interrupt_at, exc, store_path):
        self.task_index = task_index
        self.interrupt_at = interrupt_at
        self.exc = exc
        self.store_path = store_path
        self.handed = []          # (task index, tuple of tile coords)
        self.states = []          # progress-file content (bytes or None) at each process() call
        self.interrupted = False


class _Runaway(Exception):
    """the walk hands far more tile sets than the task has meta tiles (only seen with defective walkers that recurse
    into the same area again and again): the case is given up as inconclusive, a budget never decides a verdict"""


class _RecorderPool(object):
    """stands in for seeder.TileWorkerPool: records what is handed to process()"""
    ctx = None

    def __init__(self, task, worker_class, size=2, dry_run=False, progress_logger=None):
        self.task = task
        self.progress_logger = progress_logger

    def process(self, tiles, progress):
        c = _RecorderPool.ctx
        if len(c.handed) >= CALL_BUDGET:
            raise _Runaway()
        c.states.append(_read_file(c.store_path))
        if c.interrupt_at is not None and len(c.handed) == c.interrupt_at:
            c.interrupted = True
            raise c.exc()
        c.handed.append((c.task_index[id(self.task)], tuple(tuple(t) for t in tiles)))
        if self.progress_logger:
            self.progress_logger.log_step(progress)

    def stop(self, force=False):
        pass


def _read_file(path):
    try:
        with open(path, 'rb') as f:
            return f.read()
    except FileNotFoundError:
        return None


def _pointers(state):
    """progress identifiers stored in a progress file that make a continued run skip something"""
    if state is None:
        return []
    import pickle
    return [v for v in pickle.loads(state).values() if v is not None]


def save_decision(rule, i):
    kind = rule['kind']
    if kind == 'all':
        return True
    if kind == 'none':
        return False
    if kind == 'mod':
        return i % rule['n'] == rule['off'] % rule['n']
    h = hashlib.blake2b(('%d/%d' % (rule['salt'], i)).encode(), digest_size=2).digest()
    return (h[0] * 256 + h[1]) < rule['p'] * 65536


class Env(object):
    """One generated configuration: temp dir, real tasks, progress file."""

    def __init__(self, case):
        self.case = case
        self.tmp = tempfile.mkdtemp(prefix='c11_', dir=_SCRATCH_BASE)
        self.store_path = os.path.join(self.tmp, 'progress')
        self.tasks = None

    def close(self):
        shutil.rmtree(self.tmp, ignore_errors=True)

    def build(self):
        from mapproxy.config.loader import ProxyConfiguration
        from mapproxy.seed.config import SeedingConfiguration
        from mapproxy.seed.spec import validate_seed_conf
        case = self.case
        cache = {'grids': ['g'], 'sources': ['s'], 'meta_size': list(case['meta']), 'meta_buffer': case.get('meta_buffer', 0),
                 'cache': {'type': 'file', 'directory': os.path.join(self.tmp, 'cache')}}
        if case.get('rescale'):
            cache[case['rescale']] = 1
        conf = {
            'services': {'tms': None},
            'grids': {'g': grid_conf(case['grid'])},
            'caches': {'c': cache},
            'sources': {'s': {'type': 'wms', 'req': {'url': 'http://127.0.0.1:1/service', 'layers': 'x'},
                              'supported_srs': [case['grid']['srs']]}},
            'layers': [{'name': 'l', 'title': 'l', 'sources': ['c']}],
            'globals': {'cache': {'base_dir': os.path.join(self.tmp, 'cache_data'),
                                  'lock_dir': os.path.join(self.tmp, 'locks'),
                                  'tile_lock_dir': os.path.join(self.tmp, 'tile_locks')}},
        }
        seed = {'caches': ['c']}
        lv = case['levels']
        if lv['kind'] == 'list':
            seed['levels'] = list(lv['levels'])
        elif lv['kind'] == 'range':
            seed['levels'] = dict((k, lv[k]) for k in ('from', 'to') if lv.get(k) is not None)
        if case['refresh'] == 'before':
            seed['refresh_before'] = {'time': '2030-01-01T00:00:00'}
        seed_conf = {'seeds': {'s1': seed}}
        covs = {}
        for i, c in enumerate(case['coverage']):
            covs['cov%d' % i] = self._coverage_conf(c, 'cov%d' % i)
        if covs:
            seed['coverages'] = sorted(covs)
            seed_conf['coverages'] = covs
        errors, informal_only = validate_seed_conf(seed_conf)
        if errors:
            raise core.HarnessError('generated seed configuration is invalid: %r' % (errors,))
        pc = ProxyConfiguration(conf, conf_base_dir=self.tmp, seed=True)
        self.tasks = SeedingConfiguration(seed_conf, pc).seeds()
        return self.tasks

    def _coverage_conf(self, c, name):
        if c['type'] == 'bbox':
            return {'bbox': list(c['bbox']), 'srs': c['srs']}
        if c['type'] == 'polygon':
            path = os.path.join(self.tmp, name + '.txt')
            with open(path, 'w') as f:
                for w in c['wkt']:
                    f.write(w + '\n')
            return {'datasource': path, 'srs': c['srs']}
        return {c['type']: [self._coverage_conf(p, '%s_%d' % (name, i)) for i, p in enumerate(c['parts'])]}

    def run(self, interrupt_at=None, state=None, exc_kind='seed'):
        """One in-process seed() over all tasks, starting from progress-file content `state`."""
        from mapproxy.seed import seeder, util as sutil
        from mapproxy.grid import GridError
        if state is None:
            if os.path.exists(self.store_path):
                os.remove(self.store_path)
        else:
            with open(self.store_path, 'wb') as f:
                f.write(state)
            os.chmod(self.store_path, 0o644)     # ProgressStore ignores world-writable files
        clock = _Clock()
        rule = self.case['save']
        counter = [0]

        class DrivenLog(sutil.ProgressLog):
            def log_progress(self, progress, level, bbox, tiles):
                i = counter[0]
                counter[0] += 1
                if save_decision(rule, i):
                    clock.now += 2.0     # more than the 1 s throttle of log_progress -> this report is saved
                return sutil.ProgressLog.log_progress(self, progress, level, bbox, tiles)

        exc = seeder.SeedInterrupted if exc_kind == 'seed' else KeyboardInterrupt
        ctx = _RunCtx(dict((id(t), i) for i, t in enumerate(self.tasks)), interrupt_at, exc, self.store_path)
        old_pool, old_time, old_ctx = seeder.TileWorkerPool, sutil.time, _RecorderPool.ctx
        seeder.TileWorkerPool = _RecorderPool
        sutil.time = clock
        _RecorderPool.ctx = ctx
        outcome = 'complete'
        try:
            store = sutil.ProgressStore(self.store_path, continue_seed=True)
            plog = DrivenLog(out=io.StringIO(), silent=True, verbose=True, progress_store=store)
            with contextlib.redirect_stdout(io.StringIO()):
                try:
                    seeder.seed(self.tasks, concurrency=1, dry_run=False,
                                skip_geoms_for_last_levels=self.case['skip'], progress_logger=plog)
                except GridError:
                    outcome = 'grid-error'
                except _Runaway:
                    outcome = 'runaway'
                except (seeder.SeedInterrupted, KeyboardInterrupt):
                    if not ctx.interrupted:
                        raise
                    outcome = 'interrupted'
        finally:
            seeder.TileWorkerPool = old_pool
            sutil.time = old_time
            _RecorderPool.ctx = old_ctx
        ctx.outcome = outcome
        ctx.reports = counter[0]
        ctx.final_state = _read_file(self.store_path)
        return ctx


def grid_conf(g):
    c = {'srs': g['srs'], 'origin': g['origin'], 'tile_size': list(g['tile_size'])}
    if g.get('bbox') is not None:
        c['bbox'] = list(g['bbox'])
    mode = g['mode']
    if mode == 'f2':
        c['num_levels'] = g['num_levels']
    elif mode == 'sqrt2':
        c['res_factor'] = 'sqrt2'
        c['num_levels'] = g['num_levels']
    elif mode == 'factor':
        c['res_factor'] = g['res_factor']
        c['num_levels'] = g['num_levels']
    elif mode == 'minres':
        c['min_res'] = g['min_res']
        c['res_factor'] = g['res_factor']
        c['num_levels'] = g['num_levels']
    else:
        c['res'] = list(g['res'])
    return c


def make_grid(g):
    from mapproxy.grid import tile_grid
    c = grid_conf(g)
    c['tile_size'] = tuple(c['tile_size'])
    return tile_grid(**c)


# ------------------------------------------------------------------------------------------------
# exact pyramid of meta cells (written from the definition; indices are *cell* indices = main tile // meta)


class Pyramid(object):
    def __init__(self, grid, meta):
        from ..refgrid import RefGrid
        self.ref = RefGrid.from_grid(grid)
        self.nlevels = len(self.ref.res)
        self.gs = [tuple(s) for s in self.ref.grid_sizes]
        self.m = [(min(meta[0], gx), min(meta[1], gy)) for gx, gy in self.gs]
        self.ul = self.ref.ul
        mag = max(abs(float(v)) for v in self.ref.bbox)
        self.tau0 = Fr(max(8 * (math.ulp(mag) if mag > 0 else 5e-324), 2.5e-12))

    def cw(self, z):
        sx, sy = self.ref.span(z)
        return sx * self.m[z][0], sy * self.m[z][1]

    def tau(self, z):
        cw, ch = self.cw(z)
        return max(self.tau0, max(cw, ch) / 10 ** 9)

    def delta(self, z):
        return self.ref.res[z] / 10

    def rect(self, cx, cy, z):
        cw, ch = self.cw(z)
        x0 = self.ref.bbox[0] + cx * cw
        if self.ul:
            y1 = self.ref.bbox[3] - cy * ch
            return (x0, y1 - ch, x0 + cw, y1)
        y0 = self.ref.bbox[1] + cy * ch
        return (x0, y0, x0 + cw, y0 + ch)

    def ncells(self, z):
        gx, gy = self.gs[z]
        return -(-gx // self.m[z][0]), -(-gy // self.m[z][1])

    def in_grid(self, cx, cy, z):
        nx, ny = self.ncells(z)
        return 0 <= cx < nx and 0 <= cy < ny

    def ix(self, px, z):
        return math.floor((Fr(px) - self.ref.bbox[0]) / self.cw(z)[0])

    def iy(self, py, z):
        if self.ul:
            return math.floor((self.ref.bbox[3] - Fr(py)) / self.cw(z)[1])
        return math.floor((Fr(py) - self.ref.bbox[1]) / self.cw(z)[1])

    def index_range(self, R, d, z):
        """cell index ranges the walker's rule yields for region R with inset d: from the cell of the
        (min corner + d) to the cell of (max corner - d); None when the ends cross."""
        x0, x1 = self.ix(R[0] + d, z), self.ix(R[2] - d, z)
        ya, yb = self.iy(R[1] + d, z), self.iy(R[3] - d, z)
        y0, y1 = (yb, ya) if self.ul else (ya, yb)
        if x1 < x0 or y1 < y0:
            return None
        return x0, x1, y0, y1

    def main_tile(self, cx, cy, z):
        return (cx * self.m[z][0], cy * self.m[z][1], z)

    def is_nested(self, levels_upto):
        """every cell of level z+1 lies inside one cell of level z (for all z < levels_upto)"""
        for z in range(min(levels_upto, self.nlevels - 1)):
            for axis in (0, 1):
                a, b = self.cw(z)[axis], self.cw(z + 1)[axis]
                if (a / b).denominator != 1:
                    return False
        return True


# reference coverage: computed from the CONFIGURED coverage (case['coverage']) in its own SRS with an independent,
# dense pyproj transformation - never from SeedTask.coverage

N_DENSE = 128        # segments per bbox side / points per polygon edge of the dense reference
N_DOC = 4            # segments per bbox side MapProxy documents for bbox transformations (with_points=16)
BAND_PX = Fr(1, 4)   # extra tolerance (px of the judged level) wherever a coverage had to be transformed
_TRANSFORMERS = {}


def _tr(src, dst, pts):
    import pyproj
    key = (src, dst)
    if key not in _TRANSFORMERS:
        _TRANSFORMERS[key] = pyproj.Transformer.from_crs(src, dst, always_xy=True)
    xs, ys = _TRANSFORMERS[key].transform([p[0] for p in pts], [p[1] for p in pts])
    return list(zip(xs, ys))


def _hull_box(b, src, dst, n):
    """bounding box, in dst, of the outline of bbox b (given in src) sampled with n segments per side"""
    pts = []
    for i in range(n + 1):
        t = i / float(n)
        x = b[0] + (b[2] - b[0]) * t
        y = b[1] + (b[3] - b[1]) * t
        pts += [(x, b[1]), (x, b[3]), (b[0], y), (b[2], y)]
    out = [q for q in _tr(src, dst, pts) if math.isfinite(q[0]) and math.isfinite(q[1])]
    if not out:
        raise core.HarnessError('reference transformation of %r %s->%s has no finite point' % (b, src, dst))
    return (min(q[0] for q in out), min(q[1] for q in out), max(q[0] for q in out), max(q[1] for q in out))


def _tr_geom(g, src, dst, k):
    """polygon(s) g transformed src->dst with every edge sampled at k points"""
    import shapely.geometry
    import shapely.ops

    def ring(coords):
        coords = list(coords)
        pts = []
        for (x0, y0), (x1, y1) in zip(coords[:-1], coords[1:]):
            for i in range(k):
                t = i / float(k)
                pts.append((x0 + (x1 - x0) * t, y0 + (y1 - y0) * t))
        pts.append(coords[-1])
        return _tr(src, dst, pts)

    polys = []
    for poly in (g.geoms if hasattr(g, 'geoms') else [g]):
        if poly.geom_type != 'Polygon' or poly.is_empty:
            continue
        q = shapely.geometry.Polygon(ring(poly.exterior.coords), [ring(r.coords) for r in poly.interiors])
        if not q.is_valid:
            q = q.buffer(0)
        polys.append(q)
    return shapely.ops.unary_union(polys)


def _ref_part(c, dst, dense):
    """('box', floats) or ('geom', shapely) in SRS dst, following the documented meaning of the configuration:
    a bbox coverage in another SRS is the bounding box of its outline there; polygons keep their shape; union /
    intersection / difference are evaluated in the SRS of their first member.  -> (kind, value, transformed?)"""
    import shapely.geometry
    import shapely.ops
    import shapely.wkt
    if c['type'] == 'bbox':
        if c['srs'] == dst:
            return 'box', tuple(c['bbox']), False
        return 'box', _hull_box(c['bbox'], c['srs'], dst, N_DENSE if dense else N_DOC), True
    if c['type'] == 'polygon':
        g = shapely.ops.unary_union([shapely.wkt.loads(w) for w in c['wkt']])
        if c['srs'] == dst:
            return 'geom', g, False
        return 'geom', _tr_geom(g, c['srs'], dst, N_DENSE if dense else 1), True
    first = c['parts'][0]['srs']
    geoms, transformed = [], False
    for part in c['parts']:
        kind, v, t = _ref_part(part, first, dense)
        transformed = transformed or t
        geoms.append(shapely.geometry.box(*v) if kind == 'box' else v)
    if c['type'] == 'union':
        g = shapely.ops.unary_union(geoms)
    elif c['type'] == 'intersection':
        g = geoms[0].intersection(geoms[1])
    else:
        g = geoms[0].difference(geoms[1])
    if first != dst:
        return 'geom', _tr_geom(g, first, dst, N_DENSE if dense else 1), True
    return 'geom', g, transformed


class Coverage(object):
    """Reference view of the configured coverage in the grid SRS.  Every part has an `inner` and an `outer` version:
    identical (and exact) when nothing had to be transformed; otherwise inner = dense reference cut down to what the
    documented sampling (16 outline points for bboxes, vertices for polygons) keeps, outer = dense reference extended
    by what that sampling adds - the measured difference between the two is the tolerance band, plus BAND_PX."""

    def __init__(self, conf, grid_srs, grid_bbox):
        import shapely.geometry
        self.parts = []
        self.transformed = False
        if not conf:
            conf = [{'type': 'bbox', 'srs': grid_srs, 'bbox': list(grid_bbox)}]
        for c in conf:
            kind, dense, t = _ref_part(c, grid_srs, True)
            if not t:
                inner = outer = dense
            else:
                self.transformed = True
                kind2, doc, _ = _ref_part(c, grid_srs, False)
                if kind == 'box':
                    inner = (max(dense[0], doc[0]), max(dense[1], doc[1]), min(dense[2], doc[2]), min(dense[3], doc[3]))
                    outer = (min(dense[0], doc[0]), min(dense[1], doc[1]), max(dense[2], doc[2]), max(dense[3], doc[3]))
                else:
                    inner, outer = dense.intersection(doc), dense.union(doc)
            if kind == 'box':
                bounds = outer
                inner, outer = tuple(Fr(v) for v in inner), tuple(Fr(v) for v in outer)
            else:
                if outer.is_empty:
                    continue
                bounds = outer.bounds
            # loaders simplify polygons with a tolerance of 1e-6 of their extent
            margin = Fr(0) if kind == 'box' else Fr(2e-6 * max(bounds[2] - bounds[0], bounds[3] - bounds[1]))
            self.parts.append({'kind': kind, 'inner': inner, 'outer': outer, 'fuzzy': t, 'margin': margin,
                               'bounds': tuple(Fr(v) for v in bounds)})
        bs = [p['bounds'] for p in self.parts] or [tuple(Fr(v) for v in grid_bbox)]
        self.bounds = (min(b[0] for b in bs), min(b[1] for b in bs), max(b[2] for b in bs), max(b[3] for b in bs))
        self._box = shapely.geometry.box

    def _tol(self, part, res):
        return part['margin'] + (BAND_PX * res if part['fuzzy'] else 0)

    def hits(self, rect, res, view='outer'):
        """does the coverage (outer view: generously, inner view: surely) have a point in the closed rectangle?"""
        for p in self.parts:
            t = self._tol(p, res)
            r = grow(rect, t if view == 'outer' else -t)
            if r[0] > r[2] or r[1] > r[3]:
                continue
            g = p[view]
            if p['kind'] == 'box':
                if g[0] <= r[2] and g[2] >= r[0] and g[1] <= r[3] and g[3] >= r[1]:
                    return True
            elif g.intersects(self._box(*[float(v) for v in r])):
                return True
        return False

    def overlaps_by(self, rect, s, res):
        """is the part of the (inner) coverage inside `rect` surely more than `s` wide and more than `s` high?"""
        for p in self.parts:
            s2 = s + self._tol(p, res)
            if not (rect[2] - rect[0] > s2 and rect[3] - rect[1] > s2):
                continue
            g = p['inner']
            if p['kind'] == 'box':
                if min(g[2], rect[2]) - max(g[0], rect[0]) > s2 and min(g[3], rect[3]) - max(g[1], rect[1]) > s2:
                    return True
                continue
            box = self._box(*[float(v) for v in rect])
            if not g.intersects(box):
                continue
            part = g.intersection(box)
            if part.is_empty:
                continue
            x0, y0, x1, y1 = part.bounds
            if x1 - x0 > float(s2) and y1 - y0 > float(s2):
                return True
        return False


def grow(rect, d):
    return (rect[0] - d, rect[1] - d, rect[2] + d, rect[3] + d)


def overlap_pos(a, b):
    return min(a[2], b[2]) > max(a[0], b[0]) and min(a[3], b[3]) > max(a[1], b[1])


def isect(a, b):
    return (max(a[0], b[0]), max(a[1], b[1]), min(a[2], b[2]), min(a[3], b[3]))


def reachable(pyr, cov, E, cell, piece, mode, last_level, allow_oog=False):
    """Can the level-by-level descent (affected cells of the clipped bbox, in-grid, intersecting the coverage)
    reach `cell` = (cx, cy, L)?  Used only to *classify* a missing required tile.
      mode 'strict'   inset 0.1 px of every traversed level, with guard band  (=> surely reached by the walker's own rules)
      mode 'last'     inset 0.1 px of the last seeded level at every level    (what the walk would reach without the
                      coarser levels' insets)
      mode 'none'     no inset
    """
    cx, cy, L = cell
    # the chain of clipped bboxes has to keep (a part of) the piece of the cell that makes it required
    target = isect(piece, E)
    if not (target[0] < target[2] and target[1] < target[3]):
        return False

    def inset(z):
        if mode == 'strict':
            return pyr.delta(z) * (1 + ETA) + pyr.tau(z)
        if mode == 'last':
            return max(2 * pyr.tau(z), pyr.delta(last_level) * (1 - ETA) - pyr.tau(z))
        return 2 * pyr.tau(z)

    memo = {}
    budget = [20000]

    def rec(z, R):
        key = (z, R)
        if key not in memo:
            budget[0] -= 1
            if budget[0] < 0:
                raise _Budget()
            memo[key] = rec_(z, R)
        return memo[key]

    def rec_(z, R):
        rng = pyr.index_range(R, inset(z), z)
        if rng is None:
            return False
        x0, x1, y0, y1 = rng
        if z == L:
            return x0 <= cx <= x1 and y0 <= cy <= y1
        # only cells that overlap the target can lead to it
        tx0, tx1 = pyr.ix(target[0], z), pyr.ix(target[2], z)
        ta, tb = pyr.iy(target[1], z), pyr.iy(target[3], z)
        ty0, ty1 = min(ta, tb), max(ta, tb)
        for ax in range(max(x0, tx0), min(x1, tx1) + 1):
            for ay in range(max(y0, ty0), min(y1, ty1) + 1):
                if not allow_oog and not pyr.in_grid(ax, ay, z):
                    continue
                r = pyr.rect(ax, ay, z)
                if mode == 'strict':
                    if not cov.hits(grow(r, -pyr.tau(z)), pyr.ref.res[z], 'inner'):
                        continue
                elif not cov.hits(grow(r, pyr.tau(z)), pyr.ref.res[z]):
                    continue
                R2 = isect(R, r)
                if not overlap_pos(grow(R2, -pyr.tau(z)), target):
                    continue
                if rec(z + 1, R2):
                    return True
        return False

    return rec(0, tuple(Fr(v) for v in E))


class _Budget(Exception):
    pass


def classify_missing(pyr, cov, E, cell, req_pieces, last_level):
    """root cause of a required meta cell that was not handed (None: the classification budget was exhausted)"""
    try:
        return _classify_missing(pyr, cov, E, cell, req_pieces, last_level)
    except _Budget:
        return None


def _classify_missing(pyr, cov, E, cell, req_pieces, last_level):
    for mode, oog, sig in (('strict', False, SIG_REACHABLE), ('last', False, SIG_INSET), ('none', False, SIG_SPLIT),
                           ('none', True, SIG_GAP)):
        for piece in req_pieces:
            if reachable(pyr, cov, E, cell, piece, mode, last_level, allow_oog=oog):
                return sig
    # not even a descent without insets and grid limits gets there: the task's own extent does not contain the piece
    return SIG_COVTRANS if cov.transformed else SIG_UNEXPLAINED


# ------------------------------------------------------------------------------------------------
# evaluation of one concrete case


def pieces(pyr, cell):
    """the bbox of a meta cell cut along the cell edges of all coarser (traversed) levels that run through it;
    in a nested pyramid this is the bbox itself"""
    cx, cy, L = cell
    r = pyr.rect(cx, cy, L)
    t = pyr.tau(L)
    xs, ys = set(), set()
    for z in range(L):
        cw, ch = pyr.cw(z)
        ox = pyr.ref.bbox[0]
        oy = pyr.ref.bbox[3] if pyr.ul else pyr.ref.bbox[1]
        for k in range(math.ceil((r[0] - ox) / cw), math.floor((r[2] - ox) / cw) + 1):
            e = ox + k * cw
            if r[0] + t < e < r[2] - t:
                xs.add(e)
        for k in range(math.ceil((r[1] - oy) / ch), math.floor((r[3] - oy) / ch) + 1):
            e = oy + k * ch
            if r[1] + t < e < r[3] - t:
                ys.add(e)
    xs = [r[0]] + sorted(xs) + [r[2]]
    ys = [r[1]] + sorted(ys) + [r[3]]
    return [(xs[i], ys[j], xs[i + 1], ys[j + 1]) for i in range(len(xs) - 1) for j in range(len(ys) - 1)]


def required_cells(pyr, cov, z):
    """flat enumeration: in-grid cells of level z whose bbox (in a non-nesting pyramid: one of its pieces between
    the tile edges of the coarser levels) is overlapped, inside the grid bbox, by the coverage by more than 0.1 px of
    level z in both axes.  -> [(cell, [pieces that make it required])]"""
    nx, ny = pyr.ncells(z)
    b = cov.bounds
    x0, x1 = max(0, pyr.ix(b[0], z) - 1), min(nx - 1, pyr.ix(b[2], z) + 1)
    ya, yb = pyr.iy(b[1], z), pyr.iy(b[3], z)
    y0, y1 = max(0, min(ya, yb) - 1), min(ny - 1, max(ya, yb) + 1)
    s = pyr.delta(z) * (1 + ETA) + pyr.tau(z)
    out = []
    for cx in range(x0, x1 + 1):
        for cy in range(y0, y1 + 1):
            if not cov.hits(pyr.rect(cx, cy, z), pyr.ref.res[z]):
                continue
            req = [p for p in (isect(p, pyr.ref.bbox) for p in pieces(pyr, (cx, cy, z))) if cov.overlaps_by(p, s, pyr.ref.res[z])]
            if req:
                out.append(((cx, cy, z), req))
    return out


def estimate_cells(pyr, bounds, levels):
    """flat size estimate of a task (cells of the traversed levels inside the coverage bounds)"""
    total = 0
    if not levels:
        return 0
    for z in range(0, max(levels) + 1):
        nx, ny = pyr.ncells(z)
        x0, x1 = max(0, pyr.ix(bounds[0], z)), min(nx - 1, pyr.ix(bounds[2], z))
        ya, yb = pyr.iy(bounds[1], z), pyr.iy(bounds[3], z)
        y0, y1 = max(0, min(ya, yb)), min(ny - 1, max(ya, yb))
        total += max(0, x1 - x0 + 1) * max(0, y1 - y0 + 1)
    return total


def check_handed(env, full, pyrs, covs, Es, excuse, st_, out):
    """flat completeness / forbidden / containment clauses on a completed run"""
    case = env.case
    skip = case['skip']
    handed_cells = [set() for _ in env.tasks]
    for ti, tiles in full.handed:
        task = env.tasks[ti]
        pyr, cov = pyrs[ti], covs[ti]
        if not tiles:
            raise core.HarnessError('process() called with an empty tile list')
        z = tiles[0][2]
        cells = set()
        bad = None
        for t in tiles:
            x, y, tz = t
            if tz != z or not (0 <= tz < pyr.nlevels) or tz not in task.levels:
                bad = (SIG_WRONG_LEVEL, 'tile %r handed, chosen levels are %r' % (t, list(task.levels)))
                break
            gx, gy = pyr.gs[tz]
            if not (0 <= x < gx and 0 <= y < gy):
                bad = (SIG_OUTSIDE_GRID, 'tile %r handed, grid size of the level is %r' % (t, (gx, gy)))
                break
            cells.add((x // pyr.m[tz][0], y // pyr.m[tz][1], tz))
        if bad is None and len(cells) != 1:
            bad = (SIG_PARTIAL_META, 'one process() call with tiles of %d meta tiles: %r' % (len(cells), tiles))
        if bad is None:
            cell = next(iter(cells))
            mx, my = pyr.m[z]
            if case.get('rescale'):
                gx, gy = pyr.gs[z]
                exp = set((x, y, z) for x in range(cell[0] * mx, min(gx, cell[0] * mx + mx))
                          for y in range(cell[1] * my, min(gy, cell[1] * my + my)))
                if set(tiles) != exp:
                    bad = (SIG_PARTIAL_META, 'tiles handed %r, in-grid tiles of the meta tile %r' % (sorted(tiles), sorted(exp)))
            elif len(tiles) != 1 or tiles[0] != pyr.main_tile(*cell):
                bad = (SIG_UNALIGNED, 'handed %r, main tile of its meta tile is %r' % (tiles, pyr.main_tile(*cell)))
        if bad is None:
            handed_cells[ti].add(cell)
            s = pyr.delta(z) * (1 + ETA) + pyr.tau(z)
            r = grow(pyr.rect(*cell), s)
            if not cov.hits(r, pyr.ref.res[z]):
                # farther than 0.1 px (own level) from every part of the coverage
                if skip == 0:
                    bad = (SIG_FORBIDDEN, 'meta tile %r (level %d) handed, but it is farther than 0.1 px from the coverage'
                           % (pyr.main_tile(*cell), z))
                else:
                    E = Es[ti]
                    if r[0] <= E[2] and r[2] >= E[0] and r[1] <= E[3] and r[3] >= E[1]:
                        st_.notes['extra-tiles-by-skip-geoms'] += 1
                    else:
                        bad = (SIG_FORBIDDEN_EXTENT,
                               'meta tile %r (level %d) handed with skip_geoms_for_last_levels=%d, but it is farther '
                               'than 0.1 px from the extent of the coverage' % (pyr.main_tile(*cell), z, skip))
        if bad is not None:
            out.setdefault(bad[0], bad[1])
    # completeness
    n_required = 0
    for ti, task in enumerate(env.tasks):
        pyr, cov = pyrs[ti], covs[ti]
        for z in task.levels:
            for cell, req_pieces in required_cells(pyr, cov, z):
                n_required += 1
                if cell in handed_cells[ti]:
                    continue
                sig = classify_missing(pyr, cov, Es[ti], cell, req_pieces, max(task.levels))
                if sig is None:
                    st_.inconclusive['missing-tile-classification-budget'] += 1
                    continue
                if sig in excuse:
                    st_.excluded['required-tile-excused:' + sig.split('/')[-1]] += 1
                    out.setdefault('excused', set()).add(sig)
                    continue
                out.setdefault(sig, 'meta tile %r of level %d (bbox %r) has coverage more than 0.1 px inside it but was '
                               'never handed to the pool [%s]' % (pyr.main_tile(*cell), cell[2],
                                                                  [float(v) for v in pyr.rect(*cell)], sig.split('/')[-1]))
    return n_required, handed_cells


def evaluate(case, st_, excuse=(), size_guard=True):
    """-> (dict signature -> message, info dict)"""
    out = {}
    info = {'classes': [], 'nontrivial': False}
    env = Env(case)
    try:
        try:
            tasks = env.build()
        except ValueError as ex:
            if 'cannot transform' not in str(ex):
                raise
            # intersection/difference coverages that yield a GeometryCollection (polygons touching along a line) cannot
            # be brought into another SRS by the loader: the seed configuration is refused, there is no task to judge
            st_.excluded['loader-refuses-coverage(%s)' % ex] += 1
            return out, None
        if not tasks:
            raise core.HarnessError('configuration produced no seed task')
        pyrs, covs, Es = [], [], []
        for task in tasks:
            mg = task.tile_manager.meta_grid
            msz = tuple(mg.meta_size) if mg else (1, 1)
            if msz != tuple(case['meta']):
                raise core.HarnessError('meta size of the tile manager %r != configured %r' % (msz, case['meta']))
            if not task.levels:
                st_.excluded['no-valid-level'] += 1
                return out, None
            if task.coverage is False:
                # empty intersection/difference: the loader marks the task as "skipped"
                st_.excluded['empty-coverage'] += 1
                return out, None
            pyr = Pyramid(task.grid, case['meta'])
            try:
                cov = Coverage(case['coverage'], case['grid']['srs'], task.grid.bbox)
            except Exception as e:   # GEOS TopologyException etc. while building the *reference* geometry
                import shapely.errors
                if isinstance(e, (shapely.errors.ShapelyError, ValueError)):
                    # the harness' own reference region cannot be built for this generated geometry: no verdict
                    st_.excluded['reference-coverage-not-constructible'] += 1
                    return out, None
                raise
            pyrs.append(pyr)
            covs.append(cov)
            Es.append(tuple(Fr(v) for v in task.coverage.extent.bbox_for(task.grid.srs)))
        size = sum(estimate_cells(p, c.bounds, t.levels) for p, c, t in zip(pyrs, covs, tasks))
        if size_guard and size > MAX_CELLS * (2 if case.get('rescale') else 1):
            st_.excluded['task-too-large'] += 1
            return out, None

        full = env.run()
        cl = info['classes']
        if full.outcome == 'grid-error':
            st_.notes['aborted-GridError'] += 1
            cl.append('outcome:aborted-GridError')
            info['aborted'] = True
            return out, info
        if full.outcome == 'runaway':
            st_.inconclusive['walk-exceeds-%d-process-calls' % CALL_BUDGET] += 1
            return out, None
        if full.outcome != 'complete':
            raise core.HarnessError('uninterrupted run ended with %r' % full.outcome)
        n_required, handed_cells = check_handed(env, full, pyrs, covs, Es, excuse, st_, out)
        N = len(full.handed)
        info['process_calls'] = N
        info['required'] = n_required

        # ---- resume: every interruption point k, continued runs once per distinct progress-file state
        full_set = set(full.handed)
        first_index = {}
        for i, h in enumerate(full.handed):
            first_index.setdefault(h, i)
        state_first_k = {}
        order = []
        for k, s in enumerate(full.states):
            if s not in state_first_k:
                state_first_k[s] = k
                order.append(s)
        info['states'] = len(order)
        inside_after_save = any(_pointers(s) and 0 < k for s, k in state_first_k.items())
        real_ks = list(range(N)) if N <= REAL_ALL_K else sorted(set(int(f * N) % N for f in case['k_picks']))
        exc_kind = case.get('exc', 'seed')
        mismatch = False
        for k in real_ks:
            a = env.run(interrupt_at=k, exc_kind=exc_kind)
            if a.outcome != 'interrupted' or a.handed != full.handed[:k]:
                raise core.HarnessError('interrupted run is not a prefix of the uninterrupted run (k=%d)' % k)
            if a.final_state != full.states[k]:
                mismatch = True     # the interruption path itself changed the progress file
                st_.notes['interrupt-path-writes-progress'] += 1
                b = env.run(state=a.final_state)
                _judge_resume(out, case, full, full_set, k, set(a.handed), b, 'k=%d' % k)
        st_.extra['interruption_points_real'] = st_.extra.get('interruption_points_real', 0) + len(real_ks)
        if mismatch and N > REAL_ALL_K:
            st_.inconclusive['interrupt-path-differs-sampled-only'] += 1
        # a progress file without any stored identifier makes the continued run identical to the uninterrupted one
        states = [s for s in order if _pointers(s)]
        if len(states) > MAX_STATES:
            step = len(states) / float(MAX_STATES)
            states = [states[int(i * step)] for i in range(MAX_STATES)]
            st_.notes['states-sampled'] += 1
        chain = []
        for s in states:
            k = state_first_k[s]
            b = env.run(state=s)
            _judge_resume(out, case, full, full_set, k, None, b, 'k=%d' % k, first_index)
            if b.outcome == 'complete' and len(b.handed) > 1:
                chain.append((k, s, b))
        st_.extra['interruption_points'] = st_.extra.get('interruption_points', 0) + N
        st_.extra['continued_runs'] = st_.extra.get('continued_runs', 0) + len(states)
        # ---- a second interruption inside some continued runs
        for pick, (k, s, b) in zip(case['k_picks'][:3], chain[::max(1, len(chain) // 3)]):
            k2 = int(pick * len(b.handed)) % len(b.handed)
            s2 = b.states[k2]
            c = env.run(state=s2)
            done = set(full.handed[:k]) | set(b.handed[:k2])
            _judge_resume(out, case, full, full_set, k, done, c, 'k=%d then k2=%d' % (k, k2))
            st_.extra['second_interruptions'] = st_.extra.get('second_interruptions', 0) + 1

        # ---- classes / non-triviality
        g = case['grid']
        pyr = pyrs[0]
        top = max(max(t.levels) for t in tasks)
        nested = pyr.is_nested(top)
        whole = all((((pyr.ref.bbox[2] - pyr.ref.bbox[0]) / pyr.ref.span(z)[0]).denominator == 1 and
                     ((pyr.ref.bbox[3] - pyr.ref.bbox[1]) / pyr.ref.span(z)[1]).denominator == 1)
                    for z in range(top + 1))
        irregular = (not nested) or (not whole) or g['mode'] != 'f2'
        partial = bool(case['coverage'])
        info['nontrivial'] = bool((irregular or partial) and inside_after_save)
        cl += ['grid:' + g['mode'], 'srs:' + g['srs'], 'origin:' + g['origin'],
               'pyramid:' + ('nested' if nested else 'non-nesting'),
               'grid-extent:' + ('whole-tiles' if whole else 'partial-tiles'),
               'tile:' + ('square' if g['tile_size'][0] == g['tile_size'][1] else 'non-square'),
               'extent:' + ('global' if g.get('bbox') is None else ('square' if _is_square(g['bbox']) else 'non-square')),
               'meta:%dx%d' % tuple(case['meta']) if case['meta'][0] == case['meta'][1] else 'meta:non-square',
               'skip_geoms:%d' % case['skip'], 'levels:' + _levels_class(tasks[0].levels if not case.get('rescale') else
                                                                        sorted(l for t in tasks for l in t.levels)),
               'levels-spec:' + case['levels']['kind'], 'refresh:' + case['refresh'], 'save:' + case['save']['kind'],
               'calls:' + _bucket(N), 'resume-states:' + _bucket(len(order)),
               'outcome:complete', 'interrupt-exc:' + exc_kind]
        if case.get('rescale'):
            cl.append('rescale:' + case['rescale'])
        if case.get('band'):
            cl += ['band:' + case['band']['pair'], 'band:edge-' + case['band']['side'],
                   'band:sliver>=1-meta-tile' if case['band']['sliver_in_meta_tiles'] >= 1 else 'band:sliver<1-meta-tile']
        cl += ['coverage:' + c for c in _coverage_classes(case['coverage'])]
        if inside_after_save:
            cl.append('resume:interruption-after-saved-progress')
        for s in out.get('excused', ()):
            cl.append('excused:' + s.split('/')[-1])
        if N <= REAL_ALL_K:
            cl.append('k:all-real')
        else:
            cl.append('k:all-inferred+sampled-real')
        return out, info
    finally:
        env.close()


def _judge_resume(out, case, full, full_set, k, done, b, where, first_index=None):
    if b.outcome == 'runaway':
        return
    if b.outcome != 'complete':
        out.setdefault(SIG_RESUME_ABORT, 'the run continued from the progress saved before interruption %s ended with %s'
                       % (where, b.outcome))
        return
    missing = full_set - set(b.handed)
    if done is None:
        lost = [h for h in missing if first_index[h] >= k]
    else:
        lost = [h for h in missing if h not in done]
    if lost:
        lost.sort()
        out.setdefault(SIG_RESUME, 'interruption %s of %d process calls, continued from the saved progress: %d tile sets of '
                       'the uninterrupted run are in neither run, e.g. task %d tiles %r'
                       % (where, len(full.handed), len(lost), lost[0][0], list(lost[0][1])[:4]))


def _is_square(b):
    return abs((b[2] - b[0]) - (b[3] - b[1])) <= 1e-9 * abs(b[2] - b[0])


def _bucket(n):
    for lim in (0, 1, 3, 10, 30, 60, 150, 400):
        if n <= lim:
            return '<=%d' % lim
    return '>400'


def _levels_class(levels):
    levels = list(levels)
    if len(levels) == 1:
        return 'single'
    if levels == list(range(levels[0], levels[-1] + 1)):
        return 'contiguous-from-0' if levels[0] == 0 else 'contiguous-from->0'
    return 'with-gaps'


def _coverage_classes(covs):
    if not covs:
        return ['none(full grid)']
    out = set()
    if len(covs) > 1:
        out.add('multi')

    def walk(c, grid_srs_known=None):
        if c['type'] in ('bbox', 'polygon'):
            out.add(c['type'] + (':other-srs' if c.get('other_srs') else ''))
            if c.get('shape'):
                out.add('shape:' + c['shape'])
            if c.get('placement'):
                out.add('placement:' + c['placement'])
        else:
            out.add(c['type'])
            for p in c['parts']:
                walk(p)
    for c in covs:
        walk(c)
    return sorted(out)


# ------------------------------------------------------------------------------------------------
# generator: abstract spec (hypothesis) -> concrete case (plain floats, JSON-able, replayable)

TILE_SIZES = [(256, 256), (256, 256), (512, 512), (64, 64), (100, 100), (256, 128), (128, 256), (16, 16)]
PX_OFFSETS = [0.0, 0.0, 0.05, -0.05, 0.15, -0.15, 0.5, -0.5, 3.0, -3.0, 20.0, -20.0, 0.099, -0.101]
SRS_DOMAIN = {
    'EPSG:3857': (-20037508.342789244, -20037508.342789244, 20037508.342789244, 20037508.342789244),
    'EPSG:4326': (-180.0, -90.0, 180.0, 90.0),
    'EPSG:25832': (200000.0, 5200000.0, 900000.0, 6100000.0),
}
OTHER_SRS = {'EPSG:3857': 'EPSG:4326', 'EPSG:4326': 'EPSG:3857', 'EPSG:25832': 'EPSG:4326'}
SHAPES = {
    # unit-square templates (exterior, holes)
    'triangle': ([(0, 0), (1, 0.1), (0.3, 1)], []),
    'quad': ([(0.1, 0), (1, 0.2), (0.8, 1), (0, 0.7)], []),
    'diamond': ([(0.5, 0), (1, 0.5), (0.5, 1), (0, 0.5)], []),
    'L': ([(0, 0), (1, 0), (1, 0.35), (0.4, 0.35), (0.4, 1), (0, 1)], []),
    'U': ([(0, 0), (1, 0), (1, 1), (0.7, 1), (0.7, 0.3), (0.3, 0.3), (0.3, 1), (0, 1)], []),
    'hole': ([(0, 0), (1, 0), (1, 1), (0, 1)], [[(0.3, 0.3), (0.3, 0.7), (0.7, 0.7), (0.7, 0.3)]]),
    'rect': ([(0, 0), (1, 0), (1, 1), (0, 1)], []),
    'sliver': ([(0, 0), (1, 0.9), (1, 1), (0, 0.1)], []),
}

unit = st.floats(0.0, 1.0, allow_nan=False)


@st.composite
def window_specs(draw):
    """a rectangle relative to the tiles of a focus level: (start cell fraction of the grid, size in tiles, px offsets)"""
    return {
        'u': (draw(unit), draw(unit)),
        'size': (draw(st.sampled_from([0.02, 0.3, 1.0, 1.5, 2.0, 3.0, 3.0, 4.5, 7.0, 7.0, 11.0])),
                 draw(st.sampled_from([0.02, 0.3, 1.0, 1.5, 2.0, 3.0, 3.0, 4.5, 7.0, 7.0, 11.0]))),
        'snap': draw(st.sampled_from(['edge', 'edge', 'edge', 'free', 'coarse', 'coarse'])),
        'off': [draw(st.sampled_from(PX_OFFSETS)) for _ in range(4)],
        'frac': [draw(unit) for _ in range(4)],
        'beyond': draw(st.sampled_from([None, None, None, None, None, 'w', 'e', 's', 'n', 'all'])),
    }


@st.composite
def coverage_specs(draw, depth=0):
    kinds = ['bbox', 'bbox', 'polygon', 'polygon']
    if depth == 0:
        kinds += ['union', 'intersection', 'difference']
    kind = draw(st.sampled_from(kinds))
    if kind in ('bbox', 'polygon'):
        c = {'type': kind, 'window': draw(window_specs()), 'other_srs': draw(st.integers(0, 3)) == 0}
        if kind == 'polygon':
            c['shape'] = draw(st.sampled_from(sorted(SHAPES)))
            c['n_polys'] = draw(st.sampled_from([1, 1, 1, 2]))
        return c
    return {'type': kind, 'parts': [draw(coverage_specs(depth=1)), draw(coverage_specs(depth=1))],
            'shift': (draw(st.sampled_from([0.0, 0.3, 0.5, 0.9, 1.5])), draw(st.sampled_from([0.0, 0.3, 0.5])))}


@st.composite
def specs(draw):
    srs = draw(st.sampled_from(['EPSG:3857', 'EPSG:3857', 'EPSG:4326', 'EPSG:25832']))
    g = {'srs': srs, 'origin': draw(st.sampled_from(['ll', 'ul'])), 'tile_size': draw(st.sampled_from(TILE_SIZES)),
         'mode': draw(st.sampled_from(['f2', 'f2', 'sqrt2', 'factor', 'custom', 'custom', 'nice', 'minres'])),
         'global': srs != 'EPSG:25832' and draw(st.integers(0, 3)) == 0,
         'pos': (draw(unit), draw(unit)), 'logsize': draw(unit),
         'aspect': draw(st.sampled_from([1.0, 1.0, 0.5, 0.7, 1.5, 2.3, 3.0])),
         'round': draw(st.booleans()),
         'num_levels': draw(st.integers(1, 9)),
         'res_factor': draw(st.sampled_from([1.3, 1.5, 1.7, 2.5, 3.0, 2.0])),
         'ratios': draw(st.lists(st.sampled_from([2.0, 2.0, 1.5, 1.4142135623730951, 2.5, 3.0, 4.0, 1.1, 10.0, 1.9, 2.2]),
                                 min_size=8, max_size=8)),
         'first': draw(st.sampled_from([1.0, 1.0, 0.5, 0.37, 0.77, 1.3])),
         }
    spec = {
        'grid': g,
        'meta': (draw(st.integers(1, 4)), draw(st.integers(1, 4))) if draw(st.booleans()) else
                (lambda m: (m, m))(draw(st.integers(1, 4))),
        'focus': draw(st.sampled_from([0, 0, 0, 0, 1, 1, 2, 3, 5])),     # focus level, counted from the finest
        'levels': {'kind': draw(st.sampled_from(['list', 'list', 'list', 'range', 'all'])),
                   'mask': draw(st.lists(st.booleans(), min_size=12, max_size=12)),
                   'from': draw(st.sampled_from([None, 0, 1, 2, 3])), 'deeper': draw(st.sampled_from([0, 0, 1, 1, 2])),
                   'bogus': draw(st.booleans())},
        'n_cov': draw(st.sampled_from([0, 1, 1, 1, 1, 1, 2, 2, 3])),
        'coverage': [draw(coverage_specs()) for _ in range(3)],
        'skip': draw(st.sampled_from([0, 0, 0, 1, 2])),
        'refresh': draw(st.sampled_from(['all', 'all', 'all', 'before'])),
        'rescale': draw(st.sampled_from([None] * 8 + ['upscale_tiles', 'downscale_tiles'])),
        'save': draw(st.one_of(
            st.just({'kind': 'all'}), st.just({'kind': 'all'}),
            st.builds(lambda n, o: {'kind': 'mod', 'n': n, 'off': o}, st.integers(2, 6), st.integers(0, 5)),
            st.builds(lambda s, p: {'kind': 'hash', 'salt': s, 'p': p}, st.integers(0, 10 ** 6),
                      st.sampled_from([0.1, 0.3, 0.6])))),
        'k_picks': [draw(unit) for _ in range(16)],
        'exc': draw(st.sampled_from(['seed', 'keyboard'])),
        # a good share of cases: wide bbox coverage in a non-cylindrical SRS pair, one (curved) edge crossing a small
        # regional grid whose tiles are about as large as the sliver between the edge's chord and its arc
        'band': draw(st.one_of(st.none(), st.none(), st.none(), band_specs())),
    }
    return spec


BAND_PAIRS = [('EPSG:25832', 'EPSG:4326'), ('EPSG:25832', 'EPSG:4326'), ('EPSG:31467', 'EPSG:4326'),
              ('EPSG:3035', 'EPSG:4326'), ('EPSG:4326', 'EPSG:25832'), ('EPSG:3857', 'EPSG:25832')]
BAND_CENTRE = {'EPSG:25832': 9.0, 'EPSG:31467': 9.0, 'EPSG:3035': 10.0}


@st.composite
def band_specs(draw):
    return {'pair': draw(st.sampled_from(BAND_PAIRS)),
            'edge': draw(st.sampled_from(['auto', 'auto', 'auto', 's', 'n', 'w', 'e'])),
            'half': draw(st.sampled_from([1.5, 2.0, 3.0, 3.0, 3.5])),      # half width (degrees / 70 km units)
            'off': draw(st.sampled_from([0.0, 0.0, 0.3, -0.3, 1.0, -1.0])),  # centre offset from the central meridian
            'lat': draw(st.sampled_from([44.0, 47.5, 50.0, 50.0, 53.0, 57.0])),
            'ratio': draw(st.sampled_from([0.3, 0.45, 0.45, 0.7, 1.2, 2.5])),  # meta tile span / sliver
            'nc': (draw(st.integers(5, 11)), draw(st.integers(4, 8))),
            'shift': (draw(st.sampled_from([0.0, 0.0, 0.25, -0.25])), draw(st.sampled_from([0.5, 0.5, 0.3, 0.8]))),
            'steps': draw(st.sampled_from([(2.0, 2.0), (2.0, 2.0), (3.0, 2.0), (2.0, 1.5), (4.0,)]))}


def _grid_from_spec(g):
    """abstract grid spec -> concrete grid description"""
    srs = g['srs']
    dom = SRS_DOMAIN[srs]
    out = {'srs': srs, 'origin': g['origin'], 'tile_size': list(g['tile_size'])}
    dw, dh = dom[2] - dom[0], dom[3] - dom[1]
    if g['global']:
        out['bbox'] = None
        w, h = dw, dh
    else:
        w = dw * 10 ** (-4.0 * g['logsize'])
        h = min(w * g['aspect'], dh)
        w = min(w, dw)
        x0 = dom[0] + (dw - w) * g['pos'][0]
        y0 = dom[1] + (dh - h) * g['pos'][1]
        bbox = [x0, y0, x0 + w, y0 + h]
        if g['round']:
            q = 10.0 ** math.floor(math.log10(w) - 2)
            bbox = [math.floor(x0 / q) * q, math.floor(y0 / q) * q, math.floor((x0 + w) / q) * q, math.floor((y0 + h) / q) * q]
            if bbox[2] <= bbox[0] or bbox[3] <= bbox[1]:
                bbox = [x0, y0, x0 + w, y0 + h]
        out['bbox'] = bbox
        w, h = bbox[2] - bbox[0], bbox[3] - bbox[1]
    mode = g['mode']
    n = g['num_levels']
    init = max(w / g['tile_size'][0], h / g['tile_size'][1])
    if mode == 'f2':
        out.update(mode='f2', num_levels=n)
    elif mode == 'sqrt2':
        out.update(mode='sqrt2', num_levels=min(2 * n, 14))
    elif mode == 'factor':
        out.update(mode='factor', res_factor=g['res_factor'], num_levels=min(n, 8))
    elif mode == 'minres':
        out.update(mode='minres', min_res=init * g['first'], res_factor=g['res_factor'] if g['round'] else 2.0,
                   num_levels=min(n, 8))
    else:
        r = init * g['first']
        res = []
        for q in g['ratios'][:min(n, 8)]:
            res.append(r)
            r = r / q
        if mode == 'nice':
            res = sorted(set(float('%.2g' % v) for v in res), reverse=True)
        out.update(mode='custom', res=res)
    return out


def concretize_band(spec):
    """wide bbox coverage given in another, non-cylindrically related SRS; small regional grid on its most curved edge"""
    b = spec['band']
    gsrs, csrs = b['pair']
    if csrs == 'EPSG:4326':
        lc = BAND_CENTRE[gsrs] + b['off']
        box = [lc - b['half'], b['lat'], lc + b['half'], b['lat'] + 1.0 + 0.25 * b['half']]
    else:
        xc = 500000.0 + b['off'] * 70000.0
        y0 = _tr('EPSG:4326', csrs, [(9.0, b['lat'])])[0][1]
        box = [xc - b['half'] * 70000.0, y0, xc + b['half'] * 70000.0, y0 + 120000.0]
    dense = _hull_box(box, csrs, gsrs, N_DENSE)
    corner = _hull_box(box, csrs, gsrs, 1)
    sliver = [abs(dense[i] - corner[i]) for i in range(4)]
    side = {'s': 1, 'n': 3, 'w': 0, 'e': 2}.get(b['edge'])
    if side is None:
        side = max(range(4), key=lambda i: sliver[i])
    S = sliver[side]
    ext = max(dense[2] - dense[0], dense[3] - dense[1])
    if S < ext * 1e-5:
        S = ext / 200.0           # a straight edge: nothing can be lost there, still a legitimate task
    meta = list(spec['meta'])
    tile_size = list(spec['grid']['tile_size'])
    span = S * b['ratio']        # span of one meta tile of the finest level
    res = span / (max(meta) * max(tile_size))
    ncx, ncy = b['nc']
    w, h = ncx * meta[0] * tile_size[0] * res, ncy * meta[1] * tile_size[1] * res
    # centre of the grid: on the edge, where the outline is farthest out
    cx, cy = (dense[0] + dense[2]) / 2.0, (dense[1] + dense[3]) / 2.0
    if side in (1, 3):
        cy = dense[side] + (S * b['shift'][1] if side == 1 else -S * b['shift'][1])
        cx += b['shift'][0] * (dense[2] - dense[0])
    else:
        cx = dense[side] + (S * b['shift'][1] if side == 0 else -S * b['shift'][1])
        cy += b['shift'][0] * (dense[3] - dense[1])
    rl = [res]
    for q in b['steps']:
        rl.insert(0, rl[0] * q)
    gd = {'srs': gsrs, 'origin': spec['grid']['origin'], 'tile_size': tile_size,
          'bbox': [cx - w / 2.0, cy - h / 2.0, cx + w / 2.0, cy + h / 2.0], 'mode': 'custom', 'res': rl}
    if gsrs == 'EPSG:4326' and not (-84.0 < gd['bbox'][1] and gd['bbox'][3] < 84.0):
        return None, 'coverage-degenerate'
    n = len(rl)
    lv = spec['levels']
    if lv['kind'] == 'list':
        chosen = [z for z in range(n) if not lv['mask'][z % 12]]
        if n - 1 not in chosen:
            chosen.append(n - 1)
        levels = {'kind': 'list', 'levels': chosen}
    elif lv['kind'] == 'range':
        levels = {'kind': 'range', 'from': lv['from'] if lv['from'] is None else min(lv['from'], n - 1), 'to': n - 1}
    else:
        levels = {'kind': 'all'}
    cov = {'type': 'bbox', 'srs': csrs, 'bbox': box, 'other_srs': True, 'placement': 'band'}
    case = {'grid': gd, 'meta': meta, 'levels': levels, 'coverage': [cov], 'skip': spec['skip'],
            'refresh': spec['refresh'], 'rescale': spec['rescale'], 'save': spec['save'],
            'k_picks': spec['k_picks'], 'exc': spec['exc'],
            'band': {'pair': '%s on %s' % (csrs, gsrs), 'side': 'wsen'[side], 'sliver_in_meta_tiles': round(1.0 / b['ratio'], 2)}}
    return case, None


def concretize(spec):
    """-> (case, None) or (None, reason).  Deterministic; the case holds plain numbers only."""
    if spec.get('band'):
        return concretize_band(spec)
    from mapproxy.srs import SRS
    gd = _grid_from_spec(spec['grid'])
    try:
        grid = make_grid(gd)
    except (ValueError, AssertionError, ZeroDivisionError, IndexError, OverflowError):
        return None, 'grid-rejected-by-config'
    res = list(grid.resolutions)
    mag = max(abs(v) for v in grid.bbox)
    if len(set(res)) != len(res) or any(r < 1e-9 * mag or r < 1e-7 for r in res):
        return None, 'grid-outside-meaningful-range'
    meta = list(spec['meta'])
    pyr = Pyramid(grid, meta)
    n = grid.levels
    zf = max(0, n - 1 - spec['focus'])
    srs = gd['srs']
    dom = SRS_DOMAIN[srs]

    def window(w, shift=(0.0, 0.0)):
        sx, sy = [float(v) for v in pyr.ref.span(zf)]
        gx, gy = grid.grid_sizes[zf]
        r = float(pyr.ref.res[zf])
        ix = round(w['u'][0] * max(0.0, gx - w['size'][0]))
        iy = round(w['u'][1] * max(0.0, gy - w['size'][1]))
        x0 = grid.bbox[0] + (ix + shift[0] * w['size'][0]) * sx
        y0 = grid.bbox[1] + (iy + shift[1] * w['size'][1]) * sy
        b = [x0, y0, x0 + w['size'][0] * sx, y0 + w['size'][1] * sy]
        # keep the window inside the area where the SRS (and the other SRS) is usable: translate, then clip
        lim = list(dom)
        if srs == 'EPSG:4326':
            lim[1], lim[3] = -84.0, 84.0
        for lo, hi in ((0, 2), (1, 3)):
            if b[hi] > lim[hi]:
                d = min(b[hi] - lim[hi], b[lo] - lim[lo])
                b[lo], b[hi] = b[lo] - max(d, 0.0), b[hi] - max(d, 0.0)
        snap = w['snap']
        if snap == 'coarse' and zf == 0:
            snap = 'edge'
        if snap == 'edge':
            b = [b[i] + w['off'][i] * r for i in range(4)]
        elif snap == 'free':
            b = [b[0] + w['frac'][0] * sx, b[1] + w['frac'][1] * sy, b[2] + w['frac'][2] * sx, b[3] + w['frac'][3] * sy]
        else:
            # some edges sit a fraction of the *coarser* level's 0.1-px inset beyond a tile edge of that coarser level
            lc = min(zf - 1, int(w['frac'][0] * zf))
            csx, csy = [float(v) for v in pyr.ref.span(lc)]
            dl = float(pyr.ref.res[lc]) / 10.0
            f = [0.5, 0.9, 1.1, 0.2, 3.0][int(w['frac'][1] * 4.999)]
            which = int(w['frac'][2] * 14.999) + 1        # non-empty subset of the four edges
            for i in range(4):
                if not which & (1 << i):
                    continue
                span, org = (csx, grid.bbox[0]) if i % 2 == 0 else (csy, grid.bbox[1])
                edge = org + round((b[i] - org) / span) * span
                if grid.origin == 'ul' and i % 2 == 1:
                    edge = grid.bbox[3] - round((grid.bbox[3] - b[i]) / span) * span
                b[i] = edge - f * dl if i < 2 else edge + f * dl
            if b[2] <= b[0]:
                b[2] = b[0] + w['size'][0] * sx
            if b[3] <= b[1]:
                b[3] = b[1] + w['size'][1] * sy
        gw, gh = grid.bbox[2] - grid.bbox[0], grid.bbox[3] - grid.bbox[1]
        by = w['beyond']
        if by in ('w', 'all'):
            b[0] = grid.bbox[0] - 0.07 * gw
        if by in ('e', 'all'):
            b[2] = grid.bbox[2] + 0.07 * gw
        if by in ('s', 'all'):
            b[1] = grid.bbox[1] - 0.07 * gh
        if by in ('n', 'all'):
            b[3] = grid.bbox[3] + 0.07 * gh
        b = [max(b[0], lim[0]), max(b[1], lim[1]), min(b[2], lim[2]), min(b[3], lim[3])]
        if not (b[2] - b[0] > 1e-3 * r and b[3] - b[1] > 1e-3 * r):
            return None
        return b

    def conc_cov(c, shift=(0.0, 0.0)):
        if c['type'] in ('bbox', 'polygon'):
            b = window(c['window'], shift)
            if b is None:
                return None
            wins.append(b)
            other = OTHER_SRS[srs] if c['other_srs'] else None
            if c['type'] == 'bbox':
                if other:
                    b = list(SRS(srs).transform_bbox_to(SRS(other), b))
                    if not all(math.isfinite(v) for v in b):
                        return None
                return {'type': 'bbox', 'srs': other or srs, 'bbox': b, 'other_srs': bool(other),
                        'placement': c['window']['snap']}
            ext, holes = SHAPES[c['shape']]
            wkts = []
            for pi in range(c['n_polys']):
                dx = pi * 1.2 * (b[2] - b[0])
                if b[2] + dx > dom[2]:
                    dx = 0.0
                wins.append([b[0] + dx, b[1], b[2] + dx, b[3]])

                def pt(p):
                    xy = (b[0] + dx + p[0] * (b[2] - b[0]), b[1] + p[1] * (b[3] - b[1]))
                    if other:
                        xy = SRS(srs).transform_to(SRS(other), xy)
                    return xy
                rings = []
                for ring in [ext] + holes:
                    pts = [pt(p) for p in ring]
                    pts.append(pts[0])
                    if not all(math.isfinite(v) for p in pts for v in p):
                        return None
                    rings.append('(' + ', '.join('%r %r' % (float(p[0]), float(p[1])) for p in pts) + ')')
                wkts.append('POLYGON(' + ', '.join(rings) + ')')
            return {'type': 'polygon', 'srs': other or srs, 'wkt': wkts, 'shape': c['shape'], 'other_srs': bool(other),
                    'placement': c['window']['snap']}
        parts = [conc_cov(c['parts'][0]), conc_cov(c['parts'][1], c['shift'])]
        if any(p is None for p in parts):
            return None
        return {'type': c['type'], 'parts': parts}

    covs = []
    wins = []
    for c in spec['coverage'][:spec['n_cov']]:
        cc = conc_cov(c)
        if cc is None:
            return None, 'coverage-degenerate'
        covs.append(cc)

    # levels: chosen relative to the focus level, trimmed to a bounded size
    lv = spec['levels']
    top = min(n - 1, zf + lv['deeper'])
    if lv['kind'] == 'all':
        levels = {'kind': 'all'}
        chosen = list(range(n))
    elif lv['kind'] == 'range':
        lo = lv['from'] if lv['from'] is None else min(lv['from'], top)
        levels = {'kind': 'range', 'from': lo, 'to': top}
        chosen = list(range(lo or 0, top + 1))
    else:
        chosen = [z for z in range(top + 1) if not lv['mask'][z % 12]]
        if top not in chosen:
            chosen.append(top)
        listed = list(chosen)
        if lv['bogus']:
            listed = listed + [n + 3, listed[0]]     # invalid and duplicate entries are dropped by the loader
        levels = {'kind': 'list', 'levels': listed}
    if not chosen:
        return None, 'no-valid-level'
    case = {'grid': gd, 'meta': meta, 'levels': levels, 'coverage': covs, 'skip': spec['skip'],
            'refresh': spec['refresh'], 'rescale': spec['rescale'], 'save': spec['save'],
            'k_picks': spec['k_picks'], 'exc': spec['exc']}
    # size guard (flat estimate in the grid SRS from the windows; the built task is re-checked in evaluate)
    if covs:
        bnd = (min(b[0] for b in wins), min(b[1] for b in wins), max(b[2] for b in wins), max(b[3] for b in wins))
    else:
        bnd = grid.bbox
    bnd = tuple(Fr(v) for v in bnd)
    while estimate_cells(pyr, bnd, chosen) > MAX_CELLS * 0.7:
        if lv['kind'] == 'all' or len(chosen) == 1:
            if lv['kind'] == 'all' and n > 1:
                # cannot trim "all levels": turn it into a range
                lv = dict(lv, kind='range')
                levels = {'kind': 'range', 'from': None, 'to': n - 1}
                case['levels'] = levels
                continue
            return None, 'task-too-large'
        chosen = chosen[:-1]
        if levels['kind'] == 'range':
            levels['to'] = chosen[-1]
            if levels['from'] is not None and levels['from'] > levels['to']:
                return None, 'task-too-large'
        else:
            levels['levels'] = [z for z in levels['levels'] if z in chosen or z >= n]
    return case, None


# ------------------------------------------------------------------------------------------------
# driver
#
# One evaluation costs 0.1-1 s (dozens of real walks), so Hypothesis' shrinker (hundreds of evaluations per
# signature, once more per additional signature) does not fit the budget.  Instead every evaluated case reports
# *all* its violated clauses, the smallest case per root-cause signature is kept while the search simply goes on
# (one defect never hides another), and the kept case is reduced by a bounded structural minimiser.


def check_spec(spec, st_):
    case, reason = concretize(spec)
    if case is None:
        st_.excluded[reason] += 1
        return None
    out, info = evaluate(case, st_, _open_signatures())
    if info is None:
        return None
    st_.case(key=case, nontrivial=info['nontrivial'], classes=info['classes'], sample=_sample(case, info))
    best = st_.extra.setdefault('_best', {})
    size = (info.get('process_calls') or 0, len(json.dumps(case)))
    for sig in PRIORITY:
        if sig in out and (sig not in best or size < best[sig][0]):
            best[sig] = (size, out[sig], case)
    return None


def _sample(case, info):
    s = dict(case)
    s.pop('k_picks', None)
    s['_process_calls'] = info.get('process_calls')
    s['_required_meta_tiles'] = info.get('required')
    s['_progress_states'] = info.get('states')
    return s


def minimise(case, sig, budget=24):
    """bounded structural reduction of a violating concrete case (keeps the root-cause signature)"""
    scratch = core.Stats()

    if case.get('handoff'):
        return case, None

    def still(c):
        try:
            out, info = evaluate(c, scratch, excuse=())
        except Exception:
            return None
        return out.get(sig) if info is not None else None

    def variants(c):
        if c.get('rescale'):
            yield dict(c, rescale=None)
        if c['refresh'] != 'all':
            yield dict(c, refresh='all')
        if len(c['coverage']) > 1:
            for part in c['coverage']:
                yield dict(c, coverage=[part])
        for i, part in enumerate(c['coverage']):
            if part['type'] not in ('bbox', 'polygon'):
                for sub in part['parts']:
                    yield dict(c, coverage=c['coverage'][:i] + [sub] + c['coverage'][i + 1:])
            elif part['type'] == 'polygon' and len(part['wkt']) > 1:
                for w in part['wkt']:
                    yield dict(c, coverage=c['coverage'][:i] + [dict(part, wkt=[w])] + c['coverage'][i + 1:])
        if c['skip']:
            yield dict(c, skip=0)
        if list(c['meta']) != [1, 1]:
            yield dict(c, meta=[1, 1])
        lv = c['levels']
        if lv['kind'] == 'list' and len(set(lv['levels'])) > 1:
            for z in sorted(set(lv['levels']), reverse=True):
                yield dict(c, levels={'kind': 'list', 'levels': [z]})
            for z in sorted(set(lv['levels'])):
                yield dict(c, levels={'kind': 'list', 'levels': [x for x in lv['levels'] if x != z]})
        elif lv['kind'] != 'list':
            n = len(c['grid']['res']) if c['grid']['mode'] == 'custom' else c['grid']['num_levels']
            lo = (lv.get('from') or 0) if lv['kind'] == 'range' else 0
            hi = min(n - 1, lv['to']) if lv['kind'] == 'range' and lv.get('to') is not None else n - 1
            yield dict(c, levels={'kind': 'list', 'levels': list(range(lo, hi + 1))})
        if c['save'].get('kind') != 'all' and sig not in (SIG_RESUME, SIG_RESUME_ABORT):
            yield dict(c, save={'kind': 'all'})

    msg = None
    progress = True
    while progress and budget > 0:
        progress = False
        for v in variants(case):
            if budget <= 0:
                break
            budget -= 1
            m = still(v)
            if m:
                case, msg, progress = v, m, True
                break
    return case, msg


# ------------------------------------------------------------------------------------------------
# sub-check: hand-off through the REAL TileWorkerPool (the walks above replace the pool by a recorder)
#
# The real pool (real process()/stop()) is run with thread workers and a queue whose put() timeout is virtual: when
# the queue really is full (the harness pauses the workers), put() raises Queue.Full as often as the generated
# script says - what a real queue does after 5 s each - and then lets the workers drain it.  Every batch given to
# process() has to arrive at exactly one worker; a pool whose workers are all dead has to raise SeedInterrupted.


@st.composite
def handoff_specs(draw):
    n = draw(st.integers(2, 14))
    return {'handoff': True, 'size': draw(st.integers(1, 3)),
            'batches': [{'pause': draw(st.sampled_from([False, False, True])), 'full': draw(st.integers(0, 3)),
                         'tiles': draw(st.integers(1, 4))} for _ in range(n)],
            'dead_at': draw(st.sampled_from([None, None, None, None, 'end'])),
            'progress_logger': draw(st.booleans())}


def run_handoff(case):
    import queue as pyqueue
    import threading
    from mapproxy.seed import seeder

    gate = threading.Event()
    gate.set()
    lock = threading.Lock()
    received = []
    state = {'fulls': 0, 'raised': 0, 'kill': False}

    class ScriptedQueue(pyqueue.Queue):
        def put(self, item, block=True, timeout=None):
            if item is not None and timeout is not None and self.full():
                if state['fulls'] > 0:
                    state['fulls'] -= 1
                    state['raised'] += 1
                    raise pyqueue.Full          # "nobody took a batch for `timeout` seconds"
                gate.set()                      # the workers get free again
            if state['kill'] and timeout is not None and self.full():
                raise pyqueue.Full
            try:
                pyqueue.Queue.put(self, item, True, 20 if timeout is None else max(timeout, 20))
            except pyqueue.Full:
                if item is None:
                    raise
                raise core.HarnessError('hand-off harness: queue not drained within 20 s')

    class StubWorker(threading.Thread):
        def __init__(self, task, tiles_queue, conf):
            threading.Thread.__init__(self)
            self.daemon = True
            self.q = tiles_queue

        def run(self):
            while True:
                if not gate.wait(30):
                    return
                if state['kill']:
                    return
                try:
                    item = self.q.get(timeout=0.02)
                except pyqueue.Empty:
                    continue
                if item is None:
                    return
                with lock:
                    received.append(item)

    class Logger(object):
        steps = 0

        def log_step(self, progress):
            Logger.steps += 1

    handed = []
    out = {}
    old_queue = seeder.queue_class
    seeder.queue_class = ScriptedQueue
    seed_log = logging.getLogger('mapproxy.seed.seeder')
    old_level = seed_log.level
    seed_log.setLevel(logging.ERROR)         # "no workers left, stopping" is expected in the dead-pool cases
    pool = None
    try:
        pool = seeder.TileWorkerPool(object(), StubWorker, size=case['size'], dry_run=False,
                                     progress_logger=Logger() if case['progress_logger'] else None)
        for i, b in enumerate(case['batches']):
            tiles = [(i, j, 7) for j in range(b['tiles'])]
            if b['pause']:
                gate.clear()
            state['fulls'] = b['full']
            pool.process(tiles, None)
            handed.append(tiles)
        state['fulls'] = 0
        if case['dead_at'] == 'end':
            # all workers die with a full queue: the next batch cannot be handed over, the pool has to say so
            state['kill'] = True
            gate.set()
            for w in pool.procs:
                w.join(20)
            filler = 0
            try:
                while filler < 2 * case['size'] + 2:
                    filler += 1
                    pool.process([(999, filler, 7)], None)
                out[SIG_HANDOFF_DEAD] = ('all %d workers are dead and the queue is full, but process() returned '
                                         'normally %d times' % (case['size'], filler))
            except seeder.SeedInterrupted:
                pass
        else:
            gate.set()
            pool.stop()
            for w in pool.procs:
                if w.is_alive():
                    raise core.HarnessError('hand-off harness: worker still alive after stop()')
            got = sorted(received)
            lost = [t for t in handed if t not in got]
            if lost:
                out[SIG_HANDOFF_LOST] = ('%d of %d batches given to TileWorkerPool.process() never reached a worker (pool size %d, '
                                         'queue full at hand-over %d times), e.g. %r'
                                         % (len(lost), len(handed), case['size'], state['raised'], lost[0]))
            if len(got) > len(set(map(tuple, got))) or len(got) > len(handed):
                out[SIG_HANDOFF_DUP] = '%d batches handed, %d received by workers' % (len(handed), len(got))
    finally:
        seeder.queue_class = old_queue
        seed_log.setLevel(old_level)
        state['kill'] = True
        gate.set()
        if pool is not None:
            for w in pool.procs:
                if w.is_alive():
                    try:
                        pool.tiles_queue.put_nowait(None)
                    except Exception:
                        pass
            for w in pool.procs:
                w.join(5)
    info = {'nontrivial': state['raised'] > 0,
            'classes': ['handoff:pool-size-%d' % case['size'], 'handoff:queue-full-events:' + _bucket(state['raised']),
                        'handoff:' + ('dead-pool' if case['dead_at'] else 'stop')]}
    return out, info


def check_handoff(case, st_):
    out, info = run_handoff(case)
    st_.case(key=case, nontrivial=info['nontrivial'], classes=info['classes'], sample=case if info['nontrivial'] else None)
    best = st_.extra.setdefault('_best', {})
    size = (len(case['batches']), len(json.dumps(case)))
    for sig in PRIORITY:
        if sig in out and (sig not in best or size < best[sig][0]):
            best[sig] = (size, out[sig], case)
    return None


def random_shard(shard, nshards, seed, tier):
    st_ = core.Stats()
    n = int((N_QUICK if tier == 'quick' else N_THOROUGH) * float(os.environ.get('VERIF_C11_SCALE') or 1)) // nshards
    core.hyp_search(specs(), check_spec, st_, max_examples=n, seed=seed, shrink=False)
    core.hyp_search(handoff_specs(), check_handoff, st_, max_examples=(60 if tier == 'quick' else 1500), seed=seed, shrink=False)
    for sig, (size, msg, case) in st_.extra.pop('_best', {}).items():
        v = core.Violation(sig, msg, case)
        v.size = size
        st_.violations.append(v)
    return st_


def run(tier, seed, stats):
    merged = core.parallel(random_shard, 16, seed, tier)
    best = {}
    for v in merged.violations:
        if v.signature not in best or v.size < best[v.signature].size:
            best[v.signature] = v
    merged.violations = []
    for sig in PRIORITY:
        if sig in best:
            v = best[sig]
            case, msg = minimise(_normalise(v.case), sig)
            merged.violations.append(core.Violation(sig, msg or v.message, case))
    stats.merge(merged)
    stats.extra['open_findings_excused_by_signature'] = sorted(s for s in _open_signatures() if s in EXCUSABLE)


def replay(case, stats):
    """Re-execute one concrete case; nothing is excused (an open finding shows up as KNOWN-FINDING)."""
    if case.get('handoff'):
        out, info = run_handoff(_normalise(case))
    else:
        out, info = evaluate(_normalise(case), stats, excuse=(), size_guard=False)
    if info is not None:
        stats.case(key=case, nontrivial=info['nontrivial'], classes=info['classes'])
    return [core.Violation(sig, out[sig], case) for sig in PRIORITY if sig in out]


def _normalise(case):
    return json.loads(json.dumps(case))
