"""C08 - Concurrent requests for one uncached tile: all correct, one upstream fetch.

2-6 requester threads run the REAL TileManager.load_tile_coords / TileCreator / TileLocker / FileLock code on a real
FileCache (or per-level sqlite cache) in a mkdtemp directory under the deterministic scheduler (vcheck/detsched.py).
Yield points sit in front of every cache read (is_cached, load_tile, load_tiles), every cache write (store_tile,
store_tiles), every upstream call (get_map) and every lock operation (one try-lock attempt = one atomic step, the
unlock = one atomic step, the sleep of the retry loop = the scheduler's virtual sleep).  "Thread deployment" = one
shared TileManager per cache, "multi-process deployment" = one TileManager (own cache object, own locker) per
requester sharing only the cache directory and the lock directory.  See DESIGN.md section 9.
"""
import collections
import contextlib
import json
import os
import random
import subprocess
import sys
import queue as real_queue
import shutil
import tempfile
import threading
import time as real_time
import traceback

import numpy as np
from hypothesis import strategies as st

from .. import core
from .. import detsched

PROPERTY = 'C08'
LEVEL = 'exploration'
RULE = ('A case = configuration (thread / multi-process deployment; file cache or per-level sqlite cache; no meta tiling, '
        'WMS-like source with meta_size 1x1..3x2 and meta_buffer 0/3/8, minimize_meta_requests, tiled source with '
        'bulk_meta_tiles; concurrent_tile_creators 1-2; one or two caches sharing one lock directory; lock timeout 60 s or '
        '2-4 polling steps; optionally some tiles already cached; optionally the k-th TileLocker.lock() call of every process '
        '(thread deployment: of the shared process) runs the stale-lock scan of the lock directory, with yield points at its '
        'listdir / isfile / getmtime / unlink calls; optionally one requester that is suspended while it '
        'holds its first tile lock until every requester of other meta tiles has finished) x 2-6 requesters, each asking '
        'load_tile_coords for one tile or a rectangle of up to 3x3 tiles (patterns: all the same tile / tiles of one meta '
        'tile / different meta tiles, also the same x,y on another level or in another cache / rectangles spanning meta '
        'tiles) x one schedule = the list of all scheduler decisions at the cache-read, cache-write, lock, unlock, sleep, '
        'upstream-call and worker-queue yield points. Schedules come from (i) a stateless DFS that executes EVERY '
        'schedule with at most k preemptions for the 2-requester configurations listed in coverage.exhaustive_scope and '
        '(ii) Hypothesis (sparse preemption lists, shrunk towards no preemption). A case is non-trivial when at least '
        'two requesters found a tile of the same (cache, meta tile) missing in their check before taking the lock, i.e. '
        'the second one checked before the first one had stored (they overlap inside the check...store window); '
        'distinct = distinct (configuration, decision list). (iii) Cross-process sub-check with REAL interpreter '
        'processes started with different PYTHONHASHSEED values: for a handful of seed-derived (cache backend / file '
        'layout, meta-tiling options, tile coordinate, dimension values) the lock file path that TileManager.lock() uses, '
        'the lock_cache_id and the file-cache tile location must be identical in all processes and in the harness '
        'process; and for three configurations two such processes sharing cache and lock directory request the same '
        'uncached tile / meta tile at the same time (file barrier: the fetching process waits inside get_map until the '
        'other one has made its cache check) against a counting upstream - the upstream must be asked once; that case is '
        'non-trivial when both processes found the tile missing.')
ASSUMPTIONS = [
    'schedule granularity = cache reads / cache writes / one lock attempt / unlock / upstream call (property wording); code '
    'between two such calls is atomic; one try-lock attempt (open+flock+inode check) and the unlock (remove) are atomic '
    'steps, so the lock-file inode race (property C07) cannot occur here by construction',
    'real flock on real files in a mkdtemp directory (tmpfs when available); "processes" are threads with separate TileManager, '
    'cache and locker objects (flock is per open file description, so they contend exactly like processes)',
    'virtual clock for the lock retry loop: a sleeping waiter may be resumed at any time, the clock then jumps to its wake-up '
    'time; a requester that gets LockTimeout is counted (class f:lock-timeout), its response is not judged',
    'the stale-lock scan (cleanup_lockdir, really run on the first and every 50th lock() call of a process) is forced for one '
    'drawn lock() call per process; its file-system calls are yield points; lock files carry virtual mtimes (creation time on '
    'the virtual clock), so no lock younger than max_lock_time is ever stale and a correct scan removes nothing',
    'upstream = analytic ground function rendered for the requested bbox (vcheck/ground.py); a tile is "correct" when every '
    'channel of every pixel is within 3 levels of the ground function at the pixel centres of that tile (PNG, not paletted)',
    'upstream is asked "once": without minimize_meta_requests no tile is covered by two upstream calls of one cache; with '
    'minimize_meta_requests the meta tile is request specific, so only (a) two calls with the same bbox and (b) a call whose '
    'tiles are a subset of an earlier call inside one regular meta tile are judged; other double coverage is only counted',
    '"do not block each other": a failed lock attempt is a violation when holder and waiter need no common (cache, level, '
    'regular meta tile); with minimize_meta_requests the needed meta tiles are those of the bounding box of the request',
    'bulk_meta_tiles together with minimize_meta_requests is generated only while the C04 finding about that combination (fails '
    'without any concurrency) is not open; it is judged like plain bulk_meta_tiles (one upstream call per tile); meta_buffer stays '
    'below the tile size',
    'tile sets handed to load_tile_coords are full rectangles without duplicates, all of one level (what TMS/WMTS/WMS callers pass)',
    'cross-process sub-check: real time and real FileLock polling; a verdict is only "asked more than once" / "names differ", '
    'which no timing can produce on a correct tree; a pair of processes that did not overlap is counted inconclusive',
    'liveness is checked as: no deadlock under the scheduler (a run that exceeds the step bound is inconclusive)',
    'threads started by the code under test (concurrent_tile_creators=2: mapproxy.util.async_.ThreadPool workers) are adopted by '
    'the scheduler; their task/result queues are replaced by scheduler-aware queues with the same interface',
]

TILE = 16
GRID_BBOX = (0.0, 0.0, 128.0, 128.0)
RES = [4.0, 2.0, 1.0]
SRS = 'EPSG:3857'
EPS = 3
MAX_STEPS = 4000
SIG_C04_BULK_MIN = 'C04/exception/InvalidSourceQuery/bulk-minimized'
SIG_SQLITE_INIT = 'C08/cross-process/response/raised/OperationalError/no-such-table'
SIG_RACE = 'C08/response/no-image/cached-between-load-and-is_cached'

_G = {}
_req = threading.local()


def _env():
    """Process-wide immutable helpers (grid, ground function, image options, base config)."""
    if not _G:
        from mapproxy.grid import tile_grid
        from mapproxy.image.opts import ImageOptions
        from mapproxy.config.config import load_default_config
        from ..ground import Ground
        _G['grid'] = tile_grid(srs=SRS, bbox=list(GRID_BBOX), tile_size=(TILE, TILE), res=list(RES), origin='ll')
        _G['ground'] = Ground(SRS, r0=1.0, period_px=53.0)
        _G['opts'] = ImageOptions(format='image/png', colors=0)
        _G['conf'] = load_default_config()
        _G['expected'] = {}
        assert [tuple(s) for s in _G['grid'].grid_sizes] == [(2, 2), (4, 4), (8, 8)], _G['grid'].grid_sizes
    return _G


def grid_n(z):
    return int(round((GRID_BBOX[2] - GRID_BBOX[0]) / (TILE * RES[z])))


def expected(coord):
    env = _env()
    coord = tuple(coord)
    arr = env['expected'].get(coord)
    if arr is None:
        bbox = env['grid'].tile_bbox(coord)
        arr = env['ground'].render_array(bbox, (TILE, TILE), SRS).astype(np.int16)
        env['expected'][coord] = arr
    return arr


def matches(arr, coord):
    exp = expected(coord)
    return arr.shape == exp.shape and int(np.abs(arr - exp).max()) <= EPS


def identify(arr):
    """Which tile of the grid (if any) an image shows - for messages only."""
    for z in range(len(RES)):
        n = grid_n(z)
        for x in range(n):
            for y in range(n):
                if matches(arr, (x, y, z)):
                    return (x, y, z)
    return None


def decode(source):
    img = source.as_image()
    return np.asarray(img.convert('RGB')).astype(np.int16)


# ------------------------------------------------------------------------------------------------
# configuration model (independent of MapProxy: which tiles belong to which regular meta tile)

def has_meta(cfg):
    ms = tuple(cfg['meta_size'])
    if cfg['source'] == 'wms':
        return bool(cfg['meta_buffer']) or ms != (1, 1)
    return ms != (1, 1) and bool(cfg['bulk'])


def unit_of(cfg, coord):
    """Main coordinate of the regular meta tile (or the tile itself without meta tiling)."""
    x, y, z = coord
    if not has_meta(cfg):
        return (x, y, z)
    n = grid_n(z)
    mx, my = min(cfg['meta_size'][0], n), min(cfg['meta_size'][1], n)
    return (x // mx * mx, y // my * my, z)


def unit_tiles(cfg, coord):
    x0, y0, z = unit_of(cfg, coord)
    if not has_meta(cfg):
        return [(x0, y0, z)]
    n = grid_n(z)
    mx, my = min(cfg['meta_size'][0], n), min(cfg['meta_size'][1], n)
    return [(x, y, z) for x in range(x0, min(x0 + mx, n)) for y in range(y0, min(y0 + my, n))]


def request_tiles(req):
    x0, y0, w, h = req['rect']
    z = req['level']
    return [(x, y, z) for y in range(y0, y0 + h) for x in range(x0, x0 + w)]


def mmr(cfg):
    return bool(cfg['minimize']) and has_meta(cfg) and cfg['source'] == 'wms'


def need_units(cfg, req):
    """(cache, unit) pairs a request may have to create (the bounding box of a rectangle is the rectangle)."""
    return set((req['cache'], unit_of(cfg, t)) for t in request_tiles(req))


def valid_cfg(cfg):
    for req in cfg['requests']:
        x0, y0, w, h = req['rect']
        n = grid_n(req['level'])
        if not (0 <= x0 and 0 <= y0 and w >= 1 and h >= 1 and x0 + w <= n and y0 + h <= n):
            return False
        if req['cache'] not in ((0, 1) if cfg['two_caches'] else (0,)):
            return False
    return 2 <= len(cfg['requests']) <= 6


# ------------------------------------------------------------------------------------------------
# instrumented world

class DetQueue(object):
    """queue.Queue stand-in for mapproxy.util.async_ under the scheduler (exactly one thread runs at a time)."""

    def __init__(self, maxsize=0):
        self.items = collections.deque()
        self.unfinished = 0

    def put(self, item, block=True, timeout=None):
        self.items.append(item)
        self.unfinished += 1

    def get(self, block=True, timeout=None):
        if block:
            s = detsched.current()[0]
            if s is None and not self.items:
                raise detsched.SchedulerError('blocking Queue.get() on an empty queue from an unmanaged thread')
            if s is not None:
                s.point('queue-get', enabled=lambda: bool(self.items))
        if not self.items:
            raise real_queue.Empty()
        return self.items.popleft()

    def task_done(self):
        self.unfinished -= 1

    def join(self):
        s = detsched.current()[0]
        if s is None:
            if self.unfinished:
                raise detsched.SchedulerError('Queue.join() would block in an unmanaged thread')
            return
        s.point('queue-join', enabled=lambda: self.unfinished <= 0)

    def empty(self):
        return not self.items

    def qsize(self):
        return len(self.items)


class _Namespace(object):
    def __init__(self, real, **over):
        self.__dict__['_real'] = real
        self.__dict__.update(over)

    def __getattr__(self, name):
        return getattr(self.__dict__['_real'], name)


PASS_THROUGH = frozenset(['s_listdir', 's_isfile', 's_getmtime', 's_unlink'])


def raised_in_harness(exc):
    """True if the deepest frame that belongs to the harness or to MapProxy is harness code."""
    tb = exc.__traceback__
    owner = 'harness'
    while tb is not None:
        name = tb.tb_frame.f_code.co_filename.replace('\\', '/')
        if '/vcheck/' in name and tb.tb_frame.f_code.co_name in PASS_THROUGH:
            pass     # wrapper around a real os call made by the code under test: the error is the real call's
        elif '/vcheck/' in name:
            owner = 'harness'
        elif '/mapproxy/' in name:
            owner = 'mapproxy'
        tb = tb.tb_next
    return owner == 'harness' or isinstance(exc, (MemoryError, detsched.SchedulerError))


def instrument_cache_class(cls):
    """Subclass of a real cache class with yield points in front of the calls that touch the shared store.
    Bulk methods inherited from TileCacheBase loop over self.load_tile / self.store_tile and therefore yield per
    tile (a file cache stores a meta tile file by file); a backend's own bulk method is one step (one transaction)."""
    from mapproxy.cache.base import TileCacheBase
    own_load_tiles = cls.load_tiles is not TileCacheBase.load_tiles
    own_store_tiles = cls.store_tiles is not TileCacheBase.store_tiles

    class Instrumented(cls):
        _world = None
        _idx = 0

        def is_cached(self, tile, dimensions=None):
            w = self._world
            probe = tile.coord is not None and tile.source is None
            if probe:
                w.sched.point('is_cached')
            r = cls.is_cached(self, tile, dimensions=dimensions)
            if probe:
                w.saw(self._idx, tile.coord, bool(r), 'is_cached')
            return r

        def load_tile(self, tile, with_metadata=False, dimensions=None):
            w = self._world
            probe = tile.coord is not None and tile.source is None
            if probe:
                w.sched.point('load_tile')
            r = cls.load_tile(self, tile, with_metadata=with_metadata, dimensions=dimensions)
            if probe:
                w.saw(self._idx, tile.coord, bool(r), 'load_tile')
            return r

        def load_tiles(self, tiles, with_metadata=False, dimensions=None):
            if not own_load_tiles:
                return cls.load_tiles(self, tiles, with_metadata=with_metadata, dimensions=dimensions)
            w = self._world
            tiles = list(tiles)
            wanted = [t for t in tiles if t.coord is not None and t.source is None]
            if wanted:
                w.sched.point('load_tiles')
            r = cls.load_tiles(self, tiles, with_metadata=with_metadata, dimensions=dimensions)
            for t in wanted:
                w.saw(self._idx, t.coord, t.source is not None, 'load_tiles')
            return r

        def store_tile(self, tile, dimensions=None):
            w = self._world
            todo = not tile.stored
            if todo:
                w.sched.point('store_tile')
            r = cls.store_tile(self, tile, dimensions=dimensions)
            if todo:
                w.stored(self._idx, [tile.coord])
            return r

        def store_tiles(self, tiles, dimensions=None):
            if not own_store_tiles:
                return cls.store_tiles(self, tiles, dimensions=dimensions)
            w = self._world
            tiles = list(tiles)
            todo = [t.coord for t in tiles if not t.stored]
            if todo:
                w.sched.point('store_tiles')
            r = cls.store_tiles(self, tiles, dimensions=dimensions)
            if todo:
                w.stored(self._idx, todo)
            return r

    Instrumented.__name__ = 'Instrumented' + cls.__name__
    return Instrumented


_inst_classes = {}


def cache_classes(kind):
    """(real class, instrumented class) - built once per process and per repository under test."""
    if kind not in _inst_classes:
        if kind == 'file':
            from mapproxy.cache.file import FileCache as cls
        else:
            from mapproxy.cache.mbtiles import MBTilesLevelCache as cls
        _inst_classes[kind] = (cls, instrument_cache_class(cls))
    return _inst_classes[kind]


class GroundSource(object):
    """Upstream: renders the ground function for the requested bbox, logs the call; get_map is a yield point."""
    coverage = None
    res_range = None
    extent = None
    transparent = False

    def __init__(self, world, cache_idx, supports_meta_tiles):
        self.world = world
        self.cache_idx = cache_idx
        self.supports_meta_tiles = supports_meta_tiles

    def get_map(self, query):
        from mapproxy.image import ImageSource
        from PIL import Image
        env = _env()
        w = self.world
        w.sched.point('get_map')
        bbox = tuple(float(v) for v in query.bbox)
        size = (int(query.size[0]), int(query.size[1]))
        res = (bbox[2] - bbox[0]) / size[0]
        z = min(range(len(RES)), key=lambda i: abs(RES[i] - res))
        if abs(RES[z] - res) > 1e-6 * res or abs((bbox[3] - bbox[1]) / size[1] - res) > 1e-6 * res:
            raise detsched.SchedulerError('upstream asked at a resolution that is not a grid level: %r %r' % (bbox, size))
        if not self.supports_meta_tiles and size != (TILE, TILE):
            raise detsched.SchedulerError('tiled upstream asked for a %r image' % (size,))
        n = grid_n(z)
        span = TILE * RES[z]
        covered = []
        for x in range(n):
            for y in range(n):
                tb = (GRID_BBOX[0] + x * span, GRID_BBOX[1] + y * span, GRID_BBOX[0] + (x + 1) * span,
                      GRID_BBOX[1] + (y + 1) * span)
                if tb[0] >= bbox[0] - 1e-6 and tb[1] >= bbox[1] - 1e-6 and tb[2] <= bbox[2] + 1e-6 and tb[3] <= bbox[3] + 1e-6:
                    covered.append((x, y, z))
        w.sched.log('get_map', rid=w.rid(), cache=self.cache_idx, level=z, bbox=bbox, size=size, tiles=covered)
        arr = env['ground'].render_array(bbox, size, SRS)
        return ImageSource(Image.fromarray(arr, 'RGB'), size=size, image_opts=env['opts'], cacheable=True)


class World(object):
    def __init__(self, sched, cfg, base, exclude=frozenset()):
        self.sched = sched
        self.cfg = cfg
        self.base = base
        self.exclude = exclude             # open known-finding signatures whose construct cuts the run
        self.excluded = None
        self.lock_calls = collections.Counter()   # "process" -> number of TileLocker.lock() calls so far
        self.lock_mtime = {}               # lock file -> virtual creation time
        self.load_missed = set()           # (rid, cache, coord) whose batch load before the creation check missed
        self.raced = set()                 # ... and whose is_cached check then said "cached" (never loaded)
        self.lock_dir = os.path.join(base, 'locks')
        self.cache_dirs = [os.path.join(base, 'cache%d' % i) for i in range(2 if cfg['two_caches'] else 1)]
        self.managers = {}
        self.held = {}                     # lock file -> rid of the holder
        self.holding = collections.Counter()   # rid -> number of tile locks held
        self.violations = []
        self.results = {}
        self.finished = set()
        self.frozen = None                 # None: not yet, 'active', 'over'
        self.needs = [need_units(cfg, r) for r in cfg['requests']]
        self.preseed = set((c, (x, y, z)) for c, x, y, z in cfg['preseed'])
        self.lock_names = {}

    # -- helpers
    def rid(self):
        return getattr(_req, 'rid', -1)

    def violation(self, sig, msg):
        self.violations.append((sig, msg))

    def saw(self, cache_idx, coord, hit, op):
        rid = self.rid()
        locked = self.holding[rid] > 0
        self.sched.log('hit' if hit else 'miss', rid=rid, cache=cache_idx, coord=tuple(coord), op=op, locked=locked)
        key = (rid, cache_idx, tuple(coord))
        if op != 'is_cached':
            if hit:
                self.load_missed.discard(key)
                self.raced.discard(key)
            elif not locked:
                self.load_missed.add(key)
        elif hit and not locked and key in self.load_missed and self.cfg['cache'] == 'file':
            # TileManager._load_tile_coords: load_tiles() missed, another requester stored the tile, is_cached() now
            # says "cached": the tile is neither loaded nor created (only caches whose is_cached does not load)
            self.raced.add(key)
            self.sched.log('raced', rid=rid, cache=cache_idx, coord=tuple(coord))
            if SIG_RACE in self.exclude:
                self.excluded = 'tile stored by another requester between load_tiles and is_cached (known ' + SIG_RACE + ')'
                self.sched.stop('excluded')

    def stored(self, cache_idx, coords):
        self.sched.log('stored', rid=self.rid(), cache=cache_idx, coords=[tuple(c) for c in coords])

    # -- construction
    def build(self):
        from mapproxy.cache.tile import TileManager
        from mapproxy.cache.base import TileLocker
        env = _env()
        cfg = self.cfg
        os.makedirs(self.lock_dir)
        for d in self.cache_dirs:
            os.makedirs(d)
        keys = []
        for i, req in enumerate(cfg['requests']):
            key = (req['cache'], i if cfg['deploy'] == 'procs' else 'shared')
            if key not in keys:
                keys.append(key)
        _, inst = cache_classes(cfg['cache'])
        for key in keys:
            idx = key[0]
            if cfg['cache'] == 'file':
                cache = inst(self.cache_dirs[idx], 'png', image_opts=env['opts'])
            else:
                cache = inst(self.cache_dirs[idx])
            cache._world = self
            cache._idx = idx
            locker = TileLocker(self.lock_dir, cfg['lock_timeout'], cache.lock_cache_id)
            source = GroundSource(self, idx, cfg['source'] == 'wms')
            mgr = TileManager(env['grid'], cache, [source], 'png', locker=locker, image_opts=env['opts'],
                              request_format='png', meta_size=list(cfg['meta_size']),
                              meta_buffer=int(cfg['meta_buffer']), minimize_meta_requests=bool(cfg['minimize']),
                              concurrent_tile_creators=int(cfg['creators']), bulk_meta_tiles=bool(cfg['bulk']),
                              identifier='c08_%d' % idx)
            if (mgr.meta_grid is not None) != has_meta(cfg):
                raise core.HarnessError('meta tiling model disagrees with TileManager for %r' % (cfg,))
            self.managers[key] = mgr
        if self.preseed:
            from mapproxy.cache.tile import Tile
            from mapproxy.image import ImageSource
            from PIL import Image
            for idx in range(len(self.cache_dirs)):
                plain = self.plain_cache(idx)
                try:
                    for c, coord in sorted(self.preseed):
                        if c != idx:
                            continue
                        img = Image.fromarray(expected(coord).astype(np.uint8), 'RGB')
                        plain.store_tile(Tile(coord, ImageSource(img, size=(TILE, TILE), image_opts=env['opts'])))
                finally:
                    if hasattr(plain, 'cleanup'):
                        plain.cleanup()

    def plain_cache(self, idx):
        real, _ = cache_classes(self.cfg['cache'])
        if self.cfg['cache'] == 'file':
            return real(self.cache_dirs[idx], 'png', image_opts=_env()['opts'])
        return real(self.cache_dirs[idx])

    def manager_for(self, i):
        req = self.cfg['requests'][i]
        return self.managers[(req['cache'], i if self.cfg['deploy'] == 'procs' else 'shared')]

    # -- lock instrumentation (patched into FileLock for lock files below self.lock_dir)
    def is_tile_lock(self, fl):
        return str(fl.lock_file).startswith(self.lock_dir + os.sep) and detsched.current()[0] is self.sched

    def independent(self, a, b):
        return a != b and a >= 0 and b >= 0 and not (self.needs[a] & self.needs[b])

    def relation(self, a, b):
        ra, rb = self.cfg['requests'][a], self.cfg['requests'][b]
        if ra['cache'] != rb['cache']:
            return 'other-cache'
        if ra['level'] != rb['level']:
            return 'other-level'
        return 'other-meta-tile' if has_meta(self.cfg) else 'other-tile'

    def try_lock(self, fl, orig):
        from mapproxy.util.lock import LockError
        sched = self.sched
        sched.point('try-lock')
        rid = self.rid()
        name = os.path.basename(fl.lock_file)
        try:
            lf = orig(fl)
        except LockError:
            holder = self.held.get(fl.lock_file)
            sched.log('lock-fail', rid=rid, name=name, holder=holder)
            if holder is None:
                sched.log('lock-fail-without-holder', name=name)
            elif self.independent(rid, holder):
                rel = self.relation(rid, holder)
                self.violation('C08/cross-blocking/' + rel,
                               'requester %d (%s) could not take its tile lock %s because requester %d (%s), which needs no '
                               'common meta tile, holds it' % (rid, describe_req(self.cfg, rid), name, holder,
                                                               describe_req(self.cfg, holder)))
                sched.stop('violation')
            raise
        if fl.lock_file in self.held:
            raise detsched.SchedulerError('two holders of lock file %s although lock attempts are atomic' % name)
        self.held[fl.lock_file] = rid
        self.holding[rid] += 1
        self.lock_mtime[fl.lock_file] = sched.now()
        sched.log('lock-ok', rid=rid, name=name)
        if self.cfg.get('freeze') == rid and self.frozen is None:
            self.frozen = 'active'
            sched.log('frozen', rid=rid)
            others = [j for j in range(len(self.needs)) if self.independent(rid, j)]
            sched.point('frozen', enabled=lambda: all(j in self.finished for j in others))
            self.frozen = 'over'
            sched.log('thawed', rid=rid)
        return lf

    def unlock(self, fl, orig):
        sched = self.sched
        sched.point('unlock')
        orig(fl)
        rid = self.held.pop(fl.lock_file, None)
        if rid is not None:
            self.holding[rid] -= 1
        sched.log('unlock', rid=self.rid(), name=os.path.basename(fl.lock_file))


def describe_req(cfg, i):
    r = cfg['requests'][i]
    return 'cache %d level %d rect %r' % (r['cache'], r['level'], r['rect'])


_patch_lock = threading.Lock()


@contextlib.contextmanager
def patched(world):
    """Class / module attribute patches for one run (restored in finally)."""
    from mapproxy.util import lock as mlock
    from mapproxy.util import async_ as masync
    saved = []

    def setp(obj, name, val):
        saved.append((obj, name, obj.__dict__[name]))
        setattr(obj, name, val)

    orig_try = mlock.FileLock.__dict__['_try_lock']
    orig_unlock = mlock.FileLock.__dict__['unlock']
    orig_winit = masync.ThreadWorker.__dict__['__init__']
    orig_wrun = masync.ThreadWorker.__dict__['run']

    def _try_lock(fl):
        if not world.is_tile_lock(fl):
            return orig_try(fl)
        return world.try_lock(fl, orig_try)

    def unlock(fl):
        if not fl._locked or not world.is_tile_lock(fl):
            return orig_unlock(fl)
        return world.unlock(fl, orig_unlock)

    def winit(self, task_queue, result_queue):
        orig_winit(self, task_queue, result_queue)
        self._c08_rid = world.rid()

    def wrun(self):
        _req.rid = getattr(self, '_c08_rid', -1)
        try:
            orig_wrun(self)
        finally:
            _req.rid = -1

    sched = world.sched
    from mapproxy.cache import base as mbase
    orig_cleanup = mbase.__dict__['cleanup_lockdir']

    def cleanup(lockdir, suffix='.lck', max_lock_time=300, force=True):
        if force or lockdir != world.lock_dir or detsched.current()[0] is not sched:
            return orig_cleanup(lockdir, suffix=suffix, max_lock_time=max_lock_time, force=force)
        proc = world.rid() if world.cfg['deploy'] == 'procs' else 'shared'
        idx = world.lock_calls[proc]
        world.lock_calls[proc] += 1
        if world.cfg.get('scan') is None or idx != world.cfg['scan']:
            return None          # not this process' scanning call (the real counter would say the same)
        sched.log('scan', rid=world.rid())
        _req.scanning = True
        try:
            return orig_cleanup(lockdir, suffix=suffix, max_lock_time=max_lock_time, force=True)
        finally:
            _req.scanning = False

    def in_scan():
        return getattr(_req, 'scanning', False)

    def s_listdir(path):
        if in_scan():
            sched.point('scan-listdir')
        return os.listdir(path)

    def s_isfile(path):
        if not in_scan():
            return os.path.isfile(path)
        sched.point('scan-isfile')
        r = os.path.isfile(path)
        holder = world.held.get(path)
        sched.log('scan-isfile', rid=world.rid(), name=os.path.basename(path), result=r, holder=holder)
        return r

    def s_getmtime(path):
        if not in_scan():
            return os.path.getmtime(path)
        sched.point('scan-getmtime')
        try:
            os.path.getmtime(path)
        except OSError:
            sched.log('scan-vanished', rid=world.rid(), name=os.path.basename(path))
            raise
        return world.lock_mtime.get(path, sched.now())

    def s_unlink(path):
        if in_scan():
            sched.point('scan-unlink')
            sched.log('scan-unlink', rid=world.rid(), name=os.path.basename(path), holder=world.held.get(path))
        return os.unlink(path)

    def vtime():
        return sched.now()

    def vsleep(d):
        sched.log('sleep', rid=world.rid())
        sched.sleep(d)

    if not _patch_lock.acquire(False):
        raise core.HarnessError('nested C08 runs in one process')
    try:
        setp(mlock.FileLock, '_try_lock', _try_lock)
        setp(mlock.FileLock, 'unlock', unlock)
        setp(mlock, 'time', _Namespace(real_time, time=vtime, sleep=vsleep))
        setp(mlock, '_cleanup_counter', 0)
        setp(mbase, 'cleanup_lockdir', cleanup)    # which lock() call scans is part of the case, not process history
        setp(mlock, 'os', _Namespace(os, listdir=s_listdir, unlink=s_unlink,
                                     path=_Namespace(os.path, isfile=s_isfile, getmtime=s_getmtime)))
        setp(masync.ThreadWorker, '__init__', winit)
        setp(masync.ThreadWorker, 'run', wrun)
        setp(masync, 'Queue', _Namespace(real_queue, Queue=DetQueue))
        yield
    finally:
        for obj, name, old in reversed(saved):
            setattr(obj, name, old)
        _patch_lock.release()


def requester(world, i):
    from mapproxy.util.lock import LockTimeout
    from mapproxy.config import local_base_config
    sched = world.sched
    _req.rid = i
    mgr = world.manager_for(i)
    coords = request_tiles(world.cfg['requests'][i])
    try:
        with local_base_config(_env()['conf']):
            try:
                tiles = mgr.load_tile_coords(list(coords))
                out = []
                for t in tiles:
                    out.append((tuple(t.coord), None if t.source is None else decode(t.source)))
                world.results[i] = ('ok', out)
            except LockTimeout:
                world.results[i] = ('lock-timeout', None)
            except Exception as e:
                if raised_in_harness(e):
                    raise
                tid = detsched.current()[1]
                where = sched.threads[tid].label if 0 <= tid < len(sched.threads) else '?'
                world.results[i] = ('raised', (type(e).__name__ + '@' + str(where), str(e)[:200],
                                               traceback.format_exc()[-1500:]))
                e = None
            finally:
                mgr.cleanup()
    finally:
        world.finished.add(i)
        sched.log('done', rid=i, status=world.results.get(i, ('aborted',))[0])
        _req.rid = -1


# ------------------------------------------------------------------------------------------------
# oracle

class Result(object):
    __slots__ = ('outcome', 'violations', 'choices', 'preemptions', 'features', 'nontrivial', 'blocked', 'excluded')


def inspect_cache(world, idx):
    """(set of cached coords, {coord: array}, number of stored objects) read with a fresh, uninstrumented cache."""
    from mapproxy.cache.tile import Tile
    cfg = world.cfg
    found = {}
    nobj = 0
    cdir = world.cache_dirs[idx]
    if cfg['cache'] == 'file':
        for _root, _dirs, files in os.walk(cdir):
            nobj += len(files)
        levels = range(len(RES))
    else:
        import sqlite3
        levels = []
        for z in range(len(RES)):
            fn = os.path.join(cdir, '%d.mbtile' % z)
            if os.path.exists(fn):
                levels.append(z)
                db = sqlite3.connect(fn)
                try:
                    nobj += db.execute('SELECT count(*) FROM tiles').fetchone()[0]
                finally:
                    db.close()
    plain = world.plain_cache(idx)
    try:
        for z in levels:
            n = grid_n(z)
            for x in range(n):
                for y in range(n):
                    t = Tile((x, y, z))
                    if plain.load_tile(t) and t.source is not None:
                        found[(x, y, z)] = decode(t.source)
    finally:
        if hasattr(plain, 'cleanup'):
            plain.cleanup()
    return found, nobj


def analyse(world, outcome):
    cfg = world.cfg
    sched = world.sched
    trace = sched.trace
    vio = list(world.violations)
    feats = set()
    nreq = len(cfg['requests'])
    is_mmr = mmr(cfg)
    kind = 'bulk-meta-tile' if (has_meta(cfg) and cfg['source'] == 'tiled') else (
        'minimal-meta-tile' if is_mmr else ('meta-tile' if has_meta(cfg) else 'single-tile'))

    # -- who overlapped inside check...store
    pre_miss = collections.defaultdict(set)
    waited = set()
    for seq, tid, k, d in trace:
        if k == 'miss' and not d['locked']:
            pre_miss[(d['cache'], unit_of(cfg, d['coord']))].add(d['rid'])
        elif k == 'lock-fail':
            feats.add('contention')
            waited.add(d['rid'])
        elif k == 'hit' and d['locked'] and d['rid'] in waited:
            feats.add('waiter-found-tile-after-wait')
        elif k == 'frozen':
            feats.add('holder-suspended')
        elif k == 'lock-fail-without-holder':
            feats.add('lock-fail-without-holder')
        elif k == 'scan':
            feats.add('scan-ran')
        elif k == 'scan-isfile' and d['result'] and d['holder'] is not None and d['holder'] != d['rid']:
            feats.add('scan-saw-lock-file-of-other-requester')
        elif k == 'scan-vanished':
            feats.add('lock-file-vanished-between-isfile-and-getmtime')
        elif k == 'scan-unlink':
            feats.add('scan-removed-a-lock-file')
            if d['holder'] is not None:
                vio.append(('C08/scan-removed-held-lock', 'the stale-lock scan of requester %d removed %s, held by requester %d '
                            'and younger than max_lock_time' % (d['rid'], d['name'], d['holder'])))
    overlap = max([len(v) for v in pre_miss.values()] or [0])
    nontrivial = overlap >= 2
    if nontrivial:
        feats.add('overlap-%d' % min(overlap, 4))
    if len(pre_miss) > 1:
        feats.add('several-meta-tiles-created')
    if len(sched.threads) > nreq:
        feats.add('pool-workers-adopted')

    statuses = [world.results.get(i, ('aborted', None))[0] for i in range(nreq)]
    for s in set(statuses):
        if s != 'ok':
            feats.add('requester-' + s)

    if outcome == 'deadlock':
        vio.append(('C08/deadlock', 'no thread can make progress: %r' % (sched.blocked,)))
    if outcome != 'done' or vio:
        return finish(world, outcome, vio, feats, nontrivial)

    # -- clause 1: responses
    for i in range(nreq):
        status, val = world.results[i]
        if status == 'raised':
            vio.append(('C08/response/raised/' + val[0],
                        'requester %d (%s) got %s: %s\n%s' % (i, describe_req(cfg, i), val[0], val[1], val[2])))
        elif status == 'ok':
            want = request_tiles(cfg['requests'][i])
            if [c for c, _ in val] != want:
                vio.append(('C08/response/wrong-tile-list', 'requester %d asked %r, got %r' % (i, want, [c for c, _ in val])))
                continue
            for coord, arr in val:
                if arr is None:
                    if (i, cfg['requests'][i]['cache'], tuple(coord)) in world.raced:
                        vio.append((SIG_RACE, 'requester %d (%s): tile %r came back without image: load_tiles() did not '
                                    'find it, another requester stored it, is_cached() then found it, so it was neither '
                                    'loaded nor created' % (i, describe_req(cfg, i), coord)))
                    else:
                        vio.append(('C08/response/no-image', 'requester %d (%s): tile %r came back without image'
                                    % (i, describe_req(cfg, i), coord)))
                    break
                if not matches(arr, coord):
                    vio.append(('C08/response/wrong-content', 'requester %d (%s): tile %r does not show its own content '
                                '(shows %r)' % (i, describe_req(cfg, i), coord, identify(arr))))
                    break

    # -- clause 3: upstream asked once
    calls = [(seq, d) for seq, tid, k, d in trace if k == 'get_map']
    stores = [(seq, d) for seq, tid, k, d in trace if k == 'stored']
    locks = [(seq, d) for seq, tid, k, d in trace if k == 'lock-ok']

    def stored_between(cache, coords, a, b):
        return any(a < s < b and d['cache'] == cache and set(map(tuple, d['coords'])) & coords for s, d in stores)

    def repeated(c1, c2, what):
        (s1, d1), (s2, d2) = c1, c2
        common = set(map(tuple, d1['tiles'])) & set(map(tuple, d2['tiles']))
        # did the second requester take its lock (and re-check) after the first result was stored, or were both
        # creations in flight at the same time?
        took = [s for s, d in locks if d['rid'] == d2['rid'] and s < s2]
        decided = took[-1] if took else s2
        mode = 'refetch-after-store' if stored_between(d1['cache'], common, s1, decided) else 'concurrent-fetch'
        return ('C08/upstream/%s/%s' % (mode, kind),
                '%s: upstream asked by requester %d for bbox %r and again by requester %d for bbox %r (cache %d, common tiles %r)'
                % (what, d1['rid'], d1['bbox'], d2['rid'], d2['bbox'], d1['cache'], sorted(common)))
    n0 = len(vio)
    for k2, c in enumerate(calls):
        d = c[1]
        mine = set(map(tuple, d['tiles']))
        for first in calls[:k2]:
            e = first[1]
            theirs = set(map(tuple, e['tiles']))
            if e['cache'] != d['cache'] or not (mine & theirs):
                continue
            if not is_mmr:
                vio.append(repeated(first, c, 'tile %r fetched twice' % (sorted(mine & theirs)[0],)))
            elif e['bbox'] == d['bbox']:
                vio.append(repeated(first, c, 'same minimal meta tile fetched twice'))
            elif mine <= theirs and len(set(unit_of(cfg, q) for q in theirs)) == 1:
                vio.append(repeated(first, c, 'tiles of a fetched minimal meta tile fetched again'))
            else:
                feats.add('minimized-tile-covered-by-two-different-meta-requests(not judged)')
                continue
            break
        if len(vio) > n0:
            break
    if len(calls) > 0:
        feats.add('upstream-calls:%d' % min(len(calls), 6))

    # -- clause 2: final cache
    all_ok = all(s == 'ok' for s in statuses)
    lower = collections.defaultdict(set)
    upper = collections.defaultdict(set)
    for c, coord in world.preseed:
        lower[c].add(coord)
        upper[c].add(coord)
    for i, req in enumerate(cfg['requests']):
        c = req['cache']
        for t in request_tiles(req):
            if (c, t) in world.preseed:
                continue
            ut = set(unit_tiles(cfg, t))
            if is_mmr:
                upper[c] |= ut | set(request_tiles(req))
                if statuses[i] == 'ok':
                    lower[c].add(t)
            else:
                upper[c] |= ut
                if statuses[i] == 'ok':
                    lower[c] |= ut
    for idx in range(len(world.cache_dirs)):
        found, nobj = inspect_cache(world, idx)
        have = set(found)
        miss = lower[idx] - have
        extra = have - upper[idx]
        if miss:
            vio.append(('C08/cache/missing-tile', 'cache %d lacks %r after all requests were answered (has %r)'
                        % (idx, sorted(miss), sorted(have))))
        if extra:
            vio.append(('C08/cache/unexpected-tile', 'cache %d holds %r which no request needed' % (idx, sorted(extra))))
        if nobj != len(have):
            vio.append(('C08/cache/unexpected-objects', 'cache %d holds %d stored objects but %d readable tiles'
                        % (idx, nobj, len(have))))
        for coord in sorted(have):
            if not matches(found[coord], coord):
                vio.append(('C08/cache/wrong-content', 'cache %d: tile %r does not hold its own content (shows %r)'
                            % (idx, coord, identify(found[coord]))))
                break
        if all_ok and not is_mmr and not miss and not extra:
            feats.add('final-cache-exact')
    return finish(world, outcome, vio, feats, nontrivial)


def finish(world, outcome, vio, feats, nontrivial):
    r = Result()
    r.outcome = outcome
    r.violations = vio
    r.choices = world.sched.choices()
    r.preemptions = world.sched.preemptions()
    r.features = feats
    r.nontrivial = nontrivial
    r.blocked = world.sched.blocked
    r.excluded = world.excluded
    return r


def scratch_root():
    shm = '/dev/shm'
    if os.path.isdir(shm) and os.access(shm, os.W_OK | os.X_OK):
        return tempfile.mkdtemp(prefix='c08-', dir=shm)
    return tempfile.mkdtemp(prefix='c08-')


_case_no = [0]


def exclusions():
    if os.environ.get('VERIF_C08_NO_EXCLUSION'):
        return frozenset()
    return frozenset(core.open_signatures(PROPERTY))


def run_case(cfg, chooser, root, exclude=frozenset(), max_steps=MAX_STEPS):
    _env()
    _case_no[0] += 1
    base = os.path.join(root, 'r%d' % _case_no[0])
    os.makedirs(base)
    sched = detsched.Scheduler(chooser, max_steps=max_steps, sleep_mode='eager', wall_timeout=180.0)
    world = World(sched, cfg, base, exclude)
    try:
        world.build()
        with patched(world):
            for i in range(len(cfg['requests'])):
                sched.spawn(requester, name='req%d' % i, args=(world, i))
            with sched.adopt_threads():
                outcome = sched.run()
        if outcome == 'deadlock' and all(i in world.finished for i in range(len(cfg['requests']))):
            # only pool workers of the code under test are left waiting for tasks: not a requester that hangs
            outcome = 'done'
            world.sched.log('workers-left-waiting')
        return analyse(world, outcome)
    finally:
        world.managers.clear()
        shutil.rmtree(base, ignore_errors=True)


# ------------------------------------------------------------------------------------------------
# case bookkeeping

def public_cfg(cfg):
    return {
        'deploy': str(cfg['deploy']), 'cache': str(cfg['cache']), 'source': str(cfg['source']),
        'meta_size': [int(cfg['meta_size'][0]), int(cfg['meta_size'][1])], 'meta_buffer': int(cfg['meta_buffer']),
        'minimize': bool(cfg['minimize']), 'bulk': bool(cfg['bulk']), 'creators': int(cfg['creators']),
        'two_caches': bool(cfg['two_caches']), 'lock_timeout': float(cfg['lock_timeout']),
        'requests': [{'cache': int(r['cache']), 'level': int(r['level']), 'rect': [int(v) for v in r['rect']]}
                     for r in cfg['requests']],
        'preseed': sorted([int(v) for v in p] for p in cfg.get('preseed') or []),
        'freeze': None if cfg.get('freeze') is None else int(cfg['freeze']),
        'scan': None if cfg.get('scan') is None else int(cfg['scan']),
    }


def meta_class(cfg):
    if not has_meta(cfg):
        return 'none'
    if cfg['source'] == 'tiled':
        return 'bulk-%dx%d' % tuple(cfg['meta_size'])
    return 'wms-%dx%d%s' % (cfg['meta_size'][0], cfg['meta_size'][1], '-minimized' if mmr(cfg) else '')


def pattern_of(cfg):
    reqs = cfg['requests']
    sets = [set((r['cache'],) + t for t in request_tiles(r)) for r in reqs]
    needs = [need_units(cfg, r) for r in reqs]
    if all(s == sets[0] for s in sets):
        return 'all-same-tiles'
    if all(n == needs[0] for n in needs) and len(needs[0]) == 1:
        return 'different-tiles-of-one-meta-tile' if has_meta(cfg) else 'all-same-tiles'
    if all(not (needs[i] & needs[j]) for i in range(len(reqs)) for j in range(i)):
        return 'all-different-meta-tiles'
    return 'mixed'


def judge(cfg, res, stats, source):
    cfg = public_cfg(cfg)
    case = {'cfg': cfg, 'choices': list(res.choices)}
    if res.excluded:
        stats.excluded[res.excluded] += 1
        return None
    if res.outcome == 'step-bound':
        stats.inconclusive['step-bound'] += 1
        return None
    classes = ['src:' + source, 'deploy:' + cfg['deploy'], 'cache:' + cfg['cache'], 'meta:' + meta_class(cfg),
               'buffer:%d' % cfg['meta_buffer'], 'creators:%d' % cfg['creators'],
               'caches:%d' % (2 if cfg['two_caches'] else 1), 'requesters:%d' % len(cfg['requests']),
               'pattern:' + pattern_of(cfg), 'lock-timeout:' + ('60s' if cfg['lock_timeout'] >= 1 else 'short'),
               'preseed:' + ('yes' if cfg['preseed'] else 'no'), 'freeze:' + ('yes' if cfg['freeze'] is not None else 'no'),
               'scan:' + ('no' if cfg['scan'] is None else 'lock-call-%d' % cfg['scan']),
               'preemptions:%d' % min(res.preemptions, 6), 'outcome:' + res.outcome.split(':')[0]]
    if len(set(r['level'] for r in cfg['requests'])) > 1:
        classes.append('f:several-levels')
    if any(r['rect'][2] * r['rect'][3] > 1 for r in cfg['requests']):
        classes.append('f:multi-tile-request')
    classes += ['f:' + f for f in sorted(res.features)]
    stats.case(key=case, nontrivial=res.nontrivial, classes=classes, sample=case)
    if res.violations:
        sig, msg = res.violations[0]
        return core.Violation(sig, msg + ' [%s, %s cache, meta %s, %d requesters, %d preemptions]'
                              % (cfg['deploy'], cfg['cache'], meta_class(cfg), len(cfg['requests']), res.preemptions), case)
    return None


# ------------------------------------------------------------------------------------------------
# (i) bounded-exhaustive: every schedule with <= k preemptions, 2 requesters

def _cfg(**kw):
    d = {'deploy': 'threads', 'cache': 'file', 'source': 'wms', 'meta_size': [1, 1], 'meta_buffer': 0, 'minimize': False,
         'bulk': False, 'creators': 1, 'two_caches': False, 'lock_timeout': 0.015, 'requests': [], 'preseed': [],
         'freeze': None, 'scan': None}
    d.update(kw)
    return d


def _rq(x, y, z=2, w=1, h=1, cache=0):
    return {'cache': cache, 'level': z, 'rect': [x, y, w, h]}


def dfs_configs(tier):
    """(name, configuration, preemption bound).  Lock timeout = 2 polling steps so that waiting is finite in every
    schedule (a waiter that is always preferred over the holder runs into LockTimeout)."""
    quick = tier == 'quick'
    same = [_rq(3, 2), _rq(3, 2)]
    out = []
    for deploy in ('threads', 'procs'):
        out.append(('single-tile/%s/file' % deploy, _cfg(deploy=deploy, requests=same), 3 if quick else 4))
        out.append(('meta-2x2-buffer3-same-tile/%s/file' % deploy,
                    _cfg(deploy=deploy, meta_size=[2, 2], meta_buffer=3, requests=same), 2 if quick else 3))
        out.append(('meta-2x2-different-tiles/%s/file' % deploy,
                    _cfg(deploy=deploy, meta_size=[2, 2], requests=[_rq(2, 2), _rq(3, 3)]), 2 if quick else 3))
    out.append(('single-tile/procs/sqlite', _cfg(deploy='procs', cache='sqlite', requests=same), 2 if quick else 4))
    out.append(('meta-2x2-same-tile/threads/sqlite',
                _cfg(cache='sqlite', meta_size=[2, 2], requests=same), 2 if quick else 3))
    out.append(('bulk-2x1-same-tile/procs/file',
                _cfg(deploy='procs', source='tiled', bulk=True, meta_size=[2, 1], requests=same), 2 if quick else 3))
    out.append(('different-single-tiles/threads/file', _cfg(requests=[_rq(3, 2), _rq(4, 2)]), 2 if quick else 3))
    out.append(('minimized-2x2-same-rect/procs/file',
                _cfg(deploy='procs', meta_size=[2, 2], minimize=True, requests=[_rq(2, 2, w=2, h=1), _rq(2, 2, w=2, h=1)]),
                2 if quick else 3))
    out.append(('minimized-2x2-rect-and-subrect/threads/file',
                _cfg(meta_size=[2, 2], minimize=True, requests=[_rq(2, 2, w=2, h=2), _rq(2, 2, w=2, h=1)]),
                2 if quick else 3))
    out.append(('two-caches-same-tile/procs/file',
                _cfg(deploy='procs', two_caches=True, requests=[_rq(3, 2), _rq(3, 2, cache=1)]), 2 if quick else 3))
    out.append(('same-xy-two-levels/threads/file', _cfg(requests=[_rq(3, 2), _rq(3, 2, z=1)]), 2 if quick else 3))
    # the first lock() call of each process scans the lock directory while the other requester's lock file comes and goes
    out.append(('different-single-tiles+scan/procs/file', _cfg(deploy='procs', scan=0, requests=[_rq(3, 2), _rq(4, 2)]),
                2 if quick else 3))
    out.append(('different-meta-2x2+scan/threads/file',
                _cfg(scan=1, meta_size=[2, 2], requests=[_rq(2, 2), _rq(4, 2)]), 2))
    if not quick:
        out.append(('single-tile/threads/file/3-requesters', _cfg(requests=same + [_rq(3, 2)]), 2))
    return out


def dfs_shard(shard, nshards, seed, tier):
    stats = core.Stats()
    excl = exclusions()
    root = scratch_root()
    scope = []
    try:
        for ci, (name, cfg, bound) in enumerate(dfs_configs(tier)):
            def run_fn(ch, cfg=cfg):
                return run_case(cfg, ch, root, excl)
            if tier == 'quick':
                # small trees: one whole tree per shard (splitting would cost every shard the prefix enumeration)
                roots = [()] if ci % nshards == shard else []
            else:
                roots = [p for ri, p in enumerate(detsched.split_prefixes(run_fn, bound, nshards * 4))
                         if ri % nshards == shard]
            n = 0
            found = set()
            for prefix in roots:
                for ch, res in detsched.explore(run_fn, bound, prefix):
                    n += 1
                    v = judge(cfg, res, stats, 'dfs')
                    if v is not None and v.signature not in found:
                        found.add(v.signature)
                        stats.violations.append(v)
            stats.extra['dfs_schedules'] = stats.extra.get('dfs_schedules', 0) + n
            stats.extra['dfs_schedules:%s/k%d' % (name, bound)] = n
            scope.append('%s: %d requesters (%s), lock timeout 2 polling steps: all schedules with <= %d preemptions'
                         % (name, len(cfg['requests']),
                            '; '.join(describe_req(cfg, i) for i in range(len(cfg['requests']))), bound))
    finally:
        shutil.rmtree(root, ignore_errors=True)
    if shard == 0:
        stats.extra['exhaustive_scope'] = scope
        stats.extra['preemption_bounds'] = sorted(set(b for _, _, b in dfs_configs(tier)))
    return stats


# ------------------------------------------------------------------------------------------------
# (ii) Hypothesis-generated configurations and schedules

@st.composite
def cases(draw):
    source = draw(st.sampled_from(['wms', 'wms', 'wms', 'tiled']))
    if source == 'wms':
        meta_size = draw(st.sampled_from([[1, 1], [1, 1], [2, 2], [2, 2], [2, 1], [3, 2], [2, 3]]))
        meta_buffer = draw(st.sampled_from([0, 0, 3, 8]))
        bulk = False
        minimize = draw(st.sampled_from([False, False, True]))
    else:
        meta_size = draw(st.sampled_from([[1, 1], [2, 2], [2, 1], [3, 2]]))
        meta_buffer = 0
        bulk = meta_size != [1, 1]
        # bulk + minimize failed without any concurrency while the C04 finding was open (minimize is ignored for bulk now)
        minimize = False if SIG_C04_BULK_MIN in core.open_signatures('C04') else draw(st.sampled_from([False, False, True]))
    cfg = {
        'deploy': draw(st.sampled_from(['threads', 'procs'])),
        'cache': draw(st.sampled_from(['file', 'file', 'sqlite'])),
        'source': source, 'meta_size': meta_size, 'meta_buffer': meta_buffer, 'minimize': minimize, 'bulk': bulk,
        'creators': draw(st.sampled_from([1, 1, 2])),
        'two_caches': draw(st.sampled_from([False, False, False, True])),
        'lock_timeout': draw(st.sampled_from([60.0, 60.0, 60.0, 0.015, 0.035])),
    }
    nreq = draw(st.integers(2, 6))
    z = draw(st.sampled_from([1, 2, 2]))
    n = grid_n(z)
    mx, my = min(meta_size[0], n), min(meta_size[1], n)
    bx, by = draw(st.integers(0, n - 1)), draw(st.integers(0, n - 1))
    X0, Y0 = bx // mx * mx, by // my * my
    pattern = draw(st.sampled_from(['same-tile', 'same-tile', 'same-meta', 'same-meta', 'diff-meta', 'mixed']))
    ncache = 2 if cfg['two_caches'] else 1
    reqs = []
    for i in range(nreq):
        cache = draw(st.integers(0, ncache - 1)) if ncache > 1 else 0
        if pattern == 'same-tile':
            r = {'cache': cache, 'level': z, 'rect': [bx, by, 1, 1]}
        elif pattern == 'same-meta':
            x = min(X0 + draw(st.integers(0, mx - 1)), n - 1)
            y = min(Y0 + draw(st.integers(0, my - 1)), n - 1)
            w = draw(st.integers(1, max(1, min(mx, n - x, X0 + mx - x))))
            h = draw(st.integers(1, max(1, min(my, n - y, Y0 + my - y))))
            if draw(st.integers(0, 2)) > 0:
                w = h = 1
            r = {'cache': cache, 'level': z, 'rect': [x, y, w, h]}
        elif pattern == 'diff-meta':
            k = i % 3
            if k == 2 and draw(st.booleans()):
                # the same x, y on the other level
                z2 = 1 if z == 2 else 2
                n2 = grid_n(z2)
                r = {'cache': cache, 'level': z2, 'rect': [min(bx, n2 - 1), min(by, n2 - 1), 1, 1]}
            else:
                x = (X0 + k * mx + draw(st.integers(0, mx - 1))) % n
                y = min(Y0 + draw(st.integers(0, my - 1)), n - 1)
                r = {'cache': cache, 'level': z, 'rect': [x, y, 1, 1]}
        else:
            x = min(max(0, X0 - 1 + draw(st.integers(0, mx + 1))), n - 1)
            y = min(max(0, Y0 - 1 + draw(st.integers(0, my + 1))), n - 1)
            w = draw(st.integers(1, min(3, n - x)))
            h = draw(st.integers(1, min(3, n - y)))
            r = {'cache': cache, 'level': z, 'rect': [x, y, w, h]}
        reqs.append(r)
    cfg['requests'] = reqs
    preseed = []
    if draw(st.integers(0, 4)) == 0:
        universe = sorted(set((r['cache'],) + t for r in reqs for q in request_tiles(r) for t in unit_tiles(cfg, q)))
        picks = draw(st.lists(st.integers(0, len(universe) - 1), min_size=1, max_size=3, unique=True))
        preseed = [list(universe[p]) for p in picks]
    cfg['preseed'] = preseed
    cfg['freeze'] = draw(st.integers(0, nreq - 1)) if draw(st.integers(0, 3)) == 0 else None
    cfg['scan'] = draw(st.sampled_from([0, 0, 1, 2, 3])) if draw(st.integers(0, 2)) == 0 else None
    pairs = draw(st.lists(st.tuples(st.integers(0, 10 * nreq), st.integers(0, 4)), max_size=8))
    data = draw(st.lists(st.integers(0, 2), max_size=4))
    return {'cfg': cfg, 'pairs': pairs, 'data': data}


class HypChooser(detsched.SparseChooser):
    """SparseChooser whose default at a sleep point (a waiter polling the lock) is to let the next thread in cyclic
    order run - a waiter that always continues would spin straight into its timeout, and always yielding to the
    lowest thread id would starve the others."""

    def pick(self, kind, n, costs, info):
        v = detsched.SparseChooser.pick(self, kind, n, costs, info)
        if kind == 'thread' and v == 0 and info['current'] is not None and info['voluntary']:
            cur = info['current']
            later = [i for i, t in enumerate(info['options']) if i > 0 and t > cur]
            return later[0] if later else 1
        return v


def hyp_shard(shard, nshards, seed, tier):
    stats = core.Stats()
    excl = exclusions()
    root = scratch_root()
    n = (4800 if tier == 'quick' else 96000) // nshards

    def check(case, st_):
        if not valid_cfg(case['cfg']):
            raise core.HarnessError('generator produced an invalid configuration %r' % (case['cfg'],))
        res = run_case(case['cfg'], HypChooser(case['pairs'], case['data']), root, excl)
        return judge(case['cfg'], res, st_, 'hyp')

    try:
        core.hyp_search(cases(), check, stats, max_examples=n, seed=seed)
    finally:
        shutil.rmtree(root, ignore_errors=True)
    return stats


# ------------------------------------------------------------------------------------------------
# (iii) cross-process sub-check: real interpreter processes with different hash seeds

XPROC_SEEDS = ['1', '2', 'random']
FILE_LAYOUTS = ['tc', 'tms', 'mp', 'quadkey', 'arcgis', 'reverse_tms']
CHILD_CODE = ('import sys; sys.path.insert(0, %r); from vcheck.props import c08_concurrent as m; m.child_main()'
              % os.path.dirname(os.path.dirname(os.path.dirname(os.path.abspath(__file__)))))


class _PlainSource(object):
    coverage = None
    res_range = None
    extent = None

    def __init__(self, supports_meta_tiles, hook=None):
        self.supports_meta_tiles = supports_meta_tiles
        self.hook = hook

    def get_map(self, query):
        from mapproxy.image import ImageSource
        from PIL import Image
        env = _env()
        if self.hook:
            self.hook(query)
        arr = env['ground'].render_array(tuple(query.bbox), tuple(query.size), SRS)
        return ImageSource(Image.fromarray(arr, 'RGB'), size=tuple(query.size), image_opts=env['opts'], cacheable=True)


def xproc_manager(spec, base, cache_cls=None, hook=None):
    """Uninstrumented TileManager for one cross-process spec below the directory `base`."""
    from mapproxy.cache.tile import TileManager
    from mapproxy.cache.base import TileLocker
    env = _env()
    real, _ = cache_classes('file' if spec['cache'] == 'file' else 'sqlite')
    cls = cache_cls(real) if cache_cls else real
    cdir = os.path.join(base, 'cache')
    if spec['cache'] == 'file':
        cache = cls(cdir, 'png', directory_layout=spec.get('layout', 'tc'), image_opts=env['opts'])
    else:
        cache = cls(cdir)
    locker = TileLocker(os.path.join(base, 'locks'), 60, cache.lock_cache_id)
    mgr = TileManager(env['grid'], cache, [_PlainSource(spec['source'] == 'wms', hook)], 'png', locker=locker,
                      image_opts=env['opts'], request_format='png', meta_size=list(spec['meta_size']),
                      meta_buffer=int(spec['meta_buffer']), minimize_meta_requests=bool(spec.get('minimize')),
                      bulk_meta_tiles=bool(spec.get('bulk')), identifier='c08_x')
    return mgr, cache


def xproc_names(spec, base):
    """What this interpreter computes for one spec: lock file TileManager.lock() would use, cache id, tile location."""
    from mapproxy.cache.tile import Tile
    mgr, cache = xproc_manager(spec, base)
    coord = tuple(spec['coord'])
    lk = mgr.lock(Tile(coord))
    out = {'lock_file': getattr(lk, 'lock_file', repr(type(lk))), 'lock_cache_id': cache.lock_cache_id}
    if spec['cache'] == 'file':
        out['tile_location'] = cache.tile_location(Tile(coord), dimensions=spec.get('dimensions') or None)
    lk = None
    return out


def child_main():
    """Entry point of the sub-processes (python -c CHILD_CODE; JSON job on stdin, JSON answer as last stdout line)."""
    job = json.load(sys.stdin)
    if job['mode'] == 'names':
        out = [xproc_names(spec, job['base']) for spec in job['specs']]
    else:
        out = child_fetch(job)
    sys.stdout.write('\n' + json.dumps(out) + '\n')
    sys.stdout.flush()


def _touch(path):
    with open(path, 'a'):
        pass


def _wait_for(paths, timeout):
    t0 = real_time.time()
    while not all(os.path.exists(q) for q in paths):
        if real_time.time() - t0 > timeout:
            return False
        real_time.sleep(0.005)
    return True


def child_fetch(job):
    from mapproxy.config import local_base_config
    spec, base, me, other = job['spec'], job['base'], job['me'], job['other']
    sync = os.path.join(base, 'sync')

    def hook(query):
        fd = os.open(os.path.join(sync, 'calls'), os.O_WRONLY | os.O_APPEND | os.O_CREAT, 0o644)
        try:
            os.write(fd, (json.dumps({'proc': me, 'bbox': [float(v) for v in query.bbox]}) + '\n').encode())
        finally:
            os.close(fd)
        # stay "in the upstream call" until the other process has made its cache check (or has finished)
        _wait_for([os.path.join(sync, 'checked-%d' % other)], 20.0) or _touch(os.path.join(sync, 'gave-up-%d' % me))

    def cache_cls(real):
        class Marking(real):
            def is_cached(self, tile, dimensions=None):
                r = real.is_cached(self, tile, dimensions=dimensions)
                if not r:
                    _touch(os.path.join(sync, 'missed-%d' % me))
                _touch(os.path.join(sync, 'checked-%d' % me))
                return r
        return Marking

    mgr, cache = xproc_manager(spec, base, cache_cls=cache_cls, hook=hook)
    coords = [tuple(c) for c in job['coords']]
    if job.get('stall_init') and me == 0:
        # hold this process right after the sqlite3.connect() that _initialize_mbtile makes for a new level file until the
        # other process has answered its request (or 3 s have passed: it may legitimately wait for our init lock)
        import sqlite3 as real_sqlite3
        from mapproxy.cache import mbtiles as mmb
        state = {'init': 0}
        orig_init = mmb.MBTilesCache._initialize_mbtile

        def init(self_):
            state['init'] += 1
            try:
                return orig_init(self_)
            finally:
                state['init'] -= 1

        def connect(*a, **kw):
            db = real_sqlite3.connect(*a, **kw)
            if state['init'] and not os.path.exists(os.path.join(sync, 'init-connected-0')):
                _touch(os.path.join(sync, 'init-connected-0'))
                _wait_for([os.path.join(sync, 'finished-1')], 3.0)
            return db
        mmb.MBTilesCache._initialize_mbtile = init
        mmb.sqlite3 = _Namespace(real_sqlite3, connect=connect)
    _touch(os.path.join(sync, 'ready-%d' % me))
    if not _wait_for([os.path.join(sync, 'ready-%d' % other)], 60.0):
        return {'status': 'partner-not-ready'}
    if job.get('stall_init') and me == 1 and not _wait_for([os.path.join(sync, 'init-connected-0')], 30.0):
        return {'status': 'partner-not-ready'}
    try:
        with local_base_config(_env()['conf']):
            try:
                tiles = mgr.load_tile_coords(list(coords))
            except Exception as e:
                if raised_in_harness(e):
                    raise
                return {'status': 'raised', 'exc': type(e).__name__, 'msg': str(e)[:300], 'tb': traceback.format_exc()[-1500:]}
            bad = [list(t.coord) for t in tiles if t.source is None or not matches(decode(t.source), t.coord)]
            mgr.cleanup()
    finally:
        _touch(os.path.join(sync, 'checked-%d' % me))
        _touch(os.path.join(sync, 'finished-%d' % me))
    return {'status': 'ok', 'bad': bad}


def _spawn(job, hashseed):
    env = dict(os.environ)
    env['PYTHONHASHSEED'] = hashseed
    p = subprocess.Popen([sys.executable, '-c', CHILD_CODE], stdin=subprocess.PIPE, stdout=subprocess.PIPE,
                         stderr=subprocess.PIPE, env=env, cwd=os.path.dirname(os.path.dirname(os.path.dirname(
                             os.path.abspath(__file__)))))
    p.stdin.write(json.dumps(job).encode())
    p.stdin.close()
    p.stdin = None
    return p


def _collect(p, what):
    try:
        out, err = p.communicate(timeout=900)
    except subprocess.TimeoutExpired:
        p.kill()
        p.communicate()
        raise core.HarnessError('cross-process child (%s) did not finish' % what)
    rc = p.returncode
    if rc != 0:
        raise core.HarnessError('cross-process child (%s) failed with exit code %r:\n%s' % (what, rc, err.decode()[-3000:]))
    try:
        return json.loads(out.decode().strip().splitlines()[-1])
    except Exception:
        raise core.HarnessError('cross-process child (%s) printed no answer: %r' % (what, out[-500:]))


def xproc_specs(tier, seed):
    rnd = random.Random(core.derive_seed(seed, 'c08-xproc'))
    metas = [('wms', [1, 1], 0, False, False), ('wms', [2, 2], 0, False, False), ('wms', [2, 2], 3, False, False),
             ('wms', [3, 2], 8, True, False), ('wms', [2, 3], 0, True, False), ('tiled', [2, 2], 0, False, True),
             ('tiled', [1, 1], 0, False, False)]
    specs = []
    for i in range(14 if tier == 'quick' else 60):
        source, ms, mb, mini, bulk = metas[i % len(metas)] if i < len(metas) else rnd.choice(metas)
        z = rnd.choice([0, 1, 2, 2])
        n = grid_n(z)
        spec = {'cache': 'file' if i % 4 != 3 else 'sqlite', 'layout': FILE_LAYOUTS[i % len(FILE_LAYOUTS)],
                'source': source, 'meta_size': ms, 'meta_buffer': mb, 'minimize': mini, 'bulk': bulk,
                'coord': [rnd.randrange(n), rnd.randrange(n), z],
                'dimensions': rnd.choice([None, None, {'time': '2024-0%d-01' % rnd.randint(1, 9)},
                                          {'time': 'a b', 'elevation': str(rnd.randint(0, 999))}])}
        specs.append(spec)
    return specs


XPROC_FETCH = [
    ('single-tile/file', {'cache': 'file', 'source': 'wms', 'meta_size': [1, 1], 'meta_buffer': 0}, [[(3, 2, 2)], [(3, 2, 2)]]),
    ('meta-2x2-buffer3-different-tiles/file', {'cache': 'file', 'source': 'wms', 'meta_size': [2, 2], 'meta_buffer': 3},
     [[(2, 2, 2)], [(3, 3, 2)]]),
    ('meta-2x2-same-tile/sqlite', {'cache': 'sqlite', 'source': 'wms', 'meta_size': [2, 2], 'meta_buffer': 0},
     [[(1, 1, 1)], [(1, 1, 1)]]),
]


NAMES_BASE = os.path.join(tempfile.gettempdir(), 'c08-xproc-names-not-created')


def xproc_names_start(specs, hashseeds):
    return [(hs, _spawn({'mode': 'names', 'base': NAMES_BASE, 'specs': specs}, hs)) for hs in hashseeds]


def xproc_names_check(specs, hashseeds, stats, procs=None):
    """Returns a Violation or None."""
    base = NAMES_BASE
    procs = procs or xproc_names_start(specs, hashseeds)
    answers = [('harness', [xproc_names(spec, base) for spec in specs])]
    for hs, p in procs:
        answers.append(('PYTHONHASHSEED=' + hs, _collect(p, 'names ' + hs)))
    first = None
    for i, spec in enumerate(specs):
        classes = ['src:xproc-names', 'xproc-cache:' + (spec['cache'] if spec['cache'] != 'file' else 'file-' + spec['layout']),
                   'xproc-dimensions:' + ('yes' if spec['dimensions'] else 'no')]
        stats.case(key=('xproc-names', spec), nontrivial=False, classes=classes)
        for key in ('lock_file', 'lock_cache_id', 'tile_location'):
            vals = [(who, a[i].get(key)) for who, a in answers]
            if len(set(v for _, v in vals)) > 1 and first is None:
                first = core.Violation(
                    'C08/cross-process/%s-differs' % key.replace('_', '-'),
                    'independently started processes do not agree on the %s of tile %r (%s cache, meta %r): %s - they '
                    'cannot exclude each other / find each other\'s tiles, so every process asks the upstream itself'
                    % (key.replace('_', ' '), tuple(spec['coord']), spec['cache'], spec['meta_size'],
                       '; '.join('%s: %s' % (w, os.path.basename(str(v)) if key != 'tile_location' else v) for w, v in vals)),
                    {'xproc': 'names', 'specs': [spec], 'hashseeds': list(hashseeds)})
    return first


def xproc_fetch_check(name, spec, coords, hashseeds, stats, stall_init=False, exclude=frozenset()):
    return xproc_fetch_finish(xproc_fetch_start(name, spec, coords, hashseeds, stats, stall_init, exclude), stats)


def xproc_fetch_start(name, spec, coords, hashseeds, stats, stall_init=False, exclude=frozenset()):
    spec = dict(spec, minimize=False, bulk=False)
    base = tempfile.mkdtemp(prefix='c08-xproc-')
    try:
        os.makedirs(os.path.join(base, 'sync'))
        if spec['cache'] == 'sqlite' and SIG_SQLITE_INIT in exclude and not stall_init:
            # open known finding: a process that meets a level file which another process is just initialising fails with
            # "no such table"; start the processes on initialised level files so that the search continues behind it
            plain = cache_classes('sqlite')[0](os.path.join(base, 'cache'))
            for z in sorted(set(c[2] for cs in coords for c in cs)):
                plain._get_level(z)
            plain.cleanup()
            stats.excluded['sqlite level files initialised before the processes start (known ' + SIG_SQLITE_INIT + ')'] += 1
        procs = []
        for me in (0, 1):
            job = {'mode': 'fetch', 'base': base, 'spec': spec, 'me': me, 'other': 1 - me, 'coords': coords[me],
                   'stall_init': bool(stall_init)}
            procs.append(_spawn(job, hashseeds[me]))
    except BaseException:
        shutil.rmtree(base, ignore_errors=True)
        raise
    return (name, coords, hashseeds, stall_init, base, procs)


def xproc_fetch_finish(ctx, stats):
    name, coords, hashseeds, stall_init, base, procs = ctx
    try:
        res = [_collect(p, 'fetch %s #%d' % (name, i)) for i, p in enumerate(procs)]
        sync = os.path.join(base, 'sync')
        calls = []
        if os.path.exists(os.path.join(sync, 'calls')):
            with open(os.path.join(sync, 'calls')) as f:
                calls = [json.loads(line) for line in f if line.strip()]
        overlap = all(os.path.exists(os.path.join(sync, 'missed-%d' % i)) for i in (0, 1))
        gave_up = any(os.path.exists(os.path.join(sync, 'gave-up-%d' % i)) for i in (0, 1))
    finally:
        shutil.rmtree(base, ignore_errors=True)
    case = {'xproc': 'fetch', 'name': name, 'hashseeds': list(hashseeds), 'stall_init': bool(stall_init)}
    for i, r in enumerate(res):
        if r.get('status') == 'raised':
            sig = 'C08/cross-process/response/raised/' + r['exc']
            if r['exc'] == 'OperationalError' and 'no such table' in r['msg']:
                sig = SIG_SQLITE_INIT
            stats.case(key=('xproc-fetch', name, tuple(hashseeds), stall_init), nontrivial=True,
                       classes=['src:xproc-fetch', 'xproc-fetch:' + name, 'xproc-outcome:raised'], sample=case)
            return core.Violation(sig, 'process %d (PYTHONHASHSEED=%s) of two independently started processes sharing cache '
                                  'and lock directory got %s: %s for %r [%s]\n%s'
                                  % (i, hashseeds[i], r['exc'], r['msg'], coords[i], name, r['tb']), case)
    if any(r.get('status') != 'ok' for r in res) or (gave_up and not stall_init):
        stats.inconclusive['xproc-fetch-partner-late'] += 1
        return None
    stats.case(key=('xproc-fetch', name, tuple(hashseeds)), nontrivial=overlap,
               classes=['src:xproc-fetch', 'xproc-fetch:' + name, 'xproc-overlap:' + ('yes' if overlap else 'no'),
                        'xproc-upstream-calls:%d' % len(calls)], sample=case)
    if not overlap:
        stats.inconclusive['xproc-fetch-no-overlap'] += 1
    for i, r in enumerate(res):
        if r['bad']:
            return core.Violation('C08/cross-process/response/wrong-or-missing-image',
                                  'process %d (PYTHONHASHSEED=%s) got wrong or missing images for %r [%s]'
                                  % (i, hashseeds[i], r['bad'], name), case)
    if len(calls) > 1:
        return core.Violation('C08/cross-process/upstream/repeated-fetch',
                              'two independently started processes (PYTHONHASHSEED=%s / %s) sharing cache and lock directory '
                              'asked for %r and %r at the same time: the upstream was asked %d times (%r) [%s]'
                              % (hashseeds[0], hashseeds[1], coords[0], coords[1], len(calls),
                                 [(c['proc'], c['bbox']) for c in calls], name), case)
    return None


def xproc_run(tier, seed, stats):
    st_ = core.Stats()
    excl = exclusions()
    specs = xproc_specs(tier, seed)
    # all child processes run at the same time (each pair has its own directories)
    names = xproc_names_start(specs, XPROC_SEEDS)
    pairs = []
    try:
        for name, spec, coords in XPROC_FETCH:
            pairs.append(xproc_fetch_start(name, spec, coords, ['1', 'random'], st_, exclude=excl))
        v = xproc_names_check(specs, XPROC_SEEDS, st_, procs=names)
        if v is not None:
            st_.violations.append(v)
    finally:
        for ctx in pairs:
            try:
                v = xproc_fetch_finish(ctx, st_)
            finally:
                shutil.rmtree(ctx[4], ignore_errors=True)
            if v is not None:
                st_.violations.append(v)
    stats.merge(st_)


def run(tier, seed, stats):
    xproc_run(tier, seed, stats)
    ex = core.parallel(dfs_shard, 16, seed, tier)
    stats.merge(ex)
    # exhaustive for the stated preemption bounds unless a run hit the step bound; sub-trees below the entry into the
    # construct of an open known finding are pruned (counted in excluded_by_construction) while that finding is open
    stats.extra['exhaustive'] = not ex.inconclusive.get('step-bound')
    if ex.excluded:
        stats.extra['exhaustive_note'] = ('schedules are cut where they enter the construct of an open known finding: '
                                          '%d of %d DFS runs' % (sum(ex.excluded.values()), ex.extra.get('dfs_schedules', 0)))
    stats.merge(core.parallel(hyp_shard, 16, seed, tier))


def replay(case, stats):
    if case.get('xproc') == 'names':
        v = xproc_names_check(case['specs'], case['hashseeds'], stats)
        return [v] if v else []
    if case.get('xproc') == 'fetch':
        for name, spec, coords in XPROC_FETCH:
            if name == case['name']:
                v = xproc_fetch_check(name, spec, coords, case['hashseeds'], stats, stall_init=case.get('stall_init'))
                return [v] if v else []
        raise core.HarnessError('unknown cross-process case %r' % (case,))
    cfg = public_cfg(case['cfg'])
    if not valid_cfg(cfg):
        raise core.HarnessError('invalid configuration in replay case')
    root = scratch_root()
    try:
        res = run_case(cfg, detsched.ListChooser(case['choices']), root)
    finally:
        shutil.rmtree(root, ignore_errors=True)
    v = judge(cfg, res, stats, 'replay')
    return [v] if v else []
