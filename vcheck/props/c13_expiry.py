"""C13 - Expiry rules decide precisely which tiles are refreshed.

A Hypothesis state machine drives real TileManagers (built by the configuration loader, sharing one
cache: a single-tile manager, a 2x2 meta-tile manager and a bulk-meta-tile manager) under a virtual
clock and compares every request with a small model of the cache (content version + write time of
every tile).  See DESIGN.md section 14.

Virtual time: `mapproxy.util.times.datetime` (-> relative thresholds), the `time` module seen by
`mapproxy.cache.mbtiles` / `mapproxy.cache.base` (-> sqlite timestamps) are replaced by views of the
harness clock; the file backend gets its mtime from the same clock through `os.utime` right after each
store (the stand-in for the kernel clock); the `mtime` threshold file is a real file touched with
`os.utime`.  Everything is restored when a history ends.
"""
import collections
import datetime as _real_datetime_mod
import itertools
import math
import os
import shutil
import sqlite3
import sys
import tempfile
import threading
import time as _real_time
import types

from hypothesis import strategies as st
from hypothesis.stateful import RuleBasedStateMachine, initialize, rule, precondition

from .. import core

PROPERTY = 'C13'
LEVEL = 'exploration'
RULE = ('Hypothesis RuleBasedStateMachine histories (quick: <= 40 steps) over one cache shared by three TileManagers built by the '
        'configuration loader (single-tile, 2x2 meta-tile with/without minimize_meta_requests and meta_buffer, bulk meta-tile) on the '
        'file (6 directory layouts, symlinked single-colour tiles), per-level sqlite and mbtiles-with-timestamps backends, with a '
        'virtual clock and a generated server time zone (process TZ: UTC, 3 zones west, 3 east; January / June). Steps: request a tile / a block of tiles (plain, or seed style with the walker\'s is_cached / is_stale '
        'pre-check), advance the clock (1/8 s ... a week), set the serving rule refresh_before (absolute time as string or datetime, '
        'relative seconds/minutes/hours/days/weeks, mtime of a file), re-touch the mtime file, set the seed-task threshold '
        '(_expire_timestamp computed as SeedTask does), switch the upstream between ok / SourceError / on_error image (with and '
        'without authorize_stale), bump the upstream content version, and a deterministic two-requester race (requester B - same TileManager or a '
        'second one on the same cache and lock directories - asks for the same stale tile(s) while A is inside the upstream call holding '
        'the tile lock; the upstream answers only after B was seen failing to get that lock; outcome must equal the sequential order A, B: '
        'one upstream request in total when A\'s tile is written after the threshold). Thresholds are placed at, 1/8 s ... 1.5 s beside and far from '
        'the write times of stored tiles. Each request is judged against the model: upstream call log (exactly the stale/missing '
        '(meta) tiles, once), returned content version, and a byte-level scan of all 21 tile slots. A history is non-trivial when some '
        'tile was requested before and after a threshold change and the history contains at least one must-refresh and one '
        'must-keep decision on a stored tile; distinct = distinct (configuration, operation list).')
ASSUMPTIONS = [
    'server time zone drawn per history (UTC, 3 zones west, 3 east incl. half-hour offsets and a southern DST zone; January or June 2003); the clock stays >= 5 weeks away from DST switches; the model works in epoch seconds only; virtual clock values are multiples of 1/8 s so float arithmetic is exact',
    'absolute `time:` thresholds (ISO string / datetime without offset; the documentation does not name the zone) are generated in UTC histories only; relative and mtime rules and the seed-task threshold in every zone',
    'same-second band (floor(written) == floor(threshold) and written > threshold) accepted either way: documented integer granularity of the comparison',
    'file backend: the kernel clock is emulated by os.utime(mtime = virtual now) immediately after every store_tile',
    'concurrent_tile_creators = 1 (schedules belong to C08); sqlite ttl option not used (it reads the real SQL clock)',
    'a fresh tile that shares a meta tile with a stale requested tile may legitimately be re-fetched (meta-tile granularity); its served content is not judged',
    'when a seed-task threshold and a cache-level refresh_before are both set: must-refresh is judged by the seed rule, must-keep only when both rules keep',
    'race rule: real threads and the real file tile lock (retry step 0.01 s real time); if B neither reaches the lock nor finishes within 15 s the step is inconclusive, never a violation; races are generated with a healthy upstream and one creation unit (one tile / one meta tile) only',
    'an on_error image with cache: False is the failure response; on_error cache: True (configured overwrite) is not generated',
    'returned-where-configured clause: authorize_stale (doc/sources.rst) and the SourceError fallback are judged on the single-tile path only, where MapProxy implements them; on meta/bulk paths only the stored state is judged (ignored authorize_stale is counted in notes)',
]

BASE = 1.0e9                      # 2001-09-09T01:46:40Z, far from the real clock on purpose
START = BASE + 500 * 86400.0       # 2003-01-22 (January histories)
# server time zone (process TZ of the code under test) and season are generated per history.  The virtual clock stays within
# [start, start + MAX_ADVANCE]; for these zones and both seasons the UTC offset is constant from start - 35 d to start + 65 d,
# i.e. the clock keeps >= 5 weeks away from every DST switch and local <-> epoch conversion is unambiguous.
ZONES = ['UTC', 'America/New_York', 'America/Los_Angeles', 'Pacific/Honolulu', 'Europe/Berlin', 'Asia/Kolkata', 'Australia/Adelaide']
SEASONS = {'jan': START, 'jun': START + 145 * 86400.0}      # 2003-01-22 / 2003-06-16
MAX_ADVANCE = 30 * 86400.0
TILE = 16
LEVELS = (0, 1, 2)
UNIVERSE = [(x, y, z) for z in LEVELS for x in range(2 ** z) for y in range(2 ** z)]
RACE_WAIT = 15.0                 # real seconds the harness waits for a requester to reach a rendezvous (then: inconclusive)
SIG_RACE_SQLITE_SINGLE = 'C13/race/tile-refreshed-by-lock-holder-fetched-again/single/sqlite'
SIG_SEED_VS_CACHE_RULE = 'C13/seed-threshold-ignored/cache-level-refresh_before-wins'


# ------------------------------------------------------------------------------------------------
# virtual clock and patches


class VClock(object):
    def __init__(self, now):
        self.now = now


def _install_patches(clock):
    """Replace the clocks seen by the code under test.  Returns an undo function."""
    import mapproxy.util.times as mtimes
    import mapproxy.cache.mbtiles as mmb
    import mapproxy.cache.base as mbase

    real_dt = _real_datetime_mod.datetime

    class _Meta(type(real_dt)):
        def __instancecheck__(cls, obj):
            return isinstance(obj, real_dt)

    class VDateTime(real_dt, metaclass=_Meta):
        @classmethod
        def now(cls, tz=None):
            return real_dt.fromtimestamp(clock.now)

    fake_datetime = types.SimpleNamespace(datetime=VDateTime, timedelta=_real_datetime_mod.timedelta,
                                          date=_real_datetime_mod.date)

    class FakeTime(object):
        def __getattr__(self, name):
            return getattr(_real_time, name)

        @staticmethod
        def time():
            return clock.now

    saved = [(mtimes, 'datetime', mtimes.datetime), (mmb, 'time', mmb.time), (mbase, 'time', mbase.time)]
    mtimes.datetime = fake_datetime
    mmb.time = FakeTime()
    mbase.time = FakeTime()

    def undo():
        for mod, name, val in saved:
            setattr(mod, name, val)
    return undo


def _scratch_root():
    """tmpfs when available (the histories create and delete thousands of tiny files), else the default temp dir"""
    d = '/dev/shm'
    if os.path.isdir(d) and os.access(d, os.W_OK | os.X_OK):
        return d
    return None


def _iso(value):
    return _real_datetime_mod.datetime.utcfromtimestamp(value).strftime('%Y-%m-%dT%H:%M:%S')


# ------------------------------------------------------------------------------------------------
# synthetic upstream


def _tile_colour(version, coord):
    x, y, z = coord
    return (10 + version % 240, 20 + 8 * (x * 4 + y), 50 + 40 * z)


class SynthSource(object):
    """MapLayer-like source: renders an image that encodes (content version, tile identity) per tile cell."""
    coverage = None
    extent = None
    res_range = None
    transparent = False
    opacity = None
    supports_meta_tiles = True

    def __init__(self, engine, supports_meta_tiles):
        self.engine = engine
        self.supports_meta_tiles = supports_meta_tiles

    def get_map(self, query):
        from mapproxy.image import ImageSource
        from mapproxy.image.opts import ImageOptions
        from mapproxy.source import SourceError
        eng = self.engine
        try:
            eng.clock.now += eng.cfg['latency']
            me = threading.current_thread()
            entry = {'bbox': tuple(query.bbox), 'size': tuple(query.size), 'version': eng.version,
                     'fail': eng.fail, 't': eng.clock.now, 'thread': me.name}
            eng.log.append(entry)
            gate = eng.gate
            if gate is not None and gate['armed'] and me is gate['thread'] and not gate['inside'].is_set():
                # requester A of a race: the upstream answers only when the harness says so
                gate['inside'].set()
                if not gate['release'].wait(4 * RACE_WAIT):
                    raise core.HarnessError('race gate was never released')
            fail = eng.fail
            if fail is None:
                img = eng.render(query.bbox, query.size, eng.version)
            elif fail != 'raise':
                resp = eng.error_handlers[fail].handle(500, query)
        except Exception:
            eng.harness_exc = sys.exc_info()
            raise
        if fail == 'raise':
            raise SourceError('synthetic upstream failure')
        if fail is not None:
            return resp
        return ImageSource(img, size=tuple(query.size), image_opts=ImageOptions(format='image/png'))


# ------------------------------------------------------------------------------------------------
# engine: executes operations on the real managers and judges them against the model


def classify(ts, T):
    """Decision demanded by the property for a stored tile written at `ts` under threshold `T` (reals)."""
    if math.floor(ts) < math.floor(T):
        return 'must'
    if math.floor(ts) > math.floor(T):
        return 'keep'
    if ts <= T:
        return 'must'
    return 'band'


class Engine(object):
    def __init__(self, cfg):
        import numpy as np
        self.np = np
        self.cfg = dict(cfg)
        self.ops = []
        self.dead = False
        self.log = []
        self.harness_exc = None
        self.version = 1
        self.fail = None
        self.model = {}            # coord -> {'bytes', 'ts', 'version'}
        self.serve_rule = None     # rule dict (absolute description) or None
        self.seed_rule = None      # {'rule', 'T'} or None
        self.epoch = 0             # number of threshold changes so far
        self.req_epochs = collections.defaultdict(set)
        self.decisions = collections.Counter()
        self.classes = set()
        self.notes = collections.Counter()
        self.tmp = None
        self.undo = None
        self.mtime_value = None
        self.mgrs2 = None          # second set of managers on the same directories (built on demand)
        self.gate = None           # race control of the synthetic upstream
        self.race_tag = ''
        self.zone = cfg.get('zone', 'UTC')
        self.start = SEASONS[cfg.get('season', 'jan')]
        self.clock = VClock(self.start + cfg['start_frac'] * 0.125)
        self._orig_tz = os.environ.get('TZ')
        self._tz_set = False
        try:
            self._set_zone()
            self._build()
        except BaseException:
            self.close()
            raise

    # -- construction ---------------------------------------------------------------------------

    def _set_zone(self):
        """process time zone of the code under test (the harness' own arithmetic is in epoch seconds only)"""
        import zoneinfo
        self._tz_set = True
        os.environ['TZ'] = self.zone
        _real_time.tzset()
        zi = zoneinfo.ZoneInfo(self.zone)
        for t in (self.start - 35 * 86400.0, self.start, self.start + MAX_ADVANCE + 35 * 86400.0):
            want = int(_real_datetime_mod.datetime.fromtimestamp(t, zi).utcoffset().total_seconds())
            got = _real_time.localtime(t).tm_gmtoff
            if want != got:
                raise core.HarnessError('TZ=%s not in effect: C library offset %r, tz database %r' % (self.zone, got, want))
        self.utc_offset = _real_time.localtime(self.start).tm_gmtoff

    def _rule_conf(self, r):
        """absolute rule description -> the refresh_before dict a configuration would contain"""
        if r is None:
            return {}
        if r['kind'] == 'time':
            if self.zone != 'UTC':
                # the documentation does not say in which zone an ISO time without offset is meant
                raise core.HarnessError('absolute `time` rules are generated for UTC histories only')
            if r.get('as_datetime'):
                return {'time': _real_datetime_mod.datetime.utcfromtimestamp(r['value'])}
            return {'time': _iso(r['value'])}
        if r['kind'] == 'mtime':
            return {'mtime': self.mtime_file}
        return dict((k, v) for k, v in r['delta'].items())

    def _build(self):
        from mapproxy.source.error import HTTPSourceErrorHandler
        cfg = self.cfg
        self.tmp = tempfile.mkdtemp(prefix='c13-', dir=_scratch_root())
        tmp = self.tmp
        self.mtime_file = os.path.join(tmp, 'reseed.time')
        self._touch(self.start - 86400.0)
        backend = cfg['backend']
        if backend in ('file', 'file-symlink'):
            cache = {'type': 'file', 'directory': os.path.join(tmp, 'tiles'), 'directory_layout': cfg['layout']}
        else:
            cache = {'type': 'sqlite', 'directory': os.path.join(tmp, 'tiles')}
        self.family = {'file': 'file', 'file-symlink': 'file', 'sqlite': 'sqlite', 'mbtiles': 'mbtiles'}[backend]
        common = {'grids': ['g'], 'format': 'image/png'}
        if backend == 'file-symlink':
            common['link_single_color_images'] = True
        initial = self._rule_conf(cfg.get('initial_rule'))
        if initial:
            common['refresh_before'] = initial
        self.serve_rule = cfg.get('initial_rule')
        conf = {
            'globals': {'cache': {'base_dir': os.path.join(tmp, 'cache_data'), 'lock_dir': os.path.join(tmp, 'locks'),
                                  'tile_lock_dir': os.path.join(tmp, 'tlocks'), 'concurrent_tile_creators': 1},
                        'image': {'paletted': False}},
            'grids': {'g': {'srs': 'EPSG:3857', 'tile_size': [TILE, TILE], 'num_levels': len(LEVELS), 'origin': 'sw'}},
            'sources': {'w': {'type': 'wms', 'req': {'url': 'http://127.0.0.1:1/x', 'layers': 'a'}},
                        't': {'type': 'tile', 'url': 'http://127.0.0.1:1/%(z)s/%(x)s/%(y)s.png', 'grid': 'g'}},
            'caches': {
                'cs': dict(common, sources=['w'], meta_size=[1, 1], meta_buffer=0, cache=dict(cache)),
                'cm': dict(common, sources=['w'], meta_size=[2, 2], meta_buffer=cfg['meta_buffer'],
                           minimize_meta_requests=bool(cfg['minimize']), cache=dict(cache)),
                'cb': dict(common, sources=['t'], meta_size=[2, 2], bulk_meta_tiles=True, cache=dict(cache)),
            },
            'layers': [{'name': 'l', 'title': 'l', 'sources': ['cs']}],
            'services': {'tms': {}},
        }
        self.undo = _install_patches(self.clock)
        self._conf = conf
        self._shared_mbtiles = None
        self.src_meta = SynthSource(self, True)
        self.src_tile = SynthSource(self, False)
        self.mgrs = self._load_managers()
        self.grid = self.mgrs['cs'].grid
        # the loader must have handed the configured rule to every manager (loader.py: mgr._refresh_before = ...)
        self.loader_rule_lost = any(bool(m._refresh_before) != bool(initial) for m in self.mgrs.values())
        self.error_handlers = {}
        for key, stale in (('errimg', False), ('errimg-stale', True)):
            h = HTTPSourceErrorHandler()
            h.add_handler('other', (255, 0, 0), cacheable=False, authorize_stale=stale)
            self.error_handlers[key] = h
        # per-level lookup for the renderer
        self.res = [self.grid.resolution(z) for z in LEVELS]
        self._tile_cache = {}

    def _load_managers(self):
        """TileManagers cs / cm / cb as the configuration loader builds them, with the synthetic upstream plugged in"""
        import copy
        from mapproxy.config.loader import ProxyConfiguration
        pc = ProxyConfiguration(copy.deepcopy(self._conf), conf_base_dir=self.tmp)
        mgrs = {}
        for name in ('cs', 'cm', 'cb'):
            mgrs[name] = pc.caches[name].caches()[0][2]
        if self.cfg['backend'] == 'mbtiles':
            from mapproxy.cache.mbtiles import MBTilesCache
            self.mbfile = os.path.join(self.tmp, 'tiles', 'all.mbtiles')
            shared = MBTilesCache(self.mbfile, with_timestamps=True)
            for m in mgrs.values():
                m.cache = shared
        mgrs['cs'].sources = [self.src_meta]
        mgrs['cm'].sources = [self.src_meta]
        mgrs['cb'].sources = [self.src_tile]
        if mgrs['cs'].meta_grid is not None or mgrs['cm'].meta_grid is None or mgrs['cb'].meta_grid is None:
            raise core.HarnessError('unexpected meta grid setup')
        if self.family == 'file':
            for m in mgrs.values():
                self._wrap_file_cache(m.cache)
        return mgrs

    def _wrap_file_cache(self, cache):
        clock = self.clock
        orig = cache.store_tile

        def store_tile(tile, dimensions=None):
            if tile.stored:
                return orig(tile, dimensions=dimensions)
            r = orig(tile, dimensions=dimensions)
            loc = cache.tile_location(tile, dimensions=dimensions)
            os.utime(loc, (BASE, clock.now), follow_symlinks=False)
            return r
        cache.store_tile = store_tile

    def _touch(self, value):
        with open(self.mtime_file, 'a'):
            pass
        os.utime(self.mtime_file, (BASE, value))
        self.mtime_value = value

    def close(self):
        try:
            for m in list(getattr(self, 'mgrs', {}).values()) + list((getattr(self, 'mgrs2', None) or {}).values()):
                try:
                    m.cleanup()
                except Exception:
                    pass
        finally:
            if self.undo:
                self.undo()
                self.undo = None
            if getattr(self, '_tz_set', False):
                if self._orig_tz is None:
                    os.environ.pop('TZ', None)
                else:
                    os.environ['TZ'] = self._orig_tz
                _real_time.tzset()
                self._tz_set = False
            if self.tmp:
                shutil.rmtree(self.tmp, ignore_errors=True)
                self.tmp = None

    # -- rendering ------------------------------------------------------------------------------

    def render(self, bbox, size, version):
        from PIL import Image
        np = self.np
        w, h = size
        res = (bbox[2] - bbox[0]) / w
        z = min(LEVELS, key=lambda lv: abs(self.res[lv] - res))
        if abs(self.res[z] - res) > 1e-6 * res:
            raise core.HarnessError('upstream asked for a resolution that is no grid level: %r' % (res,))
        r = self.res[z]
        gx0, gy0 = self.grid.bbox[0], self.grid.bbox[1]
        px = np.floor((bbox[0] + (np.arange(w) + 0.5) * res - gx0) / r).astype(int)
        py = np.floor((bbox[3] - (np.arange(h) + 0.5) * res - gy0) / r).astype(int)
        tx, ox = px // TILE, px % TILE
        ty, oy = py // TILE, py % TILE
        n = 2 ** z
        arr = np.zeros((h, w, 3), dtype=np.uint8)
        solid = self.cfg['backend'] == 'file-symlink'
        for ux in sorted(set(tx.tolist())):
            for uy in sorted(set(ty.tolist())):
                if not (0 <= ux < n and 0 <= uy < n):
                    continue
                col = _tile_colour(version, (ux, uy, z))
                mx = tx == ux
                my = ty == uy
                cell = np.outer(my, mx)
                arr[cell] = col
                if not solid:
                    mark = np.outer(my & (oy >= 6) & (oy < 10), mx & (ox >= 6) & (ox < 10))
                    arr[mark] = (255 - col[0], col[1], col[2])
        return Image.fromarray(arr, 'RGB')

    def tile_pixels(self, version, coord):
        key = (version, coord)
        if key not in self._tile_cache:
            img = self.render(self.grid.tile_bbox(coord), (TILE, TILE), version)
            self._tile_cache[key] = self.np.asarray(img).copy()
        return self._tile_cache[key]

    def decode(self, data):
        from PIL import Image
        from io import BytesIO
        try:
            return self.np.asarray(Image.open(BytesIO(data)).convert('RGB'))
        except Exception:
            return None

    def same_pixels(self, arr, version, coord):
        exp = self.tile_pixels(version, coord)
        return arr is not None and arr.shape == exp.shape and bool((arr == exp).all())

    # -- direct store access (harness' own reader) ------------------------------------------------

    def read_all(self):
        from mapproxy.cache.tile import Tile
        out = {}
        if self.family == 'file':
            cache = self.mgrs['cs'].cache
            for c in UNIVERSE:
                loc = cache.tile_location(Tile(c))
                if os.path.lexists(loc):
                    try:
                        with open(loc, 'rb') as f:
                            out[c] = f.read()
                    except OSError:
                        out[c] = b'<dangling link>'
            return out
        if self.family == 'mbtiles':
            files = {z: self.mbfile for z in LEVELS}
        else:
            files = {z: os.path.join(self.mgrs['cs'].cache.cache_dir, '%d.mbtile' % z) for z in LEVELS}
        for z in LEVELS:
            if not os.path.exists(files[z]):
                continue
            db = sqlite3.connect(files[z])
            try:
                for x, y, data in db.execute('SELECT tile_column, tile_row, tile_data FROM tiles WHERE zoom_level = ?', (z,)):
                    out[(x, y, z)] = bytes(data)
            finally:
                db.close()
        return out

    # -- thresholds -------------------------------------------------------------------------------

    def rule_T(self, r, now):
        if r['kind'] == 'time':
            return float(r['value'])
        if r['kind'] == 'mtime':
            return self.mtime_value
        d = r['delta']
        total = (d.get('seconds', 0) + 60.0 * d.get('minutes', 0) + 3600.0 * d.get('hours', 0) +
                 86400.0 * d.get('days', 0) + 604800.0 * d.get('weeks', 0))
        return now - total

    def state_of(self, coord, now, serve_only=False):
        """('missing'|'none'|'must'|'keep'|'band'); 'none' = stored and no rule in force (never expires)"""
        m = self.model.get(coord)
        if m is None:
            return 'missing'
        ts = m['ts']
        serve = classify(ts, self.rule_T(self.serve_rule, now)) if self.serve_rule is not None else None
        if self.seed_rule is not None and not serve_only:
            seed = classify(ts, self.seed_rule['T'])
            if serve is None or seed == 'must':
                return seed
            if seed == 'keep' and serve == 'keep':
                return 'keep'
            return 'band'
        if serve is None:
            return 'none'
        return serve

    def rule_kind(self):
        if self.seed_rule is not None:
            k = 'seed-' + self.seed_rule['rule']['kind']
            if self.serve_rule is not None:
                k += '+cache-rule'
            return k
        if self.serve_rule is not None:
            return self.serve_rule['kind']
        return 'norule'

    # -- operations -------------------------------------------------------------------------------

    def apply(self, op):
        """Execute one operation; returns a core.Violation or None."""
        if self.dead:
            return None
        self.ops.append(op)
        kind = op['op']
        v = None
        if kind == 'advance':
            self.clock.now += op['dt']
            if self.clock.now - self.start > MAX_ADVANCE + 86400.0:
                raise core.HarnessError('virtual clock left the DST-free window')
        elif kind == 'version':
            self.version += 1
        elif kind == 'failure':
            self.fail = op['mode']
            if op['mode']:
                self.classes.add('failure:' + op['mode'])
        elif kind == 'touch':
            self._touch(op['value'])
            self.epoch += 1
            self.classes.add('op:touch-mtime-file')
        elif kind == 'serve_rule':
            self.serve_rule = op['rule']
            conf = self._rule_conf(op['rule'])
            for m in self.all_managers():
                m._refresh_before = dict(conf)
            self.epoch += 1
            self.classes.add('rule:' + (op['rule']['kind'] if op['rule'] else 'cleared'))
            if op['rule'] and op['rule']['kind'] == 'time':
                self.classes.add('rule:time-as-' + ('datetime' if op['rule'].get('as_datetime') else 'string'))
        elif kind == 'seed_rule':
            from mapproxy.seed.config import before_timestamp_from_options
            if op['rule'] is None:
                self.seed_rule = None
                for m in self.all_managers():
                    m._expire_timestamp = None
            else:
                # what SeedTask configuration does: the threshold is computed once, when the task is created
                try:
                    T_code = before_timestamp_from_options(self._rule_conf(op['rule']))
                except Exception as e:
                    v = core.Violation('C13/threshold-computation-raised/seed-%s' % op['rule']['kind'],
                                       'before_timestamp_from_options(%r) raised %r' % (self._rule_conf(op['rule']), e), None)
                    self.dead = True
                    v.case = core.jsonable({'cfg': self.cfg, 'ops': self.ops})
                    return v
                self.seed_rule = {'rule': op['rule'], 'T': self.rule_T(op['rule'], self.clock.now)}
                for m in self.all_managers():
                    m._expire_timestamp = T_code
                self.classes.add('rule:seed-' + op['rule']['kind'])
                if self.serve_rule is not None:
                    self.classes.add('rule:seed+cache-rule')
            self.epoch += 1
        elif kind == 'request':
            v = self.request(op)
        elif kind == 'race':
            v = self.race(op)
        else:
            raise core.HarnessError('unknown op %r' % (op,))
        if self.harness_exc:
            raise core.HarnessError('synthetic upstream failed: %r' % (self.harness_exc[1],))
        if v is not None:
            self.dead = True
            v.case = core.jsonable({'cfg': self.cfg, 'ops': self.ops})
        return v

    def both_rules_after(self, op):
        if op['op'] == 'serve_rule':
            return op['rule'] is not None and self.seed_rule is not None
        if op['op'] == 'seed_rule':
            return op['rule'] is not None and self.serve_rule is not None
        return False

    # -- prediction -------------------------------------------------------------------------------

    def path_of(self, name, n_uncached):
        if name == 'cs':
            return 'single'
        if name == 'cb':
            return 'bulk'
        if self.cfg['minimize'] and n_uncached > 1:
            return 'minimize'
        return 'meta'

    def predict(self, name, coords, U, fail, now0, lenient=False):
        """What a correct implementation does when exactly the tiles in U (subset of coords) need the upstream.

        Returns dict: calls (Counter of bboxes), flex (Counter or None: under an aborting failure any non-empty
        sub-multiset of it is fine), exc (bool), stored (list of (coord, ts, version)), served (coord -> 'new'|'old'|'err').
        """
        mgr = self.mgrs[name]
        lat = self.cfg['latency']
        t = now0
        calls = collections.Counter()
        stored = []
        served = {}
        exc = False
        flex = None
        need = [c for c in coords if c in U]
        path = self.path_of(name, len(need))
        for c in coords:
            if c not in U and c in self.model:
                served[c] = 'old'
        if path == 'single':
            for c in need:
                calls[mgr.grid.tile_bbox(c)] += 1
                t += lat
                if fail is None:
                    stored.append((c, t, self.version))
                    served[c] = 'new'
                elif fail == 'raise':
                    if c in self.model:
                        served[c] = 'old'
                    elif not lenient:
                        exc = True
                        break
                elif fail == 'errimg-stale' and c in self.model:
                    served[c] = 'old'
                else:
                    served[c] = 'err'
        else:
            if path == 'minimize':
                groups = [mgr.meta_grid.minimal_meta_tile(need)]
            else:
                groups, seen = [], set()
                for c in need:
                    mt = mgr.meta_grid.meta_tile(c)
                    if mt.bbox not in seen:
                        seen.add(mt.bbox)
                        groups.append(mt)
            for mt in groups:
                members = [c for c in mt.tiles if c is not None]
                if path == 'bulk':
                    group_calls = collections.Counter(mgr.grid.tile_bbox(c) for c in members)
                else:
                    group_calls = collections.Counter([tuple(mt.bbox)])
                if fail == 'raise':
                    if lenient:
                        # an implementation that answers without the failed (meta) tile instead of raising
                        calls.update(group_calls)
                        continue
                    exc = True
                    if path == 'bulk':
                        flex = group_calls
                    else:
                        calls.update(group_calls)
                    break
                calls.update(group_calls)
                t += lat * sum(group_calls.values())
                for c in coords:
                    if c in members:
                        served[c] = 'new' if fail is None else 'err'
                if fail is None:
                    for c in members:
                        stored.append((c, t, self.version))
        if exc:
            served = {}
        return {'calls': calls, 'flex': flex, 'exc': exc, 'stored': stored, 'served': served, 'path': path}

    @staticmethod
    def _matches(pred, actual):
        if pred['flex'] is not None:
            extra = actual - pred['calls']
            return (not (pred['calls'] - actual)) and sum(extra.values()) >= 1 and not (extra - pred['flex'])
        return pred['calls'] == actual

    # -- the request step ---------------------------------------------------------------------------

    def sig(self, clause, path):
        return 'C13/%s/%s/%s%s/%s' % (clause, self.rule_kind(), self.race_tag, path, self.family)

    def _bookkeeping(self, name, mgr, coords, states, now0):
        kindname = self.rule_kind()
        for c in coords:
            self.req_epochs[c].add(self.epoch)
            s = states[c]
            self.decisions[s] += 1
            if s in ('must', 'keep', 'band'):
                self.classes.add('decision:%s' % s)
                self.classes.add('decision:%s/%s' % (s, kindname.split('+')[0]))
        self.classes.add('mgr:' + name)
        if len(coords) > 1:
            self.classes.add('request:block')
        # mixed-age meta tile: the requested tiles' meta tiles contain both a must and a keep tile
        if name != 'cs':
            for c in coords:
                members = [m for m in mgr.meta_grid.meta_tile(c).tiles if m is not None]
                ms = set(self.state_of(m, now0) for m in members)
                if 'must' in ms and ('keep' in ms or 'none' in ms):
                    self.classes.add('meta:mixed-age')
                    if states[c] == 'must':
                        self.classes.add('meta:stale-requested-with-fresh-sibling')

    def _run(self, mgr, coords, pre, with_metadata):
        """one requester: -> {'go', 'result', 'exc', 'error'} ('error' = unexpected exception object)"""
        from mapproxy.source import SourceError
        out = {'go': True, 'result': None, 'exc': None, 'error': None}
        try:
            if pre == 'is_cached':
                out['go'] = not mgr.is_cached(coords[0])
            elif pre == 'is_stale':
                out['go'] = bool(mgr.is_stale(coords[0]))
            if out['go']:
                with mgr.session():
                    out['result'] = mgr.load_tile_coords(coords, with_metadata=with_metadata)
            else:
                mgr.cleanup()
        except SourceError as e:
            out['exc'] = e
        except core.HarnessError as e:
            out['harness'] = e
        except Exception as e:
            out['error'] = e
        return out

    def _describe(self, coords, states, now0):
        return 'rule %s, now %.3f, tiles %s' % (
            self.describe_rules(now0), now0,
            ', '.join('%r:%s%s' % (c, states[c], ('@%.3f' % self.model[c]['ts']) if c in self.model else '') for c in coords))

    def _evaluate(self, name, coords, states, pre, out, fail, now0, entries, desc):
        """Judge one finished requester against the model.  -> (Violation | None, written | None, path);
        written = {coord: (ts, version)} still to be confirmed by scan(); None = nothing to scan for (dead / violation)."""
        go, result, exc = out['go'], out['result'], out['exc']
        if out.get('harness') is not None:
            raise out['harness']
        if out['error'] is not None:
            if self.harness_exc:
                raise core.HarnessError('synthetic upstream failed: %r' % (self.harness_exc[1],))
            e = out['error']
            return core.Violation('C13/request-raised/%s%s/%s' % (self.race_tag, type(e).__name__, self.family),
                                  'request for %r on %s raised %r (upstream mode %r); %s' % (coords, name, e, fail, desc), None), None, None
        actual = collections.Counter(e['bbox'] for e in entries)
        if pre:
            self.classes.add('precheck:' + pre)
        kind, match = self.judge(name, coords, states, pre, go, fail, now0, actual, exc, desc)
        if kind == 'violation' and self.seed_rule is not None and self.serve_rule is not None:
            # does the behaviour follow the cache-level rule alone (seed-task threshold ignored)?
            alt = dict((c, self.state_of(c, now0, serve_only=True)) for c in coords)
            if self.judge(name, coords, alt, pre, go, fail, now0, actual, exc, desc)[0] != 'violation':
                match.signature = SIG_SEED_VS_CACHE_RULE
                match.message = ('the seed task\'s refresh threshold is ignored because the cache has a refresh_before option '
                                 '(TileManager.expire_timestamp prefers _refresh_before): ' + match.message)
        if kind == 'violation':
            return match, None, None
        if kind == 'inconclusive':
            self.notes['inconclusive:more-than-6-band-tiles'] += 1
            self.dead = True
            return None, None, None
        if kind == 'skipped':
            return None, {}, 'precheck-' + pre
        path = match['path']
        self.classes.add('path:' + path)
        if fail:
            self.classes.add('failure-exercised:%s/%s' % (fail, path))
        fetched = self.log_coords(entries)

        # served content
        if exc is None and go:
            for c in coords:
                want = match['served'].get(c)
                t = result[c] if c in result else None
                arr = None
                if t is not None and t.source is not None:
                    try:
                        arr = self.np.asarray(t.source.as_image().convert('RGB'))
                    except Exception:
                        arr = None
                if want == 'new':
                    if states[c] in ('keep', 'none'):
                        # fresh sibling of a refreshed meta tile: content not judged (see ASSUMPTIONS)
                        self.notes['fresh-tile-served-from-sibling-refresh'] += 1
                        continue
                    if not self.same_pixels(arr, self.version, c):
                        return core.Violation(self.sig('refreshed-tile-served-with-old-content', path),
                                              'tile %r was fetched again but the response does not show upstream version %d; %s'
                                              % (c, self.version, desc), None), None, None
                elif want == 'old':
                    if not self.same_pixels(arr, self.model[c]['version'], c):
                        clause = 'stale-tile-not-served-after-failed-refresh' if (fail and c in fetched) \
                            else 'cached-tile-served-with-other-content'
                        return core.Violation(self.sig(clause, path) + ('/' + fail if fail else ''),
                                              'tile %r must be served from the cache (version %d) but the response differs; %s'
                                              % (c, self.model[c]['version'], desc), None), None, None
                    if fail and states[c] in ('must', 'band') and c in fetched:
                        self.classes.add('failure:stale-tile-served/%s' % fail)
                elif want == 'err':
                    if states[c] in ('keep', 'none'):
                        self.notes['fresh-tile-served-as-error-image-via-sibling'] += 1
                    if fail == 'errimg-stale' and c in self.model and path != 'single':
                        self.notes['authorize_stale-not-honoured-on-%s-path' % path] += 1
        written = {}
        for c, ts, ver in match['stored']:
            written[c] = (ts, ver)
        return None, written, path

    def request(self, op):
        name = op['mgr']
        mgr = self.mgrs[name]
        coords = [tuple(c) for c in op['coords']]
        pre = op.get('precheck')
        now0 = self.clock.now
        fail = self.fail
        states = dict((c, self.state_of(c, now0)) for c in coords)
        if self.loader_rule_lost:
            return core.Violation('C13/loader/refresh_before-not-handed-to-tile-manager',
                                  'cache configured with refresh_before %r but TileManager._refresh_before is %r'
                                  % (self.cfg.get('initial_rule'), [m._refresh_before for m in self.mgrs.values()]), None)
        self._bookkeeping(name, mgr, coords, states, now0)
        self.log = []
        out = self._run(mgr, coords, pre, bool(op.get('with_metadata')))
        desc = self._describe(coords, states, now0)
        v, written, path = self._evaluate(name, coords, states, pre, out, fail, now0, list(self.log), desc)
        if v is not None or written is None:
            return v
        return self.scan(written, fail, path, desc)

    # -- two concurrent requesters for the same tile(s) -------------------------------------------------

    def second_managers(self):
        """A second set of TileManagers on the same cache and lock directories (stands for a second process)."""
        if self.mgrs2 is None:
            self.mgrs2 = self._load_managers()
            for n, m in self.mgrs2.items():
                m._refresh_before = dict(self.mgrs[n]._refresh_before)
                m._expire_timestamp = self.mgrs[n]._expire_timestamp
        return self.mgrs2

    def all_managers(self):
        return list(self.mgrs.values()) + (list(self.mgrs2.values()) if self.mgrs2 else [])

    def race(self, op):
        """Requester A asks for the tile(s); while A is inside the upstream call (holding the tile lock) requester B
        asks for the same tile(s) and is observed waiting for that lock; only then the upstream answers A.
        Demanded: the outcome of the sequential order A, B - in particular B, which gets the lock after A has stored
        the refreshed tile, serves a tile written after the threshold from the cache without an upstream request."""
        import threading
        import mapproxy.util.lock as mlock
        from mapproxy.util.ext.lockfile import LockError
        name = op['mgr']
        coords = [tuple(c) for c in op['coords']]
        mgr_a = self.mgrs[name]
        mgr_b = self.second_managers()[name] if op.get('second') else mgr_a
        fail = self.fail
        now0 = self.clock.now
        states_a = dict((c, self.state_of(c, now0)) for c in coords)
        if self.loader_rule_lost:
            return None
        self._bookkeeping(name, mgr_a, coords, states_a, now0)
        desc_a = 'requester A of a race: ' + self._describe(coords, states_a, now0)
        self.log = []
        gate = {'armed': True, 'inside': threading.Event(), 'release': threading.Event(), 'thread': None}
        self.gate = gate
        b_waiting = threading.Event()
        outs = {}
        done = {'A': threading.Event(), 'B': threading.Event()}

        def runner(key, mgr):
            try:
                outs[key] = self._run(mgr, coords, None, bool(op.get('with_metadata')))
            except BaseException as e:      # never lose an exception in a thread
                outs[key] = {'go': True, 'result': None, 'exc': None, 'error': None, 'harness': core.HarnessError(repr(e))}
            finally:
                done[key].set()

        ta = threading.Thread(target=runner, args=('A', mgr_a), name='c13-A')
        tb = threading.Thread(target=runner, args=('B', mgr_b), name='c13-B')
        gate['thread'] = ta
        orig_try = mlock.FileLock._try_lock

        def try_lock(lock_self):
            try:
                return orig_try(lock_self)
            except LockError:
                if threading.current_thread() is tb:
                    b_waiting.set()
                raise

        conclusive = True
        mlock.FileLock._try_lock = try_lock
        try:
            ta.start()
            self._wait_any([gate['inside'], done['A']], RACE_WAIT)
            a_inside = gate['inside'].is_set() and not done['A'].is_set()
            tb.start()
            if a_inside:
                # B must reach the lock (or finish without needing it) before the upstream answers A
                self._wait_any([b_waiting, done['B']], RACE_WAIT)
                if not (b_waiting.is_set() or done['B'].is_set()):
                    conclusive = False
        finally:
            gate['armed'] = False
            gate['release'].set()
            for t in (ta, tb):
                if t.ident is not None:
                    t.join(60)
            mlock.FileLock._try_lock = orig_try
            self.gate = None
        if ta.is_alive() or tb.is_alive():
            raise core.HarnessError('C13 race: requester thread did not finish')
        if self.harness_exc:
            raise core.HarnessError('synthetic upstream failed: %r' % (self.harness_exc[1],))
        if not done['A'].is_set() or not (gate['inside'].is_set() or done['A'].is_set()):
            conclusive = False
        if not conclusive:
            self.notes['inconclusive:race-not-established'] += 1
            self.dead = True
            return None
        self.classes.add('race:' + self.path_of(name, 2 if len(coords) > 1 else 1))
        if op.get('second'):
            self.classes.add('race:second-manager')
        if a_inside and b_waiting.is_set():
            self.classes.add('race:B-waited-for-the-tile-lock')
            if any(s == 'must' for s in states_a.values()):
                self.classes.add('race:B-waited-while-A-refreshed-a-stale-tile')
        entries_a = [e for e in self.log if e['thread'] == 'c13-A']
        entries_b = [e for e in self.log if e['thread'] == 'c13-B']
        # A, judged like a sequential request at its start time
        v, written_a, path_a = self._evaluate(name, coords, states_a, None, outs['A'], fail, now0, entries_a, desc_a)
        if v is not None or written_a is None:
            return v
        # B, judged like a sequential request issued after A finished: the model first takes over what A wrote
        saved = dict((c, self.model.get(c)) for c in written_a)
        for c, (ts, ver) in written_a.items():
            self.model[c] = {'bytes': None, 'ts': ts, 'version': ver}
        now_b = max([now0] + [e['t'] for e in entries_a])
        states_b = dict((c, self.state_of(c, now_b)) for c in coords)
        desc_b = ('requester B of a race (waited for the tile lock: %s; A made %d upstream call(s) and wrote %s): %s'
                  % (b_waiting.is_set(), len(entries_a), sorted(written_a), self._describe(coords, states_b, now_b)))
        self.race_tag = 'race-B:'
        try:
            v, written_b, path_b = self._evaluate(name, coords, states_b, None, outs['B'], fail, now_b, entries_b, desc_b)
        finally:
            self.race_tag = ''
        if v is not None and '/fresh-refetched/' in v.signature and b_waiting.is_set() and written_a:
            # root cause key without the rule kind: the re-check under the tile lock did not notice A's refresh
            v.signature = 'C13/race/tile-refreshed-by-lock-holder-fetched-again/%s/%s' % (
                path_a, 'sqlite' if self.family in ('sqlite', 'mbtiles') else self.family)
            v.message = ('B waited for the tile lock while A refreshed the tile, then asked the upstream again although the tile '
                         'was written after the threshold: ' + v.message)
        if v is not None or written_b is None:
            for c, old in saved.items():     # keep the model consistent with what scan() expects
                if old is None:
                    self.model.pop(c, None)
                else:
                    self.model[c] = old
            return v
        if a_inside and b_waiting.is_set() and not entries_b and written_a:
            self.classes.add('race:B-served-from-cache-after-A-refreshed')
        for c, old in saved.items():
            if old is None:
                self.model.pop(c, None)
            else:
                self.model[c] = old
        written = dict(written_a)
        written.update(written_b)
        return self.scan(written, fail, 'race-' + path_b, desc_b)

    @staticmethod
    def _wait_any(events, timeout):
        end = _real_time.time() + timeout
        while _real_time.time() < end:
            if any(e.is_set() for e in events):
                return True
            _real_time.sleep(0.002)
        return any(e.is_set() for e in events)

    def judge(self, name, coords, states, pre, go, fail, now0, actual, exc, desc):
        """-> ('ok', prediction) | ('skipped', None) | ('inconclusive', None) | ('violation', Violation)"""
        # the walker's pre-check is a decision of its own
        if pre:
            s0 = states[coords[0]]
            want = {'missing': pre == 'is_cached', 'must': True, 'keep': False, 'none': False, 'band': None}[s0]
            if want is not None and go != want:
                clause = 'stale-not-refreshed' if want else 'fresh-refetched'
                return 'violation', core.Violation(
                    self.sig(clause, 'precheck-' + pre),
                    '%s(%r) -> the seed walker %s the tile; %s' % (pre, coords[0], 'processes' if go else 'skips', desc), None)
            if not go:
                if actual:
                    return 'violation', core.Violation(self.sig('fresh-refetched', 'precheck-' + pre),
                                                       'pre-check alone called the upstream; ' + desc, None)
                return 'skipped', None
        base = set(c for c in coords if states[c] in ('missing', 'must'))
        band = [c for c in coords if states[c] == 'band']
        if len(band) > 6:
            return 'inconclusive', None
        preds = []
        for k in range(len(band) + 1):
            for sub in itertools.combinations(band, k):
                preds.append(self.predict(name, coords, base | set(sub), fail, now0))
                if fail == 'raise':
                    preds.append(self.predict(name, coords, base | set(sub), fail, now0, lenient=True))
        calls_ok = [p for p in preds if self._matches(p, actual)]
        for p in calls_ok:
            if bool(p['exc']) == (exc is not None):
                return 'ok', p
        path = preds[0]['path'] if len(set(p['path'] for p in preds)) == 1 else 'meta'
        if calls_ok:
            p = calls_ok[0]
            if exc is None:
                # the upstream failed for a tile that is not in the cache and the request still returned something:
                # nothing in the property forbids that
                self.notes['failed-request-for-missing-tile-returned-normally'] += 1
                q = dict(p)
                q['exc'] = False
                return 'ok', q
            # every tile the upstream was asked for is still in the cache (or the upstream is healthy), yet the request failed:
            # single-tile path serves the stale tile on SourceError (anchored mechanism "stale fallback on upstream error")
            return 'violation', core.Violation(self.sig('request-failed-although-stale-tile-available', p['path']) + '/' + str(fail),
                                               'request raised %r; %s' % (exc, desc), None)
        required = None
        allowed = collections.Counter()
        for p in preds:
            cs_ = p['calls']
            required = cs_ if required is None else (required & cs_)
            allowed = allowed | cs_ | (p['flex'] or collections.Counter())
        missing = required - actual
        extra = actual - allowed
        how = 'upstream calls %s, expected %s%s' % (
            self._fmt_calls(actual, name), self._fmt_calls(required, name),
            (' (optionally up to %s)' % self._fmt_calls(allowed, name)) if allowed != required else '')
        if missing and not any(p['flex'] for p in preds):
            clause = 'stale-not-refreshed' if any(states[c] == 'must' for c in coords) else 'missing-tile-not-fetched'
        elif extra:
            clause = 'duplicate-upstream-request' if set(extra) <= set(allowed) else 'fresh-refetched'
        else:
            clause = 'inconsistent-upstream-requests'
        return 'violation', core.Violation(self.sig(clause, path), how + '; ' + desc, None)

    def log_coords(self, entries):
        """coords whose own (single-tile) bbox was requested"""
        g = self.grid
        boxes = set(e['bbox'] for e in entries)
        return set(c for c in UNIVERSE if g.tile_bbox(c) in boxes)

    def _fmt_calls(self, counter, name='cs'):
        g = self.grid
        names = {}
        mg = self.mgrs['cm'].meta_grid
        metas = {}
        for c in UNIVERSE:
            mt = mg.meta_tile(c)
            metas.setdefault(tuple(mt.bbox), 'meta-tile-of%r' % (mt.main_tile_coord,))
        tiles = dict((g.tile_bbox(c), 'tile%r' % (c,)) for c in UNIVERSE)
        first, second = (metas, tiles) if name == 'cm' else (tiles, metas)
        names.update(second)
        names.update(first)
        return '[' + ', '.join('%s%s' % (names.get(b, 'bbox%r' % (b,)), '' if n == 1 else 'x%d' % n)
                               for b, n in sorted(counter.items())) + ']'

    def describe_rules(self, now):
        parts = []
        if self.seed_rule is not None:
            parts.append('seed-task %r (T=%.3f)' % (self.seed_rule['rule'], self.seed_rule['T']))
        if self.serve_rule is not None:
            parts.append('refresh_before %r (T=%.3f)' % (self.serve_rule, self.rule_T(self.serve_rule, now)))
        return ' and '.join(parts) or 'none'

    def scan(self, written, fail, path, desc):
        """Every tile slot: rewritten ones hold the new content, all others are byte-identical to the model."""
        stored = self.read_all()
        for c in UNIVERSE:
            raw = stored.get(c)
            if c in written:
                ts, ver = written[c]
                if raw is None or not self.same_pixels(self.decode(raw), ver, c):
                    return core.Violation(self.sig('refreshed-tile-not-stored', path),
                                          'tile %r was fetched (version %d) but the cache holds %s; %s'
                                          % (c, ver, 'nothing' if raw is None else 'other content', desc), None)
                self.model[c] = {'bytes': raw, 'ts': ts, 'version': ver}
            else:
                old = self.model.get(c)
                if (old['bytes'] if old else None) != raw:
                    if fail and old is not None:
                        return core.Violation('C13/failed-refresh-destroyed-old-tile/%s/%s/%s' % (fail, path, self.family),
                                              'upstream failure (%s): stored tile %r %s; %s'
                                              % (fail, c, 'vanished' if raw is None else 'was overwritten', desc), None)
                    return core.Violation(self.sig('store-changed-without-refresh', path),
                                          'tile slot %r changed (%s) although no successful upstream request covers it; %s'
                                          % (c, 'vanished' if raw is None else ('appeared' if old is None else 'overwritten'), desc), None)
        return None

    # -- summary for the statistics -----------------------------------------------------------------

    def nontrivial(self):
        crossed = any(len(e) > 1 for e in self.req_epochs.values())
        return bool(crossed and self.decisions['must'] and self.decisions['keep'])


# ------------------------------------------------------------------------------------------------
# generators

DTS = [0.125, 0.25, 0.5, 0.875, 1.0, 1.125, 1.5, 2.0, 3.0, 59.875, 60.0, 3600.0, 86400.0, 604800.5]
OFFSETS = [0.0, 0.0, 0.125, -0.125, 0.5, -0.5, 0.875, -0.875, 1.0, -1.0, 1.5, -1.5, 2.0, -60.0, -3600.0, 90000.0]
LAYOUTS = ['tc', 'tms', 'mp', 'arcgis', 'quadkey', 'reverse_tms']


def _delta_for(total, style):
    """refresh_before dict for a relative age of `total` seconds (multiple of 1/8)"""
    total = max(0.0, total)
    if style == 'seconds':
        return {'seconds': total}
    if style == 'mixed':
        m = math.floor(total / 60.0)
        return {'minutes': int(m), 'seconds': total - 60.0 * m}
    if style == 'minutes':          # fractional minutes (multiples of 1/8 min = 7.5 s); remainder in seconds
        m = math.floor(total / 7.5) / 8.0
        return {'minutes': m, 'seconds': total - 60.0 * m}
    # all units
    rest = total
    out = {}
    for unit, secs in (('weeks', 604800.0), ('days', 86400.0), ('hours', 3600.0), ('minutes', 60.0)):
        n = math.floor(rest / secs)
        if n:
            out[unit] = int(n)
            rest -= n * secs
    out['seconds'] = rest
    return out


def make_rule(kind, value, now, style, as_datetime):
    if kind == 'time':
        return {'kind': 'time', 'value': int(math.floor(value)), 'as_datetime': bool(as_datetime)}
    if kind == 'mtime':
        return {'kind': 'mtime'}
    return {'kind': 'delta', 'delta': _delta_for(now - value, style)}


@st.composite
def configs(draw):
    cfg = {
        'backend': draw(st.sampled_from(['file', 'file', 'sqlite', 'sqlite', 'mbtiles', 'file-symlink'])),
        'layout': draw(st.sampled_from(LAYOUTS)),
        'meta_buffer': draw(st.sampled_from([0, 0, 3])),
        'minimize': draw(st.booleans()),
        'latency': draw(st.sampled_from([0.0, 0.0, 0.25, 1.0])),
        'start_frac': draw(st.integers(0, 7)),
        'initial_rule': None,
        'zone': draw(st.sampled_from(ZONES)),
        'season': draw(st.sampled_from(['jan', 'jun'])),
    }
    START = SEASONS[cfg['season']]
    k = draw(st.sampled_from(['none', 'none', 'time', 'delta', 'mtime']))
    if k == 'time' and cfg['zone'] != 'UTC':
        k = 'delta'
    if k == 'time':
        cfg['initial_rule'] = make_rule('time', START + draw(st.sampled_from([-5.0, 0.0, 1.0, 2.0, 100.0])), START, None,
                                        draw(st.booleans()))
    elif k == 'delta':
        cfg['initial_rule'] = {'kind': 'delta', 'delta': _delta_for(draw(st.sampled_from([0.0, 0.5, 1.0, 1.5, 2.0, 60.0, 3600.0])),
                                                                    draw(st.sampled_from(['seconds', 'mixed', 'all'])))}
    elif k == 'mtime':
        cfg['initial_rule'] = {'kind': 'mtime'}
    return cfg


class ExpiryMachine(RuleBasedStateMachine):
    _ignored_signatures = set()
    _stats = None
    _open = frozenset()
    _budget = None      # set by run_machine_bounded: {'left': executions after the first failure, 'best': Violation, 'failed': bool}

    def __init__(self):
        RuleBasedStateMachine.__init__(self)
        self.eng = None
        self.last = None

    @initialize(cfg=configs())
    def setup(self, cfg):
        b = self._budget
        if b is not None and b['failed'] and b['left'] <= 0:
            return      # shrink budget used up: remaining shrink attempts are no-ops (see run_machine_bounded)
        self.eng = Engine(cfg)

    def _do(self, op):
        eng = self.eng
        if eng is None or eng.dead:
            return
        if SIG_SEED_VS_CACHE_RULE in self._open and eng.both_rules_after(op):
            # open finding: never have both rules in force - drop the other rule first, so that the search goes on
            # behind the finding (seed-task thresholds alone and cache-level rules alone are still explored)
            self._stats.excluded['seed-task threshold together with cache-level refresh_before (open finding)'] += 1
            other = 'seed_rule' if op['op'] == 'serve_rule' else 'serve_rule'
            self._apply({'op': other, 'rule': None})
        self._apply(op)

    def _apply(self, op):
        eng = self.eng
        if eng.dead:
            return
        v = eng.apply(op)
        if v is not None and v.signature not in self._ignored_signatures:
            b = self._budget
            if b is not None:
                b['failed'] = True
                if b['best'] is None or len(v.case['ops']) < len(b['best'].case['ops']):
                    b['best'] = v
            raise core.MachineViolation(v)

    def _anchor(self, i, off):
        eng = self.eng
        anchors = sorted(set(m['ts'] for m in eng.model.values())) + [eng.clock.now]
        return anchors[i % len(anchors)] + off

    @rule(dt=st.sampled_from(DTS))
    def advance(self, dt):
        eng = self.eng
        if eng is None or eng.clock.now + dt - eng.start > MAX_ADVANCE:
            return
        self._do({'op': 'advance', 'dt': dt})

    @rule()
    def bump_version(self):
        self._do({'op': 'version'})

    @rule(mode=st.sampled_from([None, None, None, 'raise', 'errimg', 'errimg-stale']))
    def failure(self, mode):
        if self.eng is None or self.eng.fail == mode:
            return
        self._do({'op': 'failure', 'mode': mode})

    @precondition(lambda self: self.eng is not None and (
        (self.eng.serve_rule or {}).get('kind') == 'mtime' or ((self.eng.seed_rule or {}).get('rule') or {}).get('kind') == 'mtime'))
    @rule(i=st.integers(0, 30), off=st.sampled_from(OFFSETS))
    def touch(self, i, off):
        self._do({'op': 'touch', 'value': self._anchor(i, off)})

    @rule(kind=st.sampled_from(['time', 'time', 'delta', 'delta', 'delta', 'mtime', 'mtime', 'clear']), i=st.integers(0, 30),
          off=st.sampled_from(OFFSETS), style=st.sampled_from(['seconds', 'seconds', 'mixed', 'minutes', 'all']),
          as_datetime=st.booleans(), slot=st.sampled_from(['serve', 'serve', 'seed']))
    def set_rule(self, kind, i, off, style, as_datetime, slot):
        if self.eng is None or self.eng.dead:
            return
        if kind == 'time' and self.eng.zone != 'UTC':
            kind = 'delta'      # see _rule_conf: absolute ISO times only in UTC histories
        if kind == 'clear':
            r = None
        else:
            value = self._anchor(i, off)
            if kind == 'mtime':
                self._do({'op': 'touch', 'value': value})
            r = make_rule(kind, value, self.eng.clock.now, style, as_datetime)
        self._do({'op': slot + '_rule', 'rule': r})

    def _request(self, mgr, x, y, z, w, h, meta, pre):
        n = 2 ** z
        x, y = x % n, y % n
        if pre:
            c = (x, y, z)
            if mgr != 'cs':
                # the seed walker hands over the main tile of a meta tile
                c = self.eng.mgrs[mgr].meta_grid.meta_tile(c).main_tile_coord
            coords = [list(c)]
        else:
            coords = [[xx, yy, z] for yy in range(y, min(n, y + h)) for xx in range(x, min(n, x + w))]
        self._do({'op': 'request', 'mgr': mgr, 'coords': coords, 'with_metadata': meta, 'precheck': pre})
        self.last = (x, y, z, w, h)

    @rule(mgr=st.sampled_from(['cs', 'cs', 'cm', 'cm', 'cb']), z=st.sampled_from([0, 1, 1, 1, 2, 2]), x=st.integers(0, 3),
          y=st.integers(0, 3), w=st.sampled_from([1, 1, 1, 2, 3]), h=st.sampled_from([1, 1, 2]), meta=st.booleans())
    def request_anywhere(self, mgr, z, x, y, w, h, meta):
        if self.eng is None:
            return
        self._request(mgr, x, y, z, w, h, meta, None)

    @precondition(lambda self: self.eng is not None and self.eng.model)
    @rule(mgr=st.sampled_from(['cs', 'cs', 'cm', 'cm', 'cb']), i=st.integers(0, 40), w=st.sampled_from([1, 1, 1, 2, 3]),
          h=st.sampled_from([1, 1, 2]), dx=st.sampled_from([0, 0, 1]), meta=st.booleans())
    def request_stored(self, mgr, i, w, h, dx, meta):
        keys = sorted(self.eng.model)
        x, y, z = keys[i % len(keys)]
        self._request(mgr, max(0, x - dx * (w - 1)), y, z, w, h, meta, None)

    @precondition(lambda self: self.eng is not None and self.last is not None)
    @rule(mgr=st.sampled_from(['cs', 'cs', 'cm', 'cm', 'cb']), meta=st.booleans())
    def request_again(self, mgr, meta):
        x, y, z, w, h = self.last
        self._request(mgr, x, y, z, w, h, meta, None)

    @rule(mgr=st.sampled_from(['cs', 'cm', 'cm', 'cb']), i=st.integers(0, 40), z=st.sampled_from([0, 1, 1, 2]), x=st.integers(0, 3),
          y=st.integers(0, 3), stored=st.booleans(), pre=st.sampled_from(['is_cached', 'is_cached', 'is_stale']))
    def request_like_seed(self, mgr, i, z, x, y, stored, pre):
        if self.eng is None:
            return
        if stored and self.eng.model:
            keys = sorted(self.eng.model)
            x, y, z = keys[i % len(keys)]
        self._request(mgr, x, y, z, 1, 1, False, pre)

    @precondition(lambda self: self.eng is not None and not self.eng.dead and self.eng.fail is None)
    @rule(mgr=st.sampled_from(['cs', 'cs', 'cm', 'cm', 'cb']), i=st.integers(0, 40),
          pick=st.sampled_from(['stale', 'stale', 'stale', 'stored', 'any']), x=st.integers(0, 3), y=st.integers(0, 3),
          z=st.sampled_from([0, 1, 1, 2]), pair=st.booleans(), second=st.booleans(), meta=st.booleans())
    def race(self, mgr, i, pick, x, y, z, pair, second, meta):
        """two concurrent requesters for the same tile(s), preferably a stale one"""
        eng = self.eng
        keys = sorted(eng.model)
        stale = [c for c in keys if eng.state_of(c, eng.clock.now) == 'must']
        if pick == 'stale' and stale:
            c = stale[i % len(stale)]
        elif pick != 'any' and keys:
            c = keys[i % len(keys)]
        else:
            c = (x % 2 ** z, y % 2 ** z, z)
        coords = [list(c)]
        if mgr == 'cs' and eng.family in ('sqlite', 'mbtiles') and SIG_RACE_SQLITE_SINGLE in self._open:
            self._stats.excluded['race on the single-tile path of a sqlite/mbtiles cache (open finding)'] += 1
            mgr = 'cm'
        if pair and mgr != 'cs' and c[2] >= 1:
            coords.append([c[0] ^ 1, c[1], c[2]])      # same 2x2 meta tile
        self._do({'op': 'race', 'mgr': mgr, 'second': second, 'coords': coords, 'with_metadata': meta})

    def teardown(self):
        eng = self.eng
        if eng is None:
            return
        b = self._budget
        if b is not None and b['failed']:
            b['left'] -= 1
        try:
            st_ = self._stats
            if st_ is not None and eng.ops:
                record(st_, eng)
        finally:
            eng.close()
            self.eng = None


def record(st_, eng):
    classes = set(eng.classes)
    classes.add('backend:' + eng.cfg['backend'])
    classes.add('zone:' + eng.zone)
    classes.add('season:' + eng.cfg.get('season', 'jan'))
    classes.add('zone+backend:%s/%s' % ('UTC' if eng.zone == 'UTC' else ('east' if eng.utc_offset > 0 else 'west'), eng.family))
    if eng.cfg['backend'] in ('file', 'file-symlink'):
        classes.add('layout:' + eng.cfg['layout'])
    if eng.cfg['latency']:
        classes.add('upstream-latency')
    if eng.cfg.get('initial_rule'):
        classes.add('rule-from-configuration:' + eng.cfg['initial_rule']['kind'])
    nt = eng.nontrivial()
    if nt:
        classes.add('nontrivial')
    key = {'cfg': eng.cfg, 'ops': eng.ops}
    st_.case(key=key, nontrivial=nt, classes=sorted(classes), sample=key if len(eng.ops) <= 24 else None)
    for k, n in eng.decisions.items():
        st_.notes['decisions:' + k] += n
    st_.notes.update(eng.notes)
    st_.notes['steps'] += len(eng.ops)


# ------------------------------------------------------------------------------------------------
# entry points


def run_machine_bounded(machine_cls, stats, max_examples, seed, step_count, max_signatures=2, shrink_budget=150):
    """core.run_machine with a bounded shrink phase (helper kept here because core.py is shared).

    Hypothesis has no shrink budget and one history costs 50-250 ms, so after the first failing history at most
    `shrink_budget` further histories are executed for real; afterwards every shrink attempt is a no-op that
    "passes", the shrinker runs dry quickly, and the smallest failing history seen so far is reported.  Hypothesis
    then notices that its final replay no longer fails (Flaky) - that is expected and swallowed here; the reported
    case is always one that was really executed and really failed, and `replay()` re-executes it without Hypothesis.
    """
    import hypothesis
    from hypothesis import settings, HealthCheck, Phase
    from hypothesis.stateful import run_state_machine_as_test

    ignored = set()
    machine_cls._ignored_signatures = ignored
    machine_cls._stats = stats
    try:
        for _ in range(max_signatures):
            budget = {'left': shrink_budget, 'best': None, 'failed': False}
            machine_cls._budget = budget
            try:
                run_state_machine_as_test(
                    hypothesis.seed(seed)(machine_cls),
                    settings=settings(max_examples=max_examples, stateful_step_count=step_count,
                                      database=None, deadline=None, derandomize=False,
                                      report_multiple_bugs=False,
                                      suppress_health_check=list(HealthCheck),
                                      phases=[Phase.generate, Phase.shrink], print_blob=False,
                                      verbosity=hypothesis.Verbosity.quiet))
            except core.MachineViolation as e:
                v = budget['best'] or e.violation
            except hypothesis.errors.Flaky:
                if budget['best'] is None:
                    raise
                v = budget['best']
                stats.notes['shrink-budget-exhausted'] += 1
            else:
                break
            stats.violations.append(v)
            ignored.add(v.signature)
    finally:
        machine_cls._budget = None
    return stats


def machine_shard(shard, nshards, seed, tier):
    st_ = core.Stats()
    n = (4000 if tier == 'quick' else 160000) // nshards
    steps = 40 if tier == 'quick' else 60
    # VERIF_C13_NO_EXCLUDE=1: generate the construct of the open finding too (used to validate the proposed fix)
    ExpiryMachine._open = frozenset() if os.environ.get('VERIF_C13_NO_EXCLUDE') else frozenset(core.open_signatures(PROPERTY))
    run_machine_bounded(ExpiryMachine, st_, max_examples=n, seed=seed, step_count=steps,
                        max_signatures=2, shrink_budget=150 if tier == 'quick' else 600)
    return st_


def run(tier, seed, stats):
    stats.merge(core.parallel(machine_shard, 16, seed, tier))


def replay(case, stats):
    cfg = dict(case['cfg'])
    eng = Engine(cfg)
    try:
        v = None
        for op in case['ops']:
            op = dict(op)
            if op.get('op') in ('request', 'race'):
                op['coords'] = [list(c) for c in op['coords']]
            v = eng.apply(op)
            if v is not None:
                break
        record(stats, eng)
        return [v] if v is not None else []
    finally:
        eng.close()
