"""C17 - Upstream servers are only asked for what they are configured to support.

Generated MapProxy configurations (WMS sources with supported_srs / preferred_src_proj, supported_formats,
bbox and polygon coverages in their own SRS, min_res/max_res or min_scale/max_scale, forward_req_params;
tile sources whose grid differs from the cache grid; direct, cached and cascaded layers) are driven with
generated WMS 1.1.1 / 1.3.0 GetMap, TMS and WMTS requests placed around and across the coverage edges and
resolution limits.  Every URL that reaches the (synthetic) HTTP client and every `get_map` invocation of a
source (harness wrapper) is judged against the *configuration*, never against MapProxy code.
See DESIGN.md section 18.
"""
import logging
import math
import os
import shutil
import tempfile
import threading

import numpy as np
from hypothesis import strategies as st

from .. import core
from ..ground import Upstream, make_app, transform, _crs_code, TILE_TEMPLATES
from ..refgrid import RefGrid

PROPERTY = 'C17'
LEVEL = 'exploration'
RULE = ('Hypothesis-generated configurations (2-4 WMS sources: supported_srs from 8 SRS incl. the 900913/3857 alias '
        'pair + globals.srs.preferred_src_proj, supported_formats, bbox / polygon coverage in 4326 / 3857 / 25832, '
        'min_res/max_res or min_scale/max_scale, forward_req_params, WMS 1.1.1 / 1.3.0 upstream, shared hosts so that '
        'layers get combined; 0-1 tile source (tms/xyz/quadkey/tc/arcgis URL templates) on a dyadic mercator or geodetic '
        'grid that differs from the cache grid in origin, bbox, level range or SRS alias; direct, cached (meta tiles, '
        'meta buffer, bulk meta tiles) and cascaded layers) x 10-14 client requests each (WMS 1.1.1 / 1.3.0 GetMap in 8 SRS '
        'with the bbox placed inside / across / touching within +-3 px / far outside the coverage of an anchor source and '
        'the resolution at 0.25..4 x its limits, non-square pixels, TIME / ELEVATION / DIM_* / custom parameters; TMS and '
        'WMTS (KVP / REST) tile requests around the coverage and around the edges of the source grid). Judged: every upstream URL (SRS, FORMAT, BBOX inside the coverage extent, '
        'dimension keys and forwarded values, tile address in the source grid, documented best-SRS rule) and every source.get_map invocation '
        '(coverage / resolution gate => no HTTP call). A request is non-trivial when some source was asked a query that '
        'would have violated its configuration had it been forwarded unchanged (SRS or format not listed, bbox crossing or '
        'outside the coverage extent, resolution outside or within a factor 2 of a limit, dimensions the source does not '
        'forward, tile source grid != cache grid); distinct = distinct (configuration, request) pairs.')
ASSUMPTIONS = [
    'SRS membership is by code (case-insensitive); the docs do not declare EPSG:900913 / EPSG:3857 interchangeable for supported_srs',
    'coverage extent = bounding rectangle of the coverage in its own SRS; in another SRS the bounding box of its (1024 points/edge) image; '
    'slack 1e-9 relative in the same SRS, 1e-6 relative (sampling density / PROJ pipeline noise) when reprojected',
    '"does not intersect" is judged only when the bounding box of the query in the coverage SRS, grown by 1 px, is disjoint from the coverage geometry',
    '"resolution excluded" is judged only when both the x and the y pixel size lie beyond the limit by > 1e-6 relative + 1e-6; for geographic '
    'queries every plausible metre value of the pixel size (111319.49 m/deg at the equator down to cos(lat) of it) must be excluded; '
    'scales are converted with the documented OGC 0.28 mm pixel',
    'the best-SRS rule is judged only where the docs define it: preferred_src_proj entry, else first listed SRS of the same kind (projected / geographic)',
    'a combined upstream request (LAYERS=a,b) contacts every configured source whose layers it names',
    'upstream answers are constant-colour images of the requested size (content is the business of C01/C04)',
    'a forwarded parameter must arrive with the value the client sent (doc: "request parameters that will be forwarded")',
    'thread schedules are whatever the OS picks (one committed regression case forces a two-thread rendezvous in WMSClient.retrieve)',
]

class _ErrorCounter(logging.Handler):
    """Counts the exceptions MapProxy logs while serving generated requests (internal errors -> HTTP 500).  They
    are reported as by-catch in the evidence notes; they never enter a C17 verdict."""

    def __init__(self):
        logging.Handler.__init__(self)
        self.seen = []

    def emit(self, record):
        if record.exc_info and record.exc_info[1] is not None:
            self.seen.append(type(record.exc_info[1]).__name__)

    def drain(self):
        out, self.seen = self.seen, []
        return out


_mplog = logging.getLogger('mapproxy')
_errors = _ErrorCounter()
_mplog.addHandler(_errors)
_mplog.propagate = False   # request-level error logging of the code under test is not part of the verdict

K_DEG = 6378137.0 * 2 * math.pi / 360.0
OGC_PX = 0.00028
SRS_ALL = ['EPSG:4326', 'EPSG:3857', 'EPSG:900913', 'EPSG:25832', 'EPSG:25833', 'EPSG:31467', 'EPSG:3035', 'EPSG:4258']
GEOGRAPHIC = {'EPSG:4326': True, 'EPSG:4258': True, 'CRS:84': True}
FORMATS = ['image/png', 'image/jpeg', 'image/gif', 'image/tiff']
DIM_KEYS = ['TIME', 'ELEVATION', 'DIM_FOO', 'DIM_BAR', 'CUSTOM']
DIM_VALUES = {'TIME': '2020-05-17', 'ELEVATION': '250', 'DIM_FOO': 'bar', 'DIM_BAR': '7', 'CUSTOM': 'x1'}
REGION_LL = (5.0, 46.0, 14.0, 55.0)

SIG_COMBINED_RES = 'C17/gate/res-range/combined-layers'
SIG_PREFERRED_ALIAS = 'C17/wms/srs-alias-of-listed/reprojected'
SIG_FWD_VALUE = 'C17/wms/forwarded-value-altered'
SIG_QUERY_RACE = 'C17/wms/srs-alias-of-listed/same-srs/shared-query-race'

MERC = 20037508.342789244
FAMILIES = {
    # name: (world bbox, tiles at depth 0 (nx, ny), srs choices, units->metres)
    'merc': ((-MERC, -MERC, MERC, MERC), (1, 1), ['EPSG:3857', 'EPSG:900913'], 1.0),
    'geod': ((-180.0, -90.0, 180.0, 90.0), (2, 1), ['EPSG:4326'], K_DEG),
}


def is_geographic(code):
    return bool(GEOGRAPHIC.get(code.upper(), False))


def canon(code):
    return _crs_code(code)


# ------------------------------------------------------------------------------------------------
# geometry helpers (pyproj via ground.transform; independent of mapproxy.srs)

def _boundary(b, n):
    t = np.linspace(0.0, 1.0, n + 1)
    w, h = b[2] - b[0], b[3] - b[1]
    xs = np.concatenate([b[0] + t * w, np.full(n + 1, b[2]), b[2] - t * w, np.full(n + 1, b[0])])
    ys = np.concatenate([np.full(n + 1, b[1]), b[1] + t * h, np.full(n + 1, b[3]), b[3] - t * h])
    return xs, ys


def bbox_to(b, src, dst, n=64):
    """Bounding box in dst of the rectangle b given in src (n+1 points per edge incl. corners and midpoints)."""
    if canon(src) == canon(dst):
        return tuple(float(v) for v in b)
    xs, ys = _boundary(b, n)
    X, Y = transform(xs, ys, src, dst)
    ok = np.isfinite(X) & np.isfinite(Y)
    if not ok.any():
        return None
    return (float(X[ok].min()), float(Y[ok].min()), float(X[ok].max()), float(Y[ok].max()))


_extent_cache = {}


def coverage_extent(cov, srs):
    key = (cov['srs'], tuple(cov['bbox']), canon(srs))
    if key not in _extent_cache:
        if len(_extent_cache) > 5000:
            _extent_cache.clear()
        _extent_cache[key] = bbox_to(cov['bbox'], cov['srs'], srs, n=1024)
    return _extent_cache[key]


POLY_SHAPES = {
    'triangle': [(0.0, 0.0), (1.0, 0.3), (0.4, 1.0)],
    'diamond': [(0.5, 0.0), (1.0, 0.5), (0.5, 1.0), (0.0, 0.5)],
    'ell': [(0.0, 0.0), (1.0, 0.0), (1.0, 0.4), (0.4, 0.4), (0.4, 1.0), (0.0, 1.0)],
    'penta': [(0.2, 0.0), (0.9, 0.0), (1.0, 0.6), (0.5, 1.0), (0.0, 0.5)],
}


def coverage_points(cov):
    b = cov['bbox']
    return [(b[0] + fx * (b[2] - b[0]), b[1] + fy * (b[3] - b[1])) for fx, fy in POLY_SHAPES[cov['shape']]]


def coverage_geom(cov):
    from shapely.geometry import Polygon, box
    if cov['kind'] == 'poly':
        return Polygon(coverage_points(cov))
    return box(*cov['bbox'])


def res_limits(res):
    """(coarse limit = min_res, fine limit = max_res) in metres per pixel from the configured values."""
    coarse = fine = None
    if res.get('min_res') is not None:
        coarse = float(res['min_res'])
    if res.get('max_res') is not None:
        fine = float(res['max_res'])
    if res.get('max_scale') is not None:
        coarse = float(res['max_scale']) * OGC_PX
    if res.get('min_scale') is not None:
        fine = float(res['min_scale']) * OGC_PX
    return coarse, fine


def pixel_metres(bbox, size, srs):
    """Interval [lo, hi] containing every plausible value of the pixel size in metres of a query."""
    rx = (bbox[2] - bbox[0]) / float(size[0])
    ry = (bbox[3] - bbox[1]) / float(size[1])
    if not is_geographic(srs):
        return min(rx, ry), max(rx, ry), (rx, ry)
    latmax = min(89.9, max(abs(bbox[1]), abs(bbox[3])))
    c = math.cos(math.radians(latmax))
    lo = min(rx * K_DEG * c, ry * 110574.0)
    hi = max(rx * K_DEG, ry * 111700.0)
    return lo, hi, (rx * K_DEG, ry * K_DEG)


def res_excluded(q, res):
    coarse, fine = res_limits(res)
    lo, hi, _ = pixel_metres(q['bbox'], q['size'], q['srs'])
    if coarse is not None and lo > coarse * (1 + 1e-6) + 1e-6:
        return 'coarser than min_res %r' % coarse
    if fine is not None and hi < fine * (1 - 1e-6) - 1e-6:
        return 'finer than max_res %r' % fine
    return None


def res_near_limit(q, res):
    coarse, fine = res_limits(res)
    _, _, (rx, ry) = pixel_metres(q['bbox'], q['size'], q['srs'])
    for lim in (coarse, fine):
        if lim is not None and any(0.5 <= r / lim <= 2.0 for r in (rx, ry)):
            return True
    return False


def coverage_relation(q, cov):
    """'inside' | 'crossing' | 'near' (not contained, not provably disjoint) | 'disjoint' (> 1 px away)."""
    b = bbox_to(q['bbox'], q['srs'], cov['srs'], n=64)
    if b is None:
        return 'near'
    from shapely.geometry import box
    px = max((b[2] - b[0]) / float(q['size'][0]), (b[3] - b[1]) / float(q['size'][1]))
    tol = px + 1e-6 * max(b[2] - b[0], b[3] - b[1], 1e-9)
    geom = coverage_geom(cov)
    grown = box(b[0] - tol, b[1] - tol, b[2] + tol, b[3] + tol)
    if not geom.intersects(grown):
        return 'disjoint'
    e = cov['bbox']
    if e[0] <= b[0] and e[1] <= b[1] and e[2] >= b[2] and e[3] >= b[3]:
        return 'inside'
    if geom.intersects(box(*b)):
        return 'crossing'
    return 'near'


def doc_best_srs(query_srs, supported, preferred):
    """Set of SRS (canonical codes) the documentation allows for a query SRS that is not supported, or None
    where the docs do not define the choice.  The docs match preferred_src_proj entries "by EPSG code" and are
    silent about the 900913/3857 alias, so both readings (literal code / alias-equal) are accepted."""
    cs = [canon(c) for c in supported]
    cq = canon(query_srs)
    if cq in cs:
        return None
    ok = set()
    for alias_keys in (False, True):
        for alias_items in (False, True):
            choice = None
            for key, lst in sorted((preferred or {}).items()):
                hit = canon(key) == cq if alias_keys else key.upper() == query_srs.upper()
                if not hit:
                    continue
                for p in lst:
                    for c in supported:
                        if (canon(p) == canon(c)) if alias_items else (p.upper() == c.upper()):
                            choice = canon(c)
                            break
                    if choice:
                        break
                if choice:
                    break
            if choice is None:
                for c in supported:
                    if is_geographic(c) == is_geographic(query_srs):
                        choice = canon(c)
                        break
            if choice is None:
                return None
            ok.add(choice)
    return ok


# ------------------------------------------------------------------------------------------------
# grids

def family_rect(fam, depth, tx, ty):
    world, (nx, ny), _, _ = FAMILIES[fam]
    side = (world[2] - world[0]) / float(nx * 2 ** depth)
    return (world[0] + tx * side, world[1] + ty * side, world[0] + (tx + 1) * side, world[1] + (ty + 1) * side)


def family_res(fam, z, tile=256):
    world, (nx, ny), _, _ = FAMILIES[fam]
    return (world[2] - world[0]) / float(nx * tile * 2 ** z)


def europe_tile(fam, depth):
    world, (nx, ny), srs, _ = FAMILIES[fam]
    x, y = transform([9.5], [50.5], 'EPSG:4326', srs[0])
    side = (world[2] - world[0]) / float(nx * 2 ** depth)
    return int((float(x[0]) - world[0]) // side), int((float(y[0]) - world[1]) // side)


def grid_conf(g):
    """mapproxy grid configuration of a grid spec."""
    if 'base' in g:
        return {'base': g['base']}
    if 'family' in g:
        bbox = family_rect(g['family'], g['depth'], g['tx'], g['ty'])
        res = [family_res(g['family'], z) for z in range(g['z0'], g['z0'] + g['nlev'])]
        return {'srs': g['srs'], 'bbox': [float(v) for v in bbox], 'res': res, 'origin': g['origin'],
                'tile_size': [256, 256]}
    d = {'srs': g['srs'], 'bbox': list(g['bbox']), 'origin': g['origin'], 'tile_size': list(g['tile_size'])}
    if g.get('res'):
        d['res'] = list(g['res'])
    else:
        d['min_res'] = g['min_res']
        d['num_levels'] = g['num_levels']
        if g.get('res_factor'):
            d['res_factor'] = g['res_factor']
    return d


def mp_grid(g):
    """The MapProxy TileGrid of a grid spec (used to *generate* tile addresses and for grid_sizes of the
    upstream tile server; the in-grid verdict itself is RefGrid arithmetic)."""
    from mapproxy.grid import tile_grid
    base = {'GLOBAL_MERCATOR': dict(srs='EPSG:900913', origin='ll'),
            'GLOBAL_WEBMERCATOR': dict(srs='EPSG:3857', origin='ul'),
            'GLOBAL_GEODETIC': dict(srs='EPSG:4326', origin='ll')}
    if 'base' in g:
        return tile_grid(**base[g['base']])
    c = grid_conf(g)
    kw = dict(srs=c['srs'], bbox=c['bbox'], origin=c['origin'], tile_size=tuple(c['tile_size']))
    for k in ('res', 'min_res', 'num_levels', 'res_factor'):
        if k in c:
            kw[k] = c[k]
    return tile_grid(**kw)


def grid_signature(g):
    m = mp_grid(g)
    return (canon(m.srs.srs_code), tuple(round(v, 6) for v in m.bbox), m.origin, tuple(m.tile_size),
            tuple(round(r, 9) for r in m.resolutions))


NAMED_GRIDS = {
    'GLOBAL_MERCATOR': {'base': 'GLOBAL_MERCATOR'},
    'GLOBAL_WEBMERCATOR': {'base': 'GLOBAL_WEBMERCATOR'},
    'GLOBAL_GEODETIC': {'base': 'GLOBAL_GEODETIC'},
    'g_utm_ll': {'srs': 'EPSG:25832', 'bbox': [100000.0, 5000000.0, 1124000.0, 6024000.0], 'origin': 'll',
                 'tile_size': [256, 256], 'min_res': 4000.0, 'num_levels': 11},
    'g_utm_ul': {'srs': 'EPSG:25832', 'bbox': [100000.0, 5000000.0, 1124000.0, 6024000.0], 'origin': 'ul',
                 'tile_size': [128, 128], 'min_res': 8000.0, 'num_levels': 12},
    'g_sqrt2': {'srs': 'EPSG:3857', 'bbox': [-MERC, -MERC, MERC, MERC], 'origin': 'ul', 'tile_size': [256, 256],
                'min_res': 156543.03392804097, 'num_levels': 30, 'res_factor': 'sqrt2'},
    'g_etrs': {'srs': 'EPSG:4258', 'bbox': [0.0, 40.0, 20.0, 60.0], 'origin': 'll', 'tile_size': [128, 128],
               'min_res': 0.15625, 'num_levels': 12},
    'g_laea': {'srs': 'EPSG:3035', 'bbox': [3500000.0, 2000000.0, 5548000.0, 4048000.0], 'origin': 'ul',
               'tile_size': [256, 256], 'min_res': 8000.0, 'num_levels': 12},
}
WMS_CACHE_GRIDS = sorted(NAMED_GRIDS)


def grid_level_res_m(gname, g=None):
    g = g or NAMED_GRIDS[gname]
    m = mp_grid(g)
    f = K_DEG if is_geographic(m.srs.srs_code) else 1.0
    return [r * f for r in m.resolutions]


# ------------------------------------------------------------------------------------------------
# generators

def _round(v, srs):
    return round(v, 6) if is_geographic(srs) else round(v, 2)


@st.composite
def coverages(draw):
    srs = draw(st.sampled_from(['EPSG:4326', 'EPSG:4326', 'EPSG:3857', 'EPSG:25832', 'EPSG:900913']))
    lon0 = draw(st.floats(5.5, 11.5))
    lat0 = draw(st.floats(46.5, 52.5))
    dlon = draw(st.sampled_from([0.3, 0.8, 1.5, 3.0, 5.0]))
    dlat = draw(st.sampled_from([0.2, 0.6, 1.2, 2.5, 4.0]))
    xs, ys = transform([lon0, lon0 + dlon], [lat0, lat0 + dlat], 'EPSG:4326', srs)
    bbox = [_round(float(min(xs)), srs), _round(float(min(ys)), srs), _round(float(max(xs)), srs), _round(float(max(ys)), srs)]
    kind = draw(st.sampled_from(['bbox', 'bbox', 'poly']))
    cov = {'kind': kind, 'srs': srs, 'bbox': bbox}
    if kind == 'poly':
        cov['shape'] = draw(st.sampled_from(sorted(POLY_SHAPES)))
    return cov


@st.composite
def res_ranges(draw, level_res=None):
    """Limits in metres per pixel (coarse = min_res > fine = max_res), optionally tied to grid levels."""
    pool = [10.0, 25.0, 50.0, 100.0, 250.0, 500.0, 1000.0, 2500.0]
    if level_res:
        lv = [r for r in level_res if 2.0 <= r <= 5000.0]
        if lv:
            base = draw(st.sampled_from(lv))
            pool = [base, base * 1.0001, base * 0.9999, base * 1.4, base * 0.7]
    coarse = draw(st.one_of(st.sampled_from(pool), st.floats(20.0, 3000.0)))
    which = draw(st.sampled_from(['both', 'coarse', 'coarse', 'fine']))
    fine = coarse / draw(st.sampled_from([3.0, 8.0, 20.0, 64.0]))
    if which == 'coarse':
        fine = None
    elif which == 'fine':
        fine, coarse = coarse / 4.0, None
    if draw(st.integers(0, 3)) == 0 and coarse is not None and fine is not None:
        # (a single min_scale / max_scale is rejected by the configuration loader: TypeError in ogc_scale_to_res)
        return {'max_scale': coarse / OGC_PX, 'min_scale': fine / OGC_PX}
    out = {}
    if coarse is not None:
        out['min_res'] = coarse
    if fine is not None:
        out['max_res'] = fine
    return out


def _case_variant(draw, key):
    return draw(st.sampled_from([key, key, key.lower(), key.capitalize()]))


@st.composite
def wms_sources(draw, idx, previous, level_res):
    name = 's%d' % idx
    if previous and draw(st.integers(0, 2)) == 0:
        # sibling of an earlier source: same server, SRS, formats and coverage => MapProxy may combine the two
        sib = dict(draw(st.sampled_from(previous)))
        sib['name'] = name
        if draw(st.booleans()):
            sib['res'] = draw(st.one_of(st.none(), res_ranges(level_res)))
        if draw(st.integers(0, 2)) == 0:
            sib['fwd'] = [_case_variant(draw, k) for k in draw(st.lists(st.sampled_from(DIM_KEYS), max_size=2, unique=True))]
        return sib
    src = {'name': name}
    src['host'] = draw(st.sampled_from(['w.test', 'w.test', 'w%d.test' % idx]))
    src['version'] = draw(st.sampled_from(['1.1.1', '1.1.1', '1.3.0']))
    if draw(st.integers(0, 4)) == 0:
        src['supported_srs'] = None
    else:
        src['supported_srs'] = draw(st.lists(st.sampled_from(SRS_ALL), min_size=1, max_size=3, unique=True))
    if draw(st.integers(0, 2)) == 0:
        src['supported_formats'] = None
    else:
        src['supported_formats'] = draw(st.lists(st.sampled_from(FORMATS), min_size=1, max_size=2, unique=True))
    src['coverage'] = draw(st.one_of(st.none(), coverages(), coverages()))
    src['res'] = draw(st.one_of(st.none(), res_ranges(level_res)))
    src['fwd'] = [_case_variant(draw, k) for k in draw(st.lists(st.sampled_from(DIM_KEYS), max_size=3, unique=True))]
    src['req_format'] = draw(st.sampled_from([None, None, None, 'image/png', 'image/jpeg', 'image/gif']))
    src['transparent'] = draw(st.sampled_from([True, True, False]))
    return src


@st.composite
def family_grids(draw, fam, srs=None):
    depth = draw(st.sampled_from([0, 0, 1, 2, 3, 4]))
    tx, ty = europe_tile(fam, depth)
    if depth >= 2 and draw(st.integers(0, 3)) == 0:
        tx += draw(st.sampled_from([-1, 1]))
    z0 = depth + draw(st.sampled_from([0, 0, 1, 2]))
    nlev = draw(st.integers(3, 9))
    return {'family': fam, 'srs': srs or draw(st.sampled_from(FAMILIES[fam][2])), 'depth': depth, 'tx': tx, 'ty': ty,
            'z0': z0, 'nlev': nlev, 'origin': draw(st.sampled_from(['ll', 'ul']))}


@st.composite
def tile_setups(draw):
    """A tile source on its own grid, a cache on a (usually different) grid of the same family, optionally a
    second cache with an unrelated grid on top (cascade)."""
    fam = draw(st.sampled_from(['merc', 'merc', 'geod']))
    sgrid = draw(family_grids(fam))
    how = draw(st.sampled_from(['same', 'flip', 'free', 'free', 'free']))
    if how == 'same':
        cgrid = dict(sgrid)
    elif how == 'flip':
        cgrid = dict(sgrid)
        cgrid['origin'] = 'ul' if sgrid['origin'] == 'll' else 'll'
        cgrid['srs'] = draw(st.sampled_from(FAMILIES[fam][2]))
    else:
        cgrid = draw(family_grids(fam))
    src = {'name': 't0', 'host': 't0.test', 'kind': draw(st.sampled_from(['tms', 'xyz', 'quadkey', 'tc', 'arcgis'])),
           'grid': sgrid}
    src['coverage'] = draw(st.one_of(st.none(), coverages()))
    f = FAMILIES[fam][3]
    level_res = [family_res(fam, z) * f for z in range(sgrid['z0'], sgrid['z0'] + sgrid['nlev'])]
    src['res'] = draw(st.one_of(st.none(), st.none(), res_ranges(level_res)))
    cache = {'name': 'ct0', 'sources': ['t0'], 'grids': ['cg_t0'], 'meta_size': draw(st.sampled_from([[1, 1], [2, 2], [2, 1]])),
             'meta_buffer': 0, 'format': 'image/png', 'request_format': None,
             'disable_storage': draw(st.sampled_from([True, True, False])),
             'bulk_meta_tiles': draw(st.booleans())}
    out = {'source': src, 'cache': cache, 'cache_grid': cgrid, 'cascade': None}
    if draw(st.integers(0, 2)) == 0:
        out['cascade'] = {'name': 'cc0', 'sources': ['ct0'],
                          'grids': [draw(st.sampled_from(['GLOBAL_GEODETIC', 'g_utm_ll', 'g_sqrt2', 'GLOBAL_WEBMERCATOR']))],
                          'meta_size': [2, 2], 'meta_buffer': draw(st.sampled_from([0, 10])), 'format': 'image/png',
                          'request_format': None, 'disable_storage': True, 'bulk_meta_tiles': False}
    return out


@st.composite
def conf_specs(draw):
    spec = {'wms_sources': [], 'tile': None, 'caches': [], 'layers': [], 'preferred': {}}
    # cache grids are chosen first so that resolution limits can be tied to their levels
    n_caches = draw(st.integers(0, 2))
    cache_grids = [draw(st.lists(st.sampled_from(WMS_CACHE_GRIDS), min_size=1, max_size=2, unique=True)) for _ in range(n_caches)]
    level_res = []
    for gl in cache_grids:
        for gname in gl:
            level_res.extend(grid_level_res_m(gname))
    n_wms = draw(st.integers(2, 4))
    for i in range(n_wms):
        spec['wms_sources'].append(draw(wms_sources(i, spec['wms_sources'], level_res)))
    names = [s['name'] for s in spec['wms_sources']]
    # direct layers
    for i in range(draw(st.integers(1, 2))):
        srcs = draw(st.lists(st.sampled_from(names), min_size=1, max_size=3, unique=True))
        if draw(st.booleans()):
            srcs = sorted(srcs)
        spec['layers'].append({'name': 'ld%d' % i, 'sources': srcs})
    for i, gl in enumerate(cache_grids):
        cname = 'c%d' % i
        # two grids of the same SRS in one cache are a configuration error
        seen, grids = set(), []
        for gname in gl:
            code = canon(mp_grid(NAMED_GRIDS[gname]).srs.srs_code)
            if code not in seen:
                seen.add(code)
                grids.append(gname)
        spec['caches'].append({
            'name': cname, 'sources': draw(st.lists(st.sampled_from(names), min_size=1, max_size=2, unique=True)),
            'grids': grids, 'meta_size': draw(st.sampled_from([[1, 1], [2, 2], [2, 2], [3, 2]])),
            'meta_buffer': draw(st.sampled_from([0, 0, 20, 80])), 'format': draw(st.sampled_from(['image/png', 'image/png', 'image/jpeg'])),
            'request_format': draw(st.sampled_from([None, None, 'image/png', 'image/jpeg', 'image/tiff'])),
            'disable_storage': draw(st.sampled_from([True, True, True, False])), 'bulk_meta_tiles': False})
        lsrc = [cname]
        if draw(st.integers(0, 3)) == 0:
            lsrc.append(draw(st.sampled_from(names)))
        spec['layers'].append({'name': 'lc%d' % i, 'sources': lsrc})
    if draw(st.integers(0, 2)) != 0:
        t = draw(tile_setups())
        spec['tile'] = t
        spec['layers'].append({'name': 'lt0', 'sources': ['ct0']})
        if t['cascade']:
            spec['layers'].append({'name': 'lt1', 'sources': ['cc0']})
    # preferred_src_proj
    if draw(st.booleans()):
        for key in draw(st.lists(st.sampled_from(SRS_ALL), min_size=1, max_size=3, unique=True)):
            spec['preferred'][key] = draw(st.lists(st.sampled_from(SRS_ALL), min_size=1, max_size=3, unique=True))
    return spec


PLACEMENTS = ['in', 'in', 'cross-lo', 'cross-hi', 'touch-lo', 'touch-hi', 'far', 'cover']
TOUCH_PX = [-3.0, -1.5, -0.5, 0.0, 0.5, 1.5, 3.0, 8.0]


def place_axis(mode, e_lo, e_hi, span, res, f, k):
    if mode == 'cover':
        c = (e_lo + e_hi) / 2.0
        return c - span / 2.0
    if mode == 'in':
        room = (e_hi - e_lo) - span
        return e_lo + f * room if room > 0 else e_lo - f * 0.5 * span
    if mode == 'cross-lo':
        return e_lo - (0.05 + 0.9 * f) * span
    if mode == 'cross-hi':
        return e_hi - (0.05 + 0.9 * f) * span
    if mode == 'touch-lo':   # request lies below the extent, its upper edge k px inside (+) / outside (-)
        return e_lo + k * res - span
    if mode == 'touch-hi':
        return e_hi - k * res
    return e_hi + (3.0 + 10.0 * f) * span


def sources_of_layer(spec, lname):
    """Names of the WMS / tile sources reachable from a layer."""
    out = []
    caches = {c['name']: c for c in all_caches(spec)}

    def walk(n):
        if n in caches:
            for s in caches[n]['sources']:
                walk(s)
        else:
            out.append(n)
    for l in spec['layers']:
        if l['name'] == lname:
            for s in l['sources']:
                walk(s)
    return out


def all_caches(spec):
    cs = list(spec['caches'])
    if spec.get('tile'):
        cs.append(spec['tile']['cache'])
        if spec['tile'].get('cascade'):
            cs.append(spec['tile']['cascade'])
    return cs


def source_by_name(spec, name):
    for s in spec['wms_sources']:
        if s['name'] == name:
            return s
    if spec.get('tile') and spec['tile']['source']['name'] == name:
        return spec['tile']['source']
    return None


def grid_spec_by_name(spec, gname):
    if gname == 'cg_t0':
        return spec['tile']['cache_grid']
    if gname == 'sg_t0':
        return spec['tile']['source']['grid']
    return NAMED_GRIDS[gname]


@st.composite
def wms_requests(draw, spec):
    layers = [l['name'] for l in spec['layers']]
    first = draw(st.sampled_from(layers))
    lnames = [first]
    if len(layers) > 1 and draw(st.integers(0, 3)) == 0:
        lnames.append(draw(st.sampled_from([l for l in layers if l != first])))
    reach = []
    for ln in lnames:
        reach.extend(sources_of_layer(spec, ln))
    anchor = source_by_name(spec, draw(st.sampled_from(sorted(set(reach)))))
    srs = draw(st.sampled_from(SRS_ALL))
    if anchor.get('supported_srs') and draw(st.integers(0, 3)) == 0:
        srs = draw(st.sampled_from(anchor['supported_srs']))
    version = draw(st.sampled_from(['1.1.1', '1.3.0']))
    w = draw(st.sampled_from([64, 100, 200, 256, 300, 317]))
    h = draw(st.sampled_from([64, 100, 200, 256, 300, 211]))
    # resolution (metres per pixel in MapProxy's convention) relative to the limits of the anchor
    lim = []
    if anchor.get('res'):
        lim = [v for v in res_limits(anchor['res']) if v is not None]
    if lim and draw(st.integers(0, 3)) != 0:
        r = draw(st.sampled_from(lim)) * draw(st.sampled_from([0.25, 0.5, 0.9, 0.999, 1.0, 1.001, 1.1, 2.0, 4.0]))
    else:
        r = math.exp(draw(st.floats(math.log(3.0), math.log(3000.0))))
    aniso = draw(st.sampled_from([1.0, 1.0, 1.0, 0.8, 1.3]))
    unit = K_DEG if is_geographic(srs) else 1.0
    rx, ry = r / unit, r * aniso / unit
    # placement relative to the coverage extent of the anchor in the request SRS
    ext = None
    if anchor.get('coverage'):
        ext = coverage_extent(anchor['coverage'], srs)
    if ext is None:
        ext = bbox_to(REGION_LL, 'EPSG:4326', srs, n=16)
    mx = draw(st.sampled_from(PLACEMENTS))
    my = draw(st.sampled_from(PLACEMENTS))
    if draw(st.booleans()):
        my = draw(st.sampled_from(['in', 'cover', 'cross-lo']))
    x0 = place_axis(mx, ext[0], ext[2], w * rx, rx, draw(st.floats(0.0, 1.0)), draw(st.sampled_from(TOUCH_PX)))
    y0 = place_axis(my, ext[1], ext[3], h * ry, ry, draw(st.floats(0.0, 1.0)), draw(st.sampled_from(TOUCH_PX)))
    bbox = [x0, y0, x0 + w * rx, y0 + h * ry]
    if is_geographic(srs):
        # keep the request a valid geographic rectangle
        if bbox[1] < -89.0 or bbox[3] > 89.0 or bbox[0] < -179.0 or bbox[2] > 179.0:
            sh_y = min(0.0, 89.0 - bbox[3]) + max(0.0, -89.0 - bbox[1])
            sh_x = min(0.0, 179.0 - bbox[2]) + max(0.0, -179.0 - bbox[0])
            bbox = [bbox[0] + sh_x, bbox[1] + sh_y, bbox[2] + sh_x, bbox[3] + sh_y]
    dims = {}
    for key in draw(st.lists(st.sampled_from(DIM_KEYS), max_size=3, unique=True)):
        dims[_case_variant(draw, key)] = DIM_VALUES[key]
    return {'kind': 'wms', 'version': version, 'layers': lnames, 'srs': srs, 'bbox': [float(v) for v in bbox],
            'size': [w, h], 'format': draw(st.sampled_from(['image/png', 'image/png', 'image/jpeg'])),
            'transparent': draw(st.booleans()), 'dims': dims, 'anchor': anchor['name'],
            'placement': [mx, my]}


@st.composite
def tile_requests(draw, spec):
    cached = [l for l in spec['layers'] if len(l['sources']) == 1 and l['sources'][0] in [c['name'] for c in all_caches(spec)]]
    layer = draw(st.sampled_from(cached))
    cache = [c for c in all_caches(spec) if c['name'] == layer['sources'][0]][0]
    gname = draw(st.sampled_from(cache['grids']))
    grid = mp_grid(grid_spec_by_name(spec, gname))
    reach = sources_of_layer(spec, layer['name'])
    anchor = source_by_name(spec, draw(st.sampled_from(sorted(set(reach)))))
    srs = grid.srs.srs_code
    ext = coverage_extent(anchor['coverage'], srs) if anchor.get('coverage') else None
    if 'grid' in anchor and draw(st.integers(0, 2)) == 0:
        # around the edges of the *source* grid (the cache grid may be larger)
        sg = anchor['grid']
        ext = bbox_to(family_rect(sg['family'], sg['depth'], sg['tx'], sg['ty']), sg['srs'], srs, n=16)
    if ext is None:
        ext = bbox_to(REGION_LL, 'EPSG:4326', srs, n=16)
    # level: relative to the limits of the anchor or free
    levels = list(range(grid.levels))
    unit = K_DEG if is_geographic(srs) else 1.0
    lim = [v for v in res_limits(anchor['res']) if v is not None] if anchor.get('res') else []
    if lim and draw(st.booleans()):
        target = draw(st.sampled_from(lim))
        z = min(levels, key=lambda i: abs(math.log(grid.resolutions[i] * unit / target)))
        z = max(0, min(grid.levels - 1, z + draw(st.sampled_from([-1, 0, 0, 1]))))
    else:
        sensible = [i for i in levels if 2.0 <= grid.resolutions[i] * unit <= 20000.0] or levels
        z = draw(st.sampled_from(sensible))
    kinds = (['tms'] if grid.supports_access_with_origin('sw') else []) + \
        (['wmts', 'wmts-rest'] if grid.supports_access_with_origin('nw') else [])
    kind = draw(st.sampled_from(kinds))
    # public <-> internal level numbering of the tile services (TMS profiles skip level 0, sqrt2 grids expose
    # every second level): choose an internal level that has a public number
    from mapproxy.service.tile import TileServiceGrid
    sgrid = TileServiceGrid(grid)
    profiles = kind == 'tms'
    if sgrid._skip_odd_level and z % 2:
        z = max(0, z - 1)
    if profiles and sgrid._skip_first_level and z == 0:
        z = 2 if sgrid._skip_odd_level else 1
    fx, fy = draw(st.floats(-0.2, 1.2)), draw(st.floats(-0.2, 1.2))
    px = ext[0] + fx * (ext[2] - ext[0])
    py = ext[1] + fy * (ext[3] - ext[1])
    px = min(max(px, grid.bbox[0]), grid.bbox[2])
    py = min(max(py, grid.bbox[1]), grid.bbox[3])
    x, y, _ = grid.tile(px, py, z)
    gx, gy = grid.grid_sizes[z]
    x = min(max(0, x + draw(st.sampled_from([0, 0, 0, -1, 1]))), gx - 1)
    y = min(max(0, y + draw(st.sampled_from([0, 0, 0, -1, 1]))), gy - 1)
    south = y if grid.origin in ('ll', 'sw') else gy - 1 - y
    pz = sgrid.external_tile_coord((x, y, z), profiles)[2]
    if kind == 'tms':
        coord = [x, south, pz]
    else:
        coord = [x, gy - 1 - south, pz]
    return {'kind': kind, 'layer': layer['name'], 'grid': gname, 'coord': coord, 'format': cache['format'].split('/')[1],
            'anchor': anchor['name']}


@st.composite
def cases(draw):
    spec = draw(conf_specs())
    n = draw(st.integers(10, 14))
    reqs = []
    has_cached = any(len(l['sources']) == 1 and l['sources'][0] in [c['name'] for c in all_caches(spec)] for l in spec['layers'])
    for _ in range(n):
        if has_cached and draw(st.integers(0, 3)) == 0:
            reqs.append(draw(tile_requests(spec)))
        else:
            reqs.append(draw(wms_requests(spec)))
    return {'conf': spec, 'requests': reqs}


# ------------------------------------------------------------------------------------------------
# known finding: exclusion by construction

def _res_key(src):
    return tuple(sorted((src.get('res') or {}).items()))


def _combinable(a, b):
    return (a['host'] == b['host'] and a.get('supported_srs') == b.get('supported_srs') and
            a.get('supported_formats') == b.get('supported_formats') and a.get('coverage') == b.get('coverage'))


_open_sigs_memo = []


def _open_signatures():
    """Open findings of this property, read once per process (other builders rewrite their own files in
    known_findings.d while checks run; a half-written file is retried, it never influences a verdict)."""
    if not _open_sigs_memo:
        import json
        import time
        for attempt in range(20):
            try:
                _open_sigs_memo.append(frozenset(core.open_signatures(PROPERTY)))
                break
            except (json.JSONDecodeError, OSError):
                if attempt == 19:
                    raise
                time.sleep(0.25)
    return _open_sigs_memo[0]


def _is_wms_dimension(key):
    k = key.lower()
    return k in ('time', 'elevation') or k.startswith('dim_')


def apply_exclusions(spec, stats):
    """Exclusion by construction of the open known findings (each rewrites exactly its trigger and nothing else):
    * combined-layers: two adjacent direct sources of one layer that MapProxy can combine into one upstream request
      although their resolution ranges differ are put on different servers;
    * preferred-alias: a preferred_src_proj entry that is an alias (900913/3857) of a supported_srs entry of some
      source without being listed by that source itself is dropped;
    * shared-query-race: sources of one cache (queried concurrently with one shared MapQuery) that list different
      alias codes (900913 / 3857) of the same SRS get the same code;
    * forwarded-value: forward_req_params entries naming a WMS dimension (TIME / ELEVATION / DIM_*) are written in
      lower case and all other entries in upper case (a dimension in any other spelling, or one parameter spelled
      differently by two sources of the same request, makes MapProxy send the value twice)."""
    counts = {}
    open_sigs = _open_signatures()
    by = dict((s['name'], s) for s in spec['wms_sources'])
    if SIG_COMBINED_RES in open_sigs:
        for layer in spec['layers']:
            for a, b in zip(layer['sources'], layer['sources'][1:]):
                if a in by and b in by and _combinable(by[a], by[b]) and _res_key(by[a]) != _res_key(by[b]):
                    by[b]['host'] = 'x%s.test' % b
                    counts['combinable-adjacent-sources-with-different-res-range->separate-servers'] = \
                        counts.get('combinable-adjacent-sources-with-different-res-range->separate-servers', 0) + 1
    if SIG_PREFERRED_ALIAS in open_sigs:
        def trigger(p):
            for src in spec['wms_sources']:
                codes = [c.upper() for c in (src.get('supported_srs') or [])]
                if p.upper() not in codes and canon(p) in [canon(c) for c in codes]:
                    return True
            return False
        for key in sorted(spec.get('preferred') or {}):
            kept = [p for p in spec['preferred'][key] if not trigger(p)]
            if len(kept) != len(spec['preferred'][key]):
                counts['preferred_src_proj-entry-that-is-only-an-alias-of-a-supported_srs->dropped'] = \
                    counts.get('preferred_src_proj-entry-that-is-only-an-alias-of-a-supported_srs->dropped', 0) + \
                    len(spec['preferred'][key]) - len(kept)
                if kept:
                    spec['preferred'][key] = kept
                else:
                    del spec['preferred'][key]
    if SIG_QUERY_RACE in open_sigs:
        for c in all_caches(spec):
            srcs = [by[n] for n in c['sources'] if n in by and by[n].get('supported_srs')]
            for a in srcs:
                for b in srcs:
                    if a is b:
                        continue
                    a_codes = [x.upper() for x in a['supported_srs']]
                    new_list = []
                    for y in b['supported_srs']:
                        mine = [x for x in a['supported_srs'] if canon(x) == canon(y)]
                        if mine and y.upper() not in a_codes:
                            y = mine[0]
                            counts['cache-sources-listing-different-alias-codes-of-one-SRS->same-code'] = \
                                counts.get('cache-sources-listing-different-alias-codes-of-one-SRS->same-code', 0) + 1
                        if y not in new_list:
                            new_list.append(y)
                    b['supported_srs'] = new_list
    if SIG_FWD_VALUE in open_sigs:
        for src in spec['wms_sources']:
            fixed = [k.lower() if _is_wms_dimension(k) else k.upper() for k in (src.get('fwd') or [])]
            n = sum(1 for a, b in zip(fixed, src.get('fwd') or []) if a != b)
            if n:
                src['fwd'] = fixed
                counts['forward_req_params-spelling-that-doubles-the-value->normalised'] = \
                    counts.get('forward_req_params-spelling-that-doubles-the-value->normalised', 0) + n
    if stats is not None:
        for k, n in counts.items():
            stats.excluded[k] += n
    return spec, counts


# ------------------------------------------------------------------------------------------------
# MapProxy configuration

def coverage_conf(cov, name, base_dir):
    if cov['kind'] == 'bbox':
        return {'bbox': list(cov['bbox']), 'srs': cov['srs']}
    pts = coverage_points(cov)
    wkt = 'POLYGON((%s))' % ', '.join('%r %r' % (x, y) for x, y in pts + [pts[0]])
    fn = 'coverage_%s.wkt' % name
    with open(os.path.join(base_dir, fn), 'w') as f:
        f.write(wkt + '\n')
    return {'datasource': fn, 'srs': cov['srs']}


def cache_conf(c):
    d = {'sources': list(c['sources']), 'grids': list(c['grids']), 'meta_size': list(c['meta_size']),
         'meta_buffer': c['meta_buffer'], 'format': c['format']}
    if c.get('request_format'):
        d['request_format'] = c['request_format']
    if c.get('disable_storage'):
        d['disable_storage'] = True
    if c.get('bulk_meta_tiles'):
        d['bulk_meta_tiles'] = True
    return d


def build_conf(spec, base_dir):
    conf = {
        'services': {
            'wms': {'srs': list(SRS_ALL), 'md': {'title': 'c17'}, 'image_formats': ['image/png', 'image/jpeg'],
                    'versions': ['1.1.1', '1.3.0']},
            'tms': {'use_grid_names': True},
            'wmts': {'restful': True, 'kvp': True},
        },
        'sources': {}, 'caches': {}, 'grids': {}, 'layers': [],
        'globals': {'cache': {'meta_size': [2, 2], 'meta_buffer': 0, 'concurrent_tile_creators': 2}},
    }
    if spec.get('preferred'):
        conf['globals']['srs'] = {'preferred_src_proj': {k: list(v) for k, v in spec['preferred'].items()}}
    for s in spec['wms_sources']:
        d = {'type': 'wms', 'req': {'url': 'http://%s/service?' % s['host'], 'layers': s['name']},
             'wms_opts': {'version': s['version']}}
        if s.get('transparent'):
            d['req']['transparent'] = True
        if s.get('req_format'):
            d['req']['format'] = s['req_format']
        if s.get('supported_srs'):
            d['supported_srs'] = list(s['supported_srs'])
        if s.get('supported_formats'):
            d['supported_formats'] = list(s['supported_formats'])
        if s.get('coverage'):
            d['coverage'] = coverage_conf(s['coverage'], s['name'], base_dir)
        if s.get('res'):
            d.update(s['res'])
        if s.get('fwd'):
            d['forward_req_params'] = list(s['fwd'])
        conf['sources'][s['name']] = d
    used = set()
    for c in spec['caches']:
        conf['caches'][c['name']] = cache_conf(c)
        used.update(c['grids'])
    t = spec.get('tile')
    if t:
        ts = t['source']
        d = {'type': 'tile', 'url': 'http://%s/%s' % (ts['host'], TILE_TEMPLATES[ts['kind']]), 'grid': 'sg_t0'}
        if ts.get('coverage'):
            d['coverage'] = coverage_conf(ts['coverage'], ts['name'], base_dir)
        if ts.get('res'):
            d.update(ts['res'])
        conf['sources'][ts['name']] = d
        conf['grids']['sg_t0'] = grid_conf(ts['grid'])
        conf['grids']['cg_t0'] = grid_conf(t['cache_grid'])
        conf['caches'][t['cache']['name']] = cache_conf(t['cache'])
        if t.get('cascade'):
            conf['caches'][t['cascade']['name']] = cache_conf(t['cascade'])
            used.update(t['cascade']['grids'])
    for gname in sorted(used):
        if 'base' not in NAMED_GRIDS[gname]:
            conf['grids'][gname] = grid_conf(NAMED_GRIDS[gname])
    if not conf['grids']:
        del conf['grids']
    if not conf['caches']:
        del conf['caches']
    for l in spec['layers']:
        conf['layers'].append({'name': l['name'], 'title': l['name'], 'sources': list(l['sources'])})
    return conf


def request_url(req):
    from urllib.parse import urlencode
    if req['kind'] == 'wms':
        b = req['bbox']
        if req['version'] == '1.3.0':
            from ..ground import is_north_east
            if is_north_east(req['srs']):
                b = [b[1], b[0], b[3], b[2]]
        p = [('SERVICE', 'WMS'), ('VERSION', req['version']), ('REQUEST', 'GetMap'), ('LAYERS', ','.join(req['layers'])),
             ('STYLES', ''), ('CRS' if req['version'] == '1.3.0' else 'SRS', req['srs']),
             ('BBOX', ','.join(repr(float(v)) for v in b)), ('WIDTH', str(req['size'][0])), ('HEIGHT', str(req['size'][1])),
             ('FORMAT', req['format']), ('TRANSPARENT', 'TRUE' if req.get('transparent') else 'FALSE')]
        for k in sorted(req.get('dims') or {}):
            p.append((k, req['dims'][k]))
        return '/service?' + urlencode(p)
    x, y, z = req['coord']
    if req['kind'] == 'tms':
        return '/tms/1.0.0/%s/%s/%d/%d/%d.%s' % (req['layer'], req['grid'], z, x, y, req['format'])
    if req['kind'] == 'wmts-rest':
        return '/wmts/%s/%s/%d/%d/%d.%s' % (req['layer'], req['grid'], z, x, y, req['format'])
    p = [('SERVICE', 'WMTS'), ('VERSION', '1.0.0'), ('REQUEST', 'GetTile'), ('LAYER', req['layer']), ('STYLE', ''),
         ('TILEMATRIXSET', req['grid']), ('TILEMATRIX', str(z)), ('TILEROW', str(y)), ('TILECOL', str(x)),
         ('FORMAT', 'image/' + req['format'])]
    return '/service?' + urlencode(p)


# ------------------------------------------------------------------------------------------------
# harness: synthetic upstream + wrapper around Source.get_map

def _flat_image(info):
    from PIL import Image
    w, h = info['size']
    if w < 1 or h < 1 or w * h > 3000 * 3000:
        w = h = 8
    return Image.new('RGB', (w, h), (120, 140, 160))


class Probe(object):
    """Records every WMSSource.get_map / TiledSource.get_map invocation (query at entry, outcome) together with
    the upstream calls made by the same thread while it ran."""

    def __init__(self, upstream):
        self.up = upstream
        self.records = []
        self.orphans = []
        self._lock = threading.Lock()
        self._tls = threading.local()
        self._orig = []

    def clear(self):
        with self._lock:
            del self.records[:]
            del self.orphans[:]

    def _on_call(self, call):
        stack = getattr(self._tls, 'stack', None)
        if stack:
            stack[-1]['calls'].append(call)
        else:
            with self._lock:
                self.orphans.append(call)

    def _wrap(self, cls, describe):
        orig = cls.get_map
        probe = self

        def get_map(source, query):
            rec = {'type': cls.__name__, 'sources': describe(source),
                   'query': {'bbox': [float(v) for v in query.bbox], 'size': [int(query.size[0]), int(query.size[1])],
                             'srs': query.srs.srs_code, 'format': str(query.format),
                             'dims': sorted(k.upper() for k in (query.dimensions or {}).keys())},
                   'calls': [], 'outcome': None}
            stack = getattr(probe._tls, 'stack', None)
            if stack is None:
                stack = probe._tls.stack = []
            stack.append(rec)
            try:
                res = orig(source, query)
                rec['outcome'] = 'image'
                return res
            except BaseException as e:
                rec['outcome'] = type(e).__name__
                raise
            finally:
                stack.pop()
                with probe._lock:
                    probe.records.append(rec)
        cls.get_map = get_map
        self._orig.append((cls, orig))

    def __enter__(self):
        from mapproxy.source.wms import WMSSource
        from mapproxy.source.tile import TiledSource
        self._wrap(WMSSource, lambda s: list(s.client.request_template.params.layers))
        self._wrap(TiledSource, lambda s: ['t0'])
        self.up.on_call = self._on_call
        return self

    def __exit__(self, *exc):
        for cls, orig in reversed(self._orig):
            cls.get_map = orig
        self._orig = []
        self.up.on_call = None
        return False


class Rendezvous(object):
    """Schedule control for one committed regression case ('schedule': 'retrieve-rendezvous'): the first thread
    that enters WMSClient.retrieve waits until a second one has entered it.  Generated cases never use it.  The
    5 s bound only ends a wait that can never be satisfied (counted as inconclusive, never a verdict)."""

    def __init__(self, mode, stats):
        self.mode = mode
        self.stats = stats
        self.orig = None

    def __enter__(self):
        if self.mode != 'retrieve-rendezvous':
            return self
        from mapproxy.client.wms import WMSClient
        self.orig = orig = WMSClient.retrieve
        lock = threading.Lock()
        state = {'first': None, 'ev': threading.Event()}
        stats = self.stats

        def retrieve(client, query, format):
            with lock:
                me = state['first'] is None
                if me:
                    state['first'] = client
            if me:
                if not state['ev'].wait(5.0):
                    stats.inconclusive['rendezvous-partner-never-arrived'] += 1
            else:
                state['ev'].set()
            return orig(client, query, format)
        WMSClient.retrieve = retrieve
        return self

    def __exit__(self, *exc):
        if self.orig is not None:
            from mapproxy.client.wms import WMSClient
            WMSClient.retrieve = self.orig
            self.orig = None
        return False


# ------------------------------------------------------------------------------------------------
# oracle

def V(sig, msg, case):
    return core.Violation('C17/' + sig, msg, case)


def mime_of(fmt):
    fmt = (fmt or '').strip().lower().split(';')[0]
    if '/' not in fmt and fmt:
        fmt = 'image/' + fmt
    return {'image/jpg': 'image/jpeg', 'image/tif': 'image/tiff'}.get(fmt, fmt)


def contains_bbox(ext, b, tol):
    return ext[0] - tol <= b[0] and ext[1] - tol <= b[1] and ext[2] + tol >= b[2] and ext[3] + tol >= b[3]


def sibling_lists_code(spec, name, code):
    for c in all_caches(spec):
        if name in c['sources'] and len(c['sources']) > 1:
            for other in c['sources']:
                o = source_by_name(spec, other)
                if other != name and o and code.upper() in [x.upper() for x in (o.get('supported_srs') or [])]:
                    return True
    return False


def judge_map_call(call, rec, spec, req, case):
    out = []
    info = call.info
    names = info.get('layers') or []
    if not names:
        raise core.HarnessError('upstream WMS call without LAYERS: %s' % call.url)
    srs = (info.get('srs') or '').upper()
    how = 'unknown'
    if rec is not None:
        how = 'same-srs' if canon(rec['query']['srs'].upper()) == canon(srs) else 'reprojected'
    for name in names:
        src = source_by_name(spec, name)
        if src is None or 'version' not in src:
            raise core.HarnessError('upstream WMS call for unknown layer %r: %s' % (name, call.url))
        if src.get('supported_srs') and srs not in [c.upper() for c in src['supported_srs']]:
            alias = canon(srs) in [canon(c) for c in src['supported_srs']]
            ctx = how
            if alias and how == 'same-srs' and sibling_lists_code(spec, name, srs):
                # the source shares a cache (= one MapQuery object, several threads) with a source that lists this code
                ctx = how + '/shared-query-race'
            out.append(V('wms/%s/%s' % ('srs-alias-of-listed' if alias else 'srs-not-listed', ctx),
                         'source %s (supported_srs %r) was asked in %s: %s' % (name, src['supported_srs'], srs, call.url), case))
        if src.get('supported_formats'):
            fmt = mime_of(info.get('format'))
            if fmt not in [mime_of(f) for f in src['supported_formats']]:
                out.append(V('wms/format-not-listed', 'source %s (supported_formats %r) was asked for %r: %s'
                             % (name, src['supported_formats'], info.get('format'), call.url), case))
        if src.get('coverage'):
            cov = src['coverage']
            ext = coverage_extent(cov, srs)
            if ext is not None:
                same = canon(srs) == canon(cov['srs'])
                span = max(ext[2] - ext[0], ext[3] - ext[1], max(abs(v) for v in ext))
                tol = span * (1e-9 if same else 1e-6)
                if not contains_bbox(ext, info['bbox'], tol):
                    exc = max(ext[0] - info['bbox'][0], ext[1] - info['bbox'][1], info['bbox'][2] - ext[2], info['bbox'][3] - ext[3])
                    px = max((info['bbox'][2] - info['bbox'][0]) / info['size'][0], (info['bbox'][3] - info['bbox'][1]) / info['size'][1])
                    out.append(V('wms/bbox-outside-coverage/' + how,
                                 'source %s: BBOX %r (%s) exceeds the coverage extent %r by %.6g units (%.3g px): %s'
                                 % (name, info['bbox'], srs, ext, exc, exc / px if px else 0.0, call.url), case))
        fwd = set(k.upper() for k in (src.get('fwd') or []))
        extra = sorted(k for k in call.params if (k in DIM_KEYS or k.startswith('DIM_')) and k not in fwd)
        if extra:
            out.append(V('wms/dimension-not-forwardable', 'source %s (forward_req_params %r) received %r: %s'
                         % (name, src.get('fwd'), extra, call.url), case))
        sent = dict((k.upper(), v) for k, v in (req.get('dims') or {}).items())
        for k in sorted(fwd):
            if k in call.params and k in sent and call.params[k] != sent[k]:
                out.append(V('wms/forwarded-value-altered', 'source %s forwards %s: client sent %r, upstream received %r: %s'
                             % (name, k, sent[k], call.params[k], call.url), case))
    return out


def judge_record(rec, spec, case):
    out = []
    calls = [c for c in rec['calls'] if c.kind in ('map', 'tile', 'other')]
    q = rec['query']
    is_tile = rec['type'] == 'TiledSource'
    for name in rec['sources']:
        src = source_by_name(spec, name)
        if src is None:
            raise core.HarnessError('get_map of an unknown source %r' % (name,))
        if not calls:
            continue
        kind = 'tile' if is_tile else ('wms-combined' if len(rec['sources']) > 1 else 'wms')
        if src.get('coverage') and coverage_relation(q, src['coverage']) == 'disjoint':
            out.append(V('gate/coverage-disjoint/' + kind,
                         'source %s was contacted (%s) for a query more than 1 px away from its coverage: query %r'
                         % (name, calls[0].url, q), case))
        if src.get('res'):
            why = res_excluded(q, src['res'])
            if why:
                sig = {'tile': 'gate/res-range/tile', 'wms': 'gate/res-range/single-source',
                       'wms-combined': 'gate/res-range/combined-layers'}[kind]
                out.append(V(sig, 'source %s (%r) was contacted (%s) for a query %s: query %r'
                             % (name, src['res'], calls[0].url, why, q), case))
    if not is_tile and calls:
        src = source_by_name(spec, rec['sources'][0])
        if src.get('supported_srs'):
            exp = doc_best_srs(q['srs'], src['supported_srs'], spec.get('preferred'))
            if exp is not None:
                for c in calls:
                    if c.kind == 'map' and canon(c.info['srs'].upper()) not in exp:
                        out.append(V('wms/srs-not-the-documented-best',
                                     'source %s (supported_srs %r, preferred_src_proj %r) asked in %s for a %s query; '
                                     'documented choice is %s' % (src['name'], src['supported_srs'], spec.get('preferred'),
                                                                  c.info['srs'], q['srs'], sorted(exp)), case))
                        break
    return out


def classify(recs, orphans, spec, req):
    """(non-trivial reasons, classes) of one executed request."""
    nt = set()
    classes = ['req:' + (req['kind'] + req['version'] if req['kind'] == 'wms' else req['kind'])]
    ncalls = sum(len(r['calls']) for r in recs) + len(orphans)
    classes.append('upstream-calls:%s' % ('0' if ncalls == 0 else '1' if ncalls == 1 else '2+'))
    for r in recs:
        q = r['query']
        classes.append('get_map:%s:%s' % (r['type'], 'contacted' if r['calls'] else r['outcome']))
        if len(r['sources']) > 1:
            classes.append('combined-upstream-request')
        for name in r['sources']:
            src = source_by_name(spec, name)
            if src is None:
                continue
            if r['type'] == 'TiledSource':
                t = spec['tile']
                if grid_signature(t['source']['grid']) != grid_signature(t['cache_grid']):
                    nt.add('tile-grid-differs')
            else:
                if src.get('supported_srs'):
                    codes = [c.upper() for c in src['supported_srs']]
                    if q['srs'].upper() not in codes:
                        nt.add('srs-alias-only' if canon(q['srs']) in [canon(c) for c in codes] else 'srs-unsupported')
                if src.get('supported_formats') and mime_of(q['format']) not in [mime_of(f) for f in src['supported_formats']]:
                    nt.add('format-unsupported')
                if set(q['dims']) - set(k.upper() for k in (src.get('fwd') or [])):
                    nt.add('extra-dimensions')
                if set(q['dims']) & set(k.upper() for k in (src.get('fwd') or [])):
                    classes.append('dimension-forwarded')
            if src.get('coverage'):
                rel = coverage_relation(q, src['coverage'])
                classes.append('coverage:' + rel)
                if rel != 'inside':
                    nt.add('bbox-' + rel)
            if src.get('res'):
                if res_excluded(q, src['res']):
                    nt.add('res-excluded')
                elif res_near_limit(q, src['res']):
                    nt.add('res-near-limit')
    for c in [c for r in recs for c in r['calls']] + list(orphans):
        if c.kind == 'map':
            classes.append('upstream-srs:' + str(c.info.get('srs')).upper())
            classes.append('upstream-wms:' + str(c.info.get('version')))
        elif c.kind == 'tile':
            classes.append('upstream-tile')
    return nt, sorted(set(classes))


def register_upstream(up, spec):
    for s in spec['wms_sources']:
        if s['host'] not in up.servers:
            up.add_wms(s['host'], render_fn=_flat_image)
    if spec.get('tile'):
        ts = spec['tile']['source']
        g = mp_grid(ts['grid'])
        up.add_tiles(ts['host'], RefGrid.from_grid(g), g.srs.srs_code, ts['kind'], render_fn=_flat_image)


def run_case(case, stats, record=True, exclude=True):
    """Execute one (configuration, requests) case; returns all violations (each with a reduced, replayable case)."""
    import json
    from webtest import TestApp
    case = json.loads(json.dumps(core.jsonable(case)))
    spec = case['conf']
    if exclude:
        spec, _ = apply_exclusions(spec, stats if record else None)
    violations = []
    base = tempfile.mkdtemp(prefix='c17_')
    try:
        conf = build_conf(spec, base)
        try:
            app = TestApp(make_app(conf, base))
        except Exception as e:
            raise core.HarnessError('generated configuration rejected: %r\n%r' % (e, conf))
        up = Upstream(None)
        register_upstream(up, spec)
        with up, Probe(up) as probe, Rendezvous(case.get('schedule'), stats):
            for req in case['requests']:
                up.clear()
                probe.clear()
                resp = app.get(request_url(req), status='*', expect_errors=True)
                recs = list(probe.records)
                orphans = list(probe.orphans)
                sub = {'conf': spec, 'requests': [req]}
                vs = []
                by_call = {}
                for r in recs:
                    for c in r['calls']:
                        by_call[id(c)] = r
                for c in up.calls():
                    if c.kind == 'unknown':
                        raise core.HarnessError('call to unregistered host: %s' % c.url)
                    if c.kind == 'map':
                        vs.extend(judge_map_call(c, by_call.get(id(c)), spec, req, sub))
                    elif c.kind == 'tile':
                        if c.info.get('in_grid') is not True:
                            t = c.info.get('tile')
                            sizes = up.servers[spec['tile']['source']['host']].grid.grid_sizes
                            vs.append(V('tile/address-outside-source-grid', 'tile upstream asked for %r; the source grid has '
                                        '%d levels, size of that level %r: %s'
                                        % (t, len(sizes), sizes[t[2]] if t and 0 <= t[2] < len(sizes) else None, c.url), sub))
                    elif c.kind == 'other' and c.info.get('undecodable'):
                        vs.append(V('tile/undecodable-address', 'tile upstream asked for %s' % c.url, sub))
                for r in recs:
                    vs.extend(judge_record(r, spec, sub))
                if record:
                    nt, classes = classify(recs, orphans, spec, req)
                    classes.append('status:%d' % resp.status_int)
                    if orphans:
                        stats.notes['upstream-call-outside-get_map'] += len(orphans)
                    for name in _errors.drain():
                        stats.notes['by-catch:mapproxy-logged-' + name] += 1
                    stats.case(key=sub, nontrivial=bool(nt), classes=classes + ['nt:' + n for n in sorted(nt)],
                               sample={'request': req, 'upstream': [c.url for c in up.calls()][:4]})
                violations.extend(vs)
    finally:
        shutil.rmtree(base, ignore_errors=True)
    return violations


def reduce_case(v):
    """Cheap, deterministic reduction instead of Hypothesis shrinking (an evaluation costs ~0.5 s): the failing
    request alone, on a configuration cut down to what that request can reach; kept only if it still fails with
    the same signature."""
    case = v.case
    spec, req = case['conf'], case['requests'][0]
    lnames = req['layers'] if req['kind'] == 'wms' else [req['layer']]
    small = dict(spec)
    small['layers'] = [l for l in spec['layers'] if l['name'] in lnames]
    reach = set()
    for ln in lnames:
        reach.update(sources_of_layer(spec, ln))
    keep_caches = set()

    def walk(n):
        for c in all_caches(spec):
            if c['name'] == n:
                keep_caches.add(n)
                for s_ in c['sources']:
                    walk(s_)
    for l in small['layers']:
        for s_ in l['sources']:
            walk(s_)
    small['wms_sources'] = [s_ for s_ in spec['wms_sources'] if s_['name'] in reach]
    small['caches'] = [c for c in spec['caches'] if c['name'] in keep_caches]
    if spec.get('tile') and 't0' not in reach:
        small['tile'] = None
    elif spec.get('tile') and spec['tile'].get('cascade') and 'cc0' not in keep_caches:
        small['tile'] = dict(spec['tile'], cascade=None)
    reduced = {'conf': small, 'requests': [req]}
    try:
        again = run_case(reduced, core.Stats(), record=False, exclude=False)
    except Exception:
        return v
    for w in again:
        if w.signature == v.signature:
            return w
    return v


def check_case(case, stats):
    vs = run_case(case, stats)
    if not vs:
        return None
    seen = set(v.signature for v in stats.violations)
    for v in vs:
        if v.signature not in seen:
            return reduce_case(v)
    return vs[0]


def shard(shard_no, nshards, seed, tier):
    st_ = core.Stats()
    n = (960 if tier == 'quick' else 32000) // nshards
    core.hyp_search(cases(), check_case, st_, max_examples=n, seed=seed, shrink=False, max_signatures=2)
    return st_


def run(tier, seed, stats):
    stats.merge(core.parallel(shard, 16, seed, tier))


def replay(case, stats):
    # committed cases are replayed as written (the exclusion of an open finding must not rewrite its own demonstration)
    return run_case(case, stats, exclude=False)
