"""C15 - Parallel fan-out returns every result exactly once and in input order.

Code under test: mapproxy/util/async_.py (ThreadPool.imap/map/starmap/starcall -> map_each, the
module-level helpers imap/starmap/starcall, the `use_result_objects` / raise modes).

Harness (DESIGN.md section 16): every work item i is a task that announces *started(i)*, blocks on its
own event and then returns a distinct value or raises a distinct, pre-built exception object.  A
controller thread owns the schedule: it releases the item events in a generated order and interleaves
*consume k results* grants for the consumer thread (the thread that iterates the pool's result
iterator), so that results are produced while the consumer is blocked in the first drain loop, while
it is suspended between two `next()` calls, or after it reached `task_queue.join()`.  After each action
the controller waits for quiescence (no harness event for a short quiet window and no released task
still running); the quiet window only decides which path of the code under test is covered, never a
verdict - the oracle accepts exactly the outcomes that are correct under *every* timing.

A fresh pool is used per case, like every caller in the tree does (cache/tile.py, service/wms.py,
cache/s3.py, cache/azureblob.py).
"""
import itertools
import os
import queue as _queue
import threading
import time

from hypothesis import strategies as st

from .. import core

PROPERTY = 'C15'
LEVEL = 'exploration'
RULE = ('A case = (n items, entry point, pool size, result mode, failing subset, schedule). Schedule = a '
        'sequence of release(i) actions (a permutation of the items = intended completion order) interleaved '
        'with "consumer may take k results" grants. Bounded-exhaustive part: all permutations x pool sizes 1..n+1 '
        '(0..2 for n = 0) x all failing subsets x {raise, result objects, result objects with the in-tree caller '
        'pattern "shutdown(True) and stop at the first reported error"} x entry points {Pool.imap (1 and 2 iterables), '
        'Pool.map, Pool.starmap (1- and 2-tuples), Pool.starcall (0- and 1-arg callables), module-level '
        'imap/starmap/starcall}; for n <= 3 (quick) / 4 (thorough) every entry point runs under 6 fixed consume '
        'patterns (eager, late, first-then-all, stepwise, lag, half); for n = 4 (quick) / 5 (thorough) Pool.imap runs '
        'under all 6 patterns and the other entry points under the eager consumer. Random part (Hypothesis): '
        'n = 5..6 (quick) / 6 (thorough) with free interleavings of grants (k in 0..3 or unlimited) and burst releases '
        '(no quiescence wait in between). Two harness-owned extras (enumerated and random): (a) forced-shutdown race - the '
        'pool task queue is a queue.Queue subclass that, during shutdown(force=True) in the consumer thread, lets idle-'
        'becoming workers take queued tasks between a non-empty empty() answer and the following get(block=False) '
        '(more items than workers, failing item at every position, raise mode and the abandon caller pattern); '
        '(b) injected fault - ThreadWorker.start raises RuntimeError("can\'t start new thread") for the first / odd / '
        'all-but-first / all workers; (c) held result - the pool result queue is a queue.Queue subclass that holds back '
        'the put() of a generated item (bounded) when the worker has already called task_done() for it. A case is '
        'non-trivial when the observed completion order differs from the '
        'input order, or a failing item is not the last one to complete; distinct = distinct case descriptions.')
ASSUMPTIONS = [
    'a fresh pool per fan-out (what every in-tree caller does); reuse of a pool after a raise is not explored',
    'task results are not shaped like sys.exc_info() (a 3-tuple with an Exception in the middle) - the pool detects errors by shape by design',
    'tasks raise Exception subclasses (BaseException such as KeyboardInterrupt is out of scope)',
    'liveness is bounded: the consumer must finish / the workers must exit within a 30 s watchdog (VERIF_C15_WATCHDOG) after every item was released; a shard stops searching after its first watchdog expiry (recorded as inconclusive)',
    'completion order is owned at the granularity "task body finished"; the order in which two workers reach result_queue.put after a burst release is left to the OS',
    'empty input (n = 0) only for the imap/map entry points (star entry points index args[0])',
    'worker-start fault cases judge termination (8 s watchdog, VERIF_C15_FAULT_WATCHDOG) and the delivered results only: either correct results or the injected RuntimeError itself reaches the caller; workers started before the failure are retired by the harness, not judged',
]

WATCHDOG = float(os.environ.get('VERIF_C15_WATCHDOG', '30'))
QUIET = float(os.environ.get('VERIF_C15_QUIET', '0.0004'))
# fault-injected cases (no worker can be started): nothing but a handful of thread switches is needed to
# terminate, so a hang surfaces after a much shorter watchdog
FAULT_WATCHDOG = float(os.environ.get('VERIF_C15_FAULT_WATCHDOG', str(min(WATCHDOG, 8.0))))
HOLD_WAIT = 0.3  # upper bound for holding back a worker's result_queue.put (coverage only)
RACE_WAIT = 0.25  # upper bound for letting the workers through inside a pre-empted empty() (coverage only)

SIG_SEQ_RAISE = 'C15/sequential/raise-mode/exc_info-yielded-as-value'
SIG_STAR_ARITY = 'C15/starmap-starcall/single-item-shortcut-keyed-on-arity/items-never-executed'


def _async():
    from mapproxy.util import async_
    return async_


def open_sigs():
    if os.environ.get('VERIF_C15_NO_EXCLUSIONS'):
        return set()
    return core.open_signatures(PROPERTY)


# ------------------------------------------------------------------------------------------------
# work items

VALUES = [0, ('v', 1), None, (3, 'm', 3), [], 'five', 6.5, {'i': 7}]


class ItemError(Exception):
    pass


class ItemLookupError(KeyError):
    pass


def same(a, b):
    return type(a) is type(b) and a == b


ENTRIES_POOL = ['imap', 'imap2', 'map', 'starmap1', 'starmap2', 'starcall1', 'starcall2']
ENTRIES_MOD = ['mod_imap', 'mod_starmap1', 'mod_starmap2', 'mod_starcall1', 'mod_starcall2']
STAR_ARITY1 = ('starmap1', 'starcall1', 'mod_starmap1', 'mod_starcall1')
STAR = tuple(e for e in ENTRIES_POOL + ENTRIES_MOD if 'star' in e)


class Run(object):
    """State of one executing case, shared by controller, consumer and tasks."""

    def __init__(self, case):
        self.case = case
        self.n = case['n']
        self.fail = set(case['fail'])
        self.cond = threading.Condition()
        self.counter = 0
        self.started = set()
        self.released = set()
        self.finish_log = []
        self.release_ev = [threading.Event() for _ in range(self.n)]
        self.excs = {}
        for i in self.fail:
            self.excs[i] = (ItemError if i % 2 == 0 else ItemLookupError)('item %d' % i)
        self.permits = 0
        self.unlimited = False
        self.items = []
        self.terminal = None
        self.consumer_done = threading.Event()
        self.workers = []
        self.pools = []
        self.join_at = None
        self.single_calls = 0
        # forced-shutdown race (case['race']) and worker-start fault (case['fault'])
        self.consumer_ident = None
        self.in_forced = False
        self.race_checks = 0
        self.race_preempted = False
        self.race_drained = False
        self.forced_done = False
        self.start_calls = 0
        self.injected = []
        self.fault_started = []
        self.leftover = False
        # held result put (case['hold'] = item index)
        self.puts = {}
        self.done_calls = {}
        self.consumer_in_get = False
        self.hold_used = False
        self.hold_window = False

    def bump(self):
        with self.cond:
            self.counter += 1
            self.cond.notify_all()

    # -- task side
    def task(self, i, *rest):
        with self.cond:
            self.started.add(i)
            self.counter += 1
            self.cond.notify_all()
        if not self.release_ev[i].wait(WATCHDOG * 4):
            raise core.HarnessError('item %d was never released' % i)  # pragma: no cover
        with self.cond:
            self.finish_log.append(i)
            self.counter += 1
            self.cond.notify_all()
        if i in self.fail:
            raise self.excs[i]
        return VALUES[i]

    # -- consumer side
    def wait_permit(self):
        with self.cond:
            while not self.unlimited and self.permits == 0:
                self.counter += 1
                self.cond.notify_all()
                self.cond.wait()
            if not self.unlimited:
                self.permits -= 1

    # -- controller side
    def grant(self, k):
        with self.cond:
            if k is None:
                self.unlimited = True
            else:
                self.permits += k
            self.counter += 1
            self.cond.notify_all()

    def release(self, i):
        with self.cond:
            self.released.add(i)
        self.release_ev[i].set()

    def settle(self):
        deadline = time.monotonic() + WATCHDOG
        with self.cond:
            while True:
                c = self.counter
                self.cond.wait(QUIET)
                running = [i for i in self.started if i in self.released and i not in self.finish_log]
                if self.counter == c and not running:
                    return
                if time.monotonic() > deadline:  # pragma: no cover
                    raise core.HarnessError('harness did not become quiescent: running=%r' % (running,))

    def await_forced_shutdown(self):
        """race cases: give the consumer time to notice the failed item and run its forced shutdown before
        the schedule goes on (bounded; only decides whether the race window is covered)"""
        deadline = time.monotonic() + 0.5
        f = min(self.fail)
        with self.cond:
            # the consumer can only get there once the failed item (abandon: and every item before it) is done
            need = [f] if self.case['mode'] == 'raise' else list(range(f + 1))
            if any(i not in self.finish_log for i in need):
                return
            while not (self.forced_done or self.consumer_done.is_set()) and time.monotonic() < deadline:
                self.cond.wait(0.01)

    def await_started(self, i):
        """race cases: release an item only once a worker runs it (bounded; coverage only)"""
        deadline = time.monotonic() + 1.0
        with self.cond:
            while i not in self.started and not self.consumer_done.is_set() and time.monotonic() < deadline:
                self.cond.wait(0.01)

    def preempt(self, q):
        """called in the consumer thread between its task_queue.empty() == False and the following
        get(block=False) of a forced shutdown: behave like a thread that is pre-empted right there - idle-
        becoming workers are let through to the task queue."""
        how = self.case['race']['release']
        before = q.qsize()
        with self.cond:
            running = sorted(i for i in self.started if i not in self.released)
        if how == 'all':
            targets = list(range(self.n))  # tasks picked up now run through as well
            goal = 0
        else:
            targets = running[:1] if how == 'one' else running[-1:]  # 'one' / 'last'
            goal = before - 1
        if not targets:
            return
        self.race_preempted = True
        for i in targets:
            self.release(i)
        deadline = time.monotonic() + RACE_WAIT
        while q.qsize() > goal and time.monotonic() < deadline:
            time.sleep(0.0002)
        self.race_drained = q.qsize() == 0


class HoldQueue(_queue.Queue):
    """The pool's result queue in hold cases.  The put() of the generated item is held back - like a worker
    pre-empted right before it - but only if the worker already reported the task as done to the task queue
    (task_done() before put(): the window in which task_queue.join() can return while the result is not
    visible yet).  The hold ends when the consumer finished, when the consumer is blocked in get() on the
    empty queue (it waits for exactly this result) or after HOLD_WAIT; then the real put happens.  With
    task_done() after put() - the order in the tree - there is no such window and nothing is held."""

    def __init__(self, R):
        _queue.Queue.__init__(self)
        self._c15_run = R

    def get(self, block=True, timeout=None):
        R = self._c15_run
        if threading.get_ident() != R.consumer_ident:
            return _queue.Queue.get(self, block, timeout)
        R.consumer_in_get = True
        try:
            return _queue.Queue.get(self, block, timeout)
        finally:
            R.consumer_in_get = False

    def put(self, item, block=True, timeout=None):
        R = self._c15_run
        tid = threading.get_ident()
        if tid != R.consumer_ident and isinstance(item, tuple) and len(item) == 2:
            R.puts[tid] = R.puts.get(tid, 0) + 1
            if item[0] == R.case['hold'] and not R.hold_used:
                R.hold_used = True
                if R.done_calls.get(tid, 0) >= R.puts[tid]:
                    R.hold_window = True
                    deadline = time.monotonic() + HOLD_WAIT
                    waiting = 0
                    while time.monotonic() < deadline and not R.consumer_done.is_set():
                        waiting = waiting + 1 if (R.consumer_in_get and self.qsize() == 0) else 0
                        if waiting >= 3:
                            break
                        time.sleep(0.0005)
        return _queue.Queue.put(self, item, block, timeout)


class RaceQueue(_queue.Queue):
    """queue.Queue used as the pool's task queue in race cases: the generated k-th non-empty answer of
    empty() given to the consumer thread *during shutdown(force=True)* is delayed while workers take tasks."""

    def __init__(self, R):
        _queue.Queue.__init__(self)
        self._c15_run = R

    def empty(self):
        is_empty = _queue.Queue.empty(self)
        R = self._c15_run
        if not is_empty and R.in_forced and threading.get_ident() == R.consumer_ident:
            k = R.race_checks
            R.race_checks += 1
            if k == R.case['race']['at']:
                R.preempt(self)
        return is_empty


def make_call(R, pool):
    """-> zero-arg callable performing the fan-out call of the case's entry point"""
    a = _async()
    case = R.case
    n = R.n
    entry = case['entry']
    kw = {}
    if case['mode'] in ('objects', 'abandon'):
        kw['use_result_objects'] = True
    f = R.task
    idx = list(range(n))
    if entry == 'imap':
        return lambda: pool.imap(f, idx, **kw)
    if entry == 'imap2':
        return lambda: pool.imap(f, idx, ['t'] * n, **kw)
    if entry == 'map':
        return lambda: pool.map(f, idx, **kw)
    if entry == 'starmap1':
        return lambda: pool.starmap(f, [(i,) for i in idx], **kw)
    if entry == 'starmap2':
        return lambda: pool.starmap(f, [(i, 't') for i in idx], **kw)
    if entry == 'starcall1':
        return lambda: pool.starcall([((lambda i=i: f(i)),) for i in idx], **kw)
    if entry == 'starcall2':
        return lambda: pool.starcall([(f, i) for i in idx], **kw)
    if entry == 'mod_imap':
        return lambda: a.imap(f, idx)
    if entry == 'mod_starmap1':
        return lambda: a.starmap(f, [(i,) for i in idx])
    if entry == 'mod_starmap2':
        return lambda: a.starmap(f, [(i, 't') for i in idx])
    if entry == 'mod_starcall1':
        return lambda: a.starcall([((lambda i=i: f(i)),) for i in idx])
    if entry == 'mod_starcall2':
        return lambda: a.starcall([(f, i) for i in idx])
    raise core.HarnessError('unknown entry %r' % entry)


def consumer_main(R, call, pool):
    a = _async()
    abandon = R.case['mode'] == 'abandon'
    R.consumer_ident = threading.get_ident()
    try:
        if R.case['entry'] == 'map':
            R.wait_permit()
            try:
                res = call()
            except BaseException as e:
                R.terminal = ('raise', e)
                return
            if isinstance(res, list):
                R.items.extend(res)
                R.terminal = ('stop',)
            else:
                R.terminal = ('not-a-list', repr(res))
            return
        try:
            it = call()  # the single-item shortcut runs the task right here
        except BaseException as e:
            R.terminal = ('raise', e)
            return
        while True:
            R.wait_permit()
            try:
                v = next(it)
            except StopIteration:
                R.terminal = ('stop',)
                return
            except BaseException as e:
                R.terminal = ('raise', e)
                return
            with R.cond:
                R.items.append(v)
                R.counter += 1
                R.cond.notify_all()
            if abandon and isinstance(v, a.AsyncResult) and v.exception is not None:
                # what service/wms.py and cache/tile.py do at the first reported error
                try:
                    pool.shutdown(True)
                except BaseException as e:
                    # the in-tree callers would propagate this instead of the item's exception
                    R.terminal = ('raise', e)
                    return
                R.terminal = ('abandon',)
                return
    finally:
        R.consumer_done.set()
        R.bump()


class traced_pools(object):
    """Wraps (does not replace) ThreadPool._init_pool / _single_call for the duration of one case so the
    harness learns which worker threads belong to the case, when the consumer reaches task_queue.join()
    and whether the single-item shortcut was taken (only used for class counters and signatures)."""

    def __init__(self, R):
        self.R = R

    def __enter__(self):
        a = _async()
        R = self.R
        self.orig = orig = a.ThreadPool.__dict__['_init_pool']

        def _init_pool(pool_self):
            R.pools.append(pool_self)
            if R.case.get('race') and not isinstance(pool_self.task_queue, RaceQueue):
                # no task is queued and no worker exists yet
                pool_self.task_queue = RaceQueue(R)
                orig_shutdown = pool_self.shutdown

                def shutdown(force=False):
                    if force:
                        R.in_forced = True
                    try:
                        return orig_shutdown(force)
                    finally:
                        R.in_forced = False
                        if force:
                            R.forced_done = True
                            R.bump()
                pool_self.shutdown = shutdown
            if R.case.get('hold') is not None and not isinstance(pool_self.result_queue, HoldQueue):
                pool_self.result_queue = HoldQueue(R)
                tq = pool_self.task_queue
                orig_task_done = tq.task_done

                def task_done():
                    tid = threading.get_ident()
                    R.done_calls[tid] = R.done_calls.get(tid, 0) + 1
                    return orig_task_done()
                tq.task_done = task_done
            q = pool_self.task_queue
            if not getattr(q, '_c15_traced', False):
                orig_join = q.join

                def join():
                    if R.join_at is None:
                        R.join_at = len(R.items)
                    R.bump()
                    return orig_join()
                q.join = join
                q._c15_traced = True
            workers = orig(pool_self)
            R.workers.extend(workers or [])
            return workers
        self.orig_single = orig_single = a.ThreadPool.__dict__['_single_call']

        def _single_call(pool_self, *args, **kw):
            R.single_calls += 1
            return orig_single(pool_self, *args, **kw)
        a.ThreadPool._init_pool = _init_pool
        a.ThreadPool._single_call = _single_call
        self.fault = R.case.get('fault')
        if self.fault:
            kind = self.fault
            self.own_start = a.ThreadWorker.__dict__.get('start')
            orig_start = a.ThreadWorker.start

            def start(thread_self):
                k = R.start_calls
                R.start_calls += 1
                if {'first': k == 0, 'odd': k % 2 == 1, 'all-but-first': k >= 1, 'all': True}[kind]:
                    e = RuntimeError("can't start new thread")  # what CPython raises at the thread limit
                    R.injected.append(e)
                    raise e
                r = orig_start(thread_self)
                R.fault_started.append(thread_self)
                return r
            a.ThreadWorker.start = start
        return self

    def __exit__(self, *exc):
        a = _async()
        a.ThreadPool._init_pool = self.orig
        a.ThreadPool._single_call = self.orig_single
        if self.fault:
            if self.own_start is not None:
                a.ThreadWorker.start = self.own_start
            else:
                del a.ThreadWorker.start
        return False


class ConsumerHost(object):
    """One reusable consumer thread per shard (thread creation is the dominant harness cost); replaced when
    a case left it blocked (deadlock finding)."""

    def __init__(self):
        self.thread = None
        self.jobs = None

    def _loop(self, jobs):
        while True:
            job = jobs.get()
            if job is None:
                return
            job()

    def submit(self, job):
        if self.thread is None or not self.thread.is_alive():
            import queue
            self.jobs = queue.SimpleQueue()
            self.thread = threading.Thread(target=self._loop, args=(self.jobs,), name='c15-consumer')
            self.thread.daemon = True
            self.thread.start()
        self.jobs.put(job)

    def abandon(self):
        """the current thread is stuck inside the code under test: let it die whenever it comes back"""
        if self.jobs is not None:
            self.jobs.put(None)
        self.thread = None
        self.jobs = None

    def close(self):
        if self.thread is not None:
            self.jobs.put(None)
            self.thread.join(WATCHDOG)
            self.thread = None

    def __enter__(self):
        return self

    def __exit__(self, *exc):
        self.close()
        return False


def execute(case, host):
    """Run one case -> Run object with .items/.terminal/.problems filled in."""
    a = _async()
    R = Run(case)
    R.problems = []
    pool = None
    if case['pool'] is not None:
        pool = a.ThreadPool(case['pool'])
    call = make_call(R, pool)
    with traced_pools(R):
        try:
            host.submit(lambda: consumer_main(R, call, pool))
            for act in case['actions']:
                if act[0] == 'w':
                    R.await_forced_shutdown()
                elif act[0] == 'r':
                    if case.get('race') and case['race'].get('sync') and not R.forced_done:
                        R.await_started(act[1])
                    R.release(act[1])
                    if len(act) > 2 and act[2]:
                        continue  # burst: no quiescence wait
                    R.settle()
                else:
                    R.grant(act[1])
                    R.settle()
        finally:
            # whatever happened: let every task and the consumer run to the end
            for i in range(R.n):
                R.release(i)
            R.grant(None)
        wd = FAULT_WATCHDOG if case.get('fault') else WATCHDOG
        if not R.consumer_done.wait(wd):
            # every item is released and the consumer may take everything: it must terminate
            host.abandon()
            R.problems.append(('deadlock', 'consumer still blocked %.0f s after every item was released '
                                           '(results so far: %d)' % (wd, len(R.items))))
        if case.get('fault'):
            # Only termination and the delivered results are judged here.  Workers that were started before
            # the injected start failure are not shut down by the code under test; the harness retires them.
            for w in R.fault_started:
                if w.is_alive():
                    w.task_queue.put(None)
            if not R.problems:
                for w in R.fault_started:
                    w.join(WATCHDOG)
                    if w.is_alive():
                        R.leftover = True
            return R
        term = R.terminal
        foreign = bool(term and term[0] == 'raise' and not any(term[1] is e for e in R.excs.values()))
        # (a foreign exception is a violation by itself: do not spend a watchdog period on the pool threads)
        deadline = time.monotonic() + (1.0 if foreign else WATCHDOG)
        alive = []
        for w in R.workers:
            w.join(max(0.0, deadline - time.monotonic()))
            if w.is_alive():
                alive.append(w.name)
        if alive and not R.problems and not foreign:
            R.problems.append(('workers-not-exiting', '%d of %d pool threads still alive %.0f s after the '
                                                      'fan-out ended and every item was released'
                               % (len(alive), len(R.workers), WATCHDOG)))
    return R


# ------------------------------------------------------------------------------------------------
# oracle

def is_exc_info(v):
    return isinstance(v, tuple) and len(v) == 3 and isinstance(v[1], BaseException)


def token(R, v):
    """decode a plain (raise-mode) yielded thing"""
    if is_exc_info(v):
        for j, e in R.excs.items():
            if v[1] is e:
                return ('e', j)
        return ('?', 'exc_info of %r' % (v[1],))
    for q in range(R.n):
        if same(v, VALUES[q]):
            return ('v', q)
    return ('?', repr(v)[:80])


def path_of(R):
    if R.workers:
        return 'threaded'
    if R.single_calls:
        return 'single-call'
    return 'sequential'


def judge(R):
    """-> None or (symptom, message).  Accepts every outcome that is correct under some timing."""
    a = _async()
    case = R.case
    n = R.n
    F = sorted(R.fail)
    mode = case['mode']
    if R.problems:
        return R.problems[0]
    term = R.terminal
    if term is None:  # pragma: no cover
        raise core.HarnessError('consumer finished without terminal state')
    if term[0] == 'raise' and isinstance(term[1], core.HarnessError):
        raise term[1]
    if term[0] == 'not-a-list':
        return ('map-not-a-list', 'Pool.map returned %s' % term[1])

    if mode == 'raise':
        limit = F[0] if F else n
        seen = set()
        for p, v in enumerate(R.items):
            t = token(R, v)
            if p < limit and t == ('v', p):
                seen.add(p)
                continue
            if t[0] == 'e':
                return ('raise-mode/exc_info-yielded-as-value',
                        'position %d of the result sequence is the exc_info tuple of item %d (%r) instead of '
                        'the exception being raised' % (p, t[1], R.excs[t[1]]))
            if t[0] == 'v' and t[1] in seen:
                return ('duplicate-result', 'value of item %d delivered again at position %d' % (t[1], p))
            if t[0] == 'v' and p >= limit and t[1] == p:
                return ('raise-mode/exception-skipped',
                        'item %d failed but the sequence continues with the value of item %d' % (limit, p))
            if t[0] == 'v':
                return ('out-of-order', 'position %d carries the value of item %d' % (p, t[1]))
            return ('foreign-value', 'position %d carries %s' % (p, t[1]))
        k = len(R.items)
        if term[0] == 'raise':
            e = term[1]
            if any(e is x for x in R.injected):
                return None  # the injected worker-start failure itself reached the caller: reported, terminated
            for j in F:
                if e is R.excs[j]:
                    return None
            return ('foreign-exception/' + type(e).__name__,
                    'the fan-out raised %r which no item raised (failing items: %r)' % (e, F))
        # normal end of the sequence (nothing was shut down, so every item must have run)
        if not F:
            if k == n:
                return None
            return missing(R, k)
        if any(i not in R.started for i in range(n)):
            return missing(R, k)
        if k == limit:
            return ('raise-mode/exception-not-raised',
                    'items %r failed but the sequence ended normally after %d values' % (F, k))
        return missing(R, k)

    # result-object modes
    for p, v in enumerate(R.items):
        if p >= n:
            return ('extra-results', '%d results for %d inputs' % (len(R.items), n))
        if not isinstance(v, a.AsyncResult):
            return ('result-mode/not-an-AsyncResult', 'position %d carries %r' % (p, v))
        if p in R.fail:
            ex = v.exception
            if ex is None:
                return ('exception-swallowed', 'item %d raised %r but its AsyncResult has no exception '
                                               '(result=%r)' % (p, R.excs[p], v.result))
            if not is_exc_info(ex):
                return ('result-mode/exception-not-exc_info', 'AsyncResult.exception of item %d is %r' % (p, ex))
            if ex[1] is not R.excs[p]:
                return ('exception-misattributed', 'position %d reports %r, item %d raised %r'
                        % (p, ex[1], p, R.excs[p]))
            if ex[0] is not type(R.excs[p]) or v.result is not None:
                return ('result-mode/exception-malformed', 'position %d: exception=%r result=%r' % (p, ex, v.result))
        else:
            if v.exception is not None:
                return ('exception-misattributed', 'item %d did not fail but position %d reports %r'
                        % (p, p, v.exception))
            t = token(R, v.result)
            if t != ('v', p):
                if t[0] == 'v':
                    return ('duplicate-result' if t[1] < p else 'out-of-order',
                            'position %d carries the value of item %d' % (p, t[1]))
                if t[0] == 'e':
                    return ('result-mode/exc_info-as-result', 'position %d carries the exc_info of item %d as '
                                                              'result' % (p, t[1]))
                return ('foreign-value', 'position %d carries %s' % (p, t[1]))
    k = len(R.items)
    if term[0] == 'raise':
        e = term[1]
        if any(e is x for x in R.injected):
            return None
        if any(e is R.excs[j] for j in F):
            return ('result-mode/exception-raised', 'result-object mode raised %r instead of reporting it' % (e,))
        return ('foreign-exception/' + type(e).__name__, 'the fan-out raised %r which no item raised' % (e,))
    if term[0] == 'abandon':
        if k - 1 != F[0]:  # pragma: no cover - implied by the per-position checks
            raise core.HarnessError('abandon at %d, first failing %d' % (k - 1, F[0]))
        return None
    if k != n:
        return missing(R, k)
    return None


def missing(R, k):
    never = [i for i in range(R.n) if i not in R.started]
    if never:
        return ('items-never-executed', 'the sequence ended after %d of %d results; items %r were never executed'
                % (k, R.n, never))
    return ('results-missing', 'the sequence ended after %d of %d results although every item ran' % (k, R.n))


def signature(R, symptom):
    case = R.case
    if (symptom == 'items-never-executed' and case['entry'] in STAR_ARITY1 and R.n >= 2
            and R.started <= {0} and not R.workers):
        return SIG_STAR_ARITY
    if case.get('fault'):
        return 'C15/worker-start-failure/%s' % symptom
    if case.get('race') and R.race_preempted:
        return 'C15/forced-shutdown-race/%s' % symptom
    if R.hold_window:
        return 'C15/result-put-held-after-task_done/%s' % symptom
    return 'C15/%s/%s' % (path_of(R), symptom)


def run_case(case, stats, ses):
    R = execute(case, ses.host)
    if R.problems:
        ses.expired += 1
    res = judge(R)
    # classification
    order = list(R.finish_log)
    nt = order != sorted(order) or any(i in R.fail for i in order[:-1])
    path = path_of(R)
    classes = ['n:%d' % R.n, 'entry:' + case['entry'], 'mode:' + case['mode'], 'path:' + path,
               'failing:%d' % min(len(R.fail), 3)]
    if case['pool'] is not None and R.n:
        classes.append('pool:' + ('lt-n' if case['pool'] < R.n else 'eq-n' if case['pool'] == R.n else 'gt-n'))
    if case.get('pattern'):
        classes.append('consume:' + case['pattern'])
    if order != sorted(order):
        classes.append('completion-order!=input-order')
    if any(i in R.fail for i in order[:-1]):
        classes.append('failing-item-not-last-to-complete')
    if path == 'threaded' and R.terminal and R.terminal[0] == 'stop':
        ja = R.join_at
        total = len(R.items)
        if case['entry'] != 'map' and ja is not None:
            if ja == 0:
                classes.append('drain:all-after-join')
            elif ja >= total:
                classes.append('drain:all-before-join')
            else:
                classes.append('drain:both-phases')
    if R.terminal:
        classes.append('end:' + R.terminal[0])
        if R.terminal[0] == 'raise' and case['mode'] == 'raise' and R.fail:
            classes.append('raised-before-first-failing-position' if len(R.items) < min(R.fail)
                           else 'raised-at-first-failing-position')
    if any(a_[0] == 'r' and len(a_) > 2 and a_[2] for a_ in case['actions']):
        classes.append('burst-release')
    if case.get('race'):
        classes.append('race:' + ('worker-let-through-in-forced-shutdown' if R.race_preempted
                                  else 'no-forced-shutdown-with-queued-tasks'))
        if R.race_drained:
            classes.append('race:queue-emptied-between-empty()-and-get()')
    if case.get('hold') is not None:
        classes.append('hold:' + ('put-held-in-window-after-task_done' if R.hold_window
                                  else 'no-window(task_done-after-put)' if R.hold_used else 'item-result-never-put'))
    if case.get('fault'):
        classes.append('fault:' + case['fault'])
        started = len(R.fault_started)
        classes.append('fault:workers-started-%s' % ('0' if not started else '>=1'))
        if R.terminal and R.terminal[0] == 'raise' and any(R.terminal[1] is x for x in R.injected):
            classes.append('fault:start-error-propagated')
        if R.leftover:
            stats.notes['fault-case worker did not retire after harness sentinel'] += 1
    stats.case(key=case, nontrivial=nt, classes=classes, sample=case)
    if res is None:
        return None
    symptom, msg = res
    sig = signature(R, symptom)
    return core.Violation(sig, '%s (entry %s, pool size %r, mode %s, n=%d, failing %r, completion order %r)'
                          % (msg, case['entry'], case['pool'], case['mode'], R.n, sorted(R.fail), order), case)


# ------------------------------------------------------------------------------------------------
# exclusion of open findings (by construction)

_probe_cache = {}


def route(entry, n, size):
    """(pool size, 'single' | 'map_each' | None) the code under test uses for n items through this entry point;
    asked from the code itself with a pool whose two back ends are stubbed (no task is executed)."""
    key = (entry, n, size)
    if key in _probe_cache:
        return _probe_cache[key]
    a = _async()
    seen = {'size': None, 'route': None}

    Base = a.ThreadPool

    class Probe(Base):
        def __init__(self, size=4):
            Base.__init__(self, size)
            seen['size'] = size

        def _single_call(self, *args, **kw):
            seen['route'] = 'single'
            return iter(())

        def map_each(self, *args, **kw):
            seen['route'] = 'map_each'
            return iter(())

    f = lambda *args: None  # noqa
    idx = list(range(n))
    args = {'imap': (f, idx), 'imap2': (f, idx, ['t'] * n), 'map': (f, idx),
            'starmap1': (f, [(i,) for i in idx]), 'starmap2': (f, [(i, 't') for i in idx]),
            'starcall1': ([(f,) for i in idx],), 'starcall2': ([(f, i) for i in idx],)}
    name = entry[4:] if entry.startswith('mod_') else entry
    try:
        if entry.startswith('mod_'):
            a.ThreadPool = Probe
            try:
                getattr(a, name.rstrip('12'))(*args[name])
            finally:
                a.ThreadPool = Base
        else:
            getattr(Probe(size), name.rstrip('12'))(*args[name])
    except Exception:
        pass  # the real run will show it
    _probe_cache[key] = (seen['size'], seen['route'])
    return _probe_cache[key]


def exclusion(case, opened):
    """-> name of the open finding whose construct this case is, or None"""
    if not opened:
        return None
    n = case['n']
    size, how = route(case['entry'], n, case['pool'])
    if SIG_STAR_ARITY in opened and case['entry'] in STAR_ARITY1 and n >= 2 and how == 'single':
        return 'open-finding:starmap/starcall with 1-tuples and >= 2 items'
    if (SIG_SEQ_RAISE in opened and case['mode'] == 'raise' and case['fail'] and how == 'map_each'
            and size is not None and size < 2):
        return 'open-finding:pool size < 2 (sequential branch), raise mode, failing item'
    return None


# ------------------------------------------------------------------------------------------------
# schedules

PATTERNS = ['eager', 'late', 'first-then-all', 'stepwise', 'lag', 'half']


def build_actions(pattern, perm):
    rel = [['r', i] for i in perm]
    n = len(perm)
    if pattern == 'eager':
        return [['c', None]] + rel
    if pattern == 'late':
        return rel + [['c', None]]
    if pattern == 'first-then-all':
        return [['c', 1]] + rel + [['c', None]]
    if pattern == 'stepwise':
        out = []
        for r in rel:
            out += [['c', 1], r]
        return out + [['c', None]]
    if pattern == 'lag':
        out = [['c', 1]] + rel[:1]
        for r in rel[1:]:
            out += [r, ['c', 1]]
        return out + [['c', None]]
    if pattern == 'half':
        h = (n + 1) // 2
        return [['c', 1]] + rel[:h] + [['c', None]] + rel[h:]
    raise core.HarnessError(pattern)


def enum_cases(full_n, top_n):
    """the bounded-exhaustive space, in a fixed order (small n first).  Up to full_n items: every entry
    point with every consume pattern; full_n < n <= top_n: Pool.imap with every consume pattern, the other
    entry points with the eager consumer."""
    for n in range(0, top_n + 1):
        sizes = [0, 1, 2] if n == 0 else list(range(1, n + 2))
        combos = []
        for entry in ENTRIES_POOL:
            if n == 0 and entry in STAR:
                continue
            for size in sizes:
                for mode in ('raise', 'objects', 'abandon'):
                    if mode == 'abandon' and entry == 'map':
                        continue
                    combos.append((entry, size, mode))
        for entry in ENTRIES_MOD:
            if n == 0 and entry in STAR:
                continue
            combos.append((entry, None, 'raise'))
        perms = list(itertools.permutations(range(n)))
        subsets = [list(s) for k in range(n + 1) for s in itertools.combinations(range(n), k)]
        for perm in perms:
            for fail in subsets:
                for entry, size, mode in combos:
                    if mode == 'abandon' and not fail:
                        continue
                    if n == 0:
                        pats = ['eager']
                    elif entry == 'map':
                        pats = ['eager', 'late'] if n <= full_n else ['eager']
                    elif n <= full_n or entry == 'imap':
                        pats = PATTERNS
                    else:
                        pats = ['eager']
                    done = set()
                    for pat in pats:
                        actions = build_actions(pat, perm)
                        key = repr(actions)
                        if key in done:
                            continue
                        done.add(key)
                        yield {'n': n, 'entry': entry, 'pool': size, 'mode': mode, 'fail': fail,
                               'actions': actions, 'pattern': pat, 'perm': list(perm)}


FAULTS = ['first', 'odd', 'all-but-first', 'all']


def enum_special(top_n):
    """the two harness-owned extras (eager consumer):
    race  - more items than workers, one failing item, forced shutdown (raise mode: inside the pool; abandon
            mode: the in-tree caller pattern) with a worker let through between empty() and get(block=False);
    hold  - the result_queue.put of one generated item is held back if it comes after the task's task_done();
    fault - ThreadWorker.start fails for a generated subset of the workers."""
    for n in range(3, top_n + 2):
        for size in range(2, n):
            combos = [('imap', size, 'raise'), ('imap', size, 'abandon'), ('starmap2', size, 'raise'),
                      ('starcall2', size, 'abandon'), ('map', size, 'raise')]
            # (the module-level helpers size their pool to the item count: nothing is ever left queued)
            for f in range(n):
                others = [i for i in range(n) if i != f]
                # c items complete before the failing one; schedules that cannot leave a task queued at the
                # moment of the forced shutdown are not generated (q = number of tasks still queued then)
                for c in range(0, n - size - 1):
                    q = n - size - c - 1
                    for prefix in itertools.permutations(others, c):
                        if f >= size + c or any(it >= size + k for k, it in enumerate(prefix)):
                            continue  # would be released before a worker can have started it
                        perm = list(prefix) + [f] + [i for i in others if i not in prefix]
                        for entry, psize, mode in combos:
                            if mode == 'abandon' and not set(range(f)) <= set(prefix):
                                continue  # the caller only sees item f's error after the items before it
                            for at in range(min(q, 2)):
                                for how in ('all', 'one', 'last'):
                                    acts = build_actions('eager', perm)
                                    acts.insert(acts.index(['r', f]) + 1, ['w'])
                                    yield {'n': n, 'entry': entry, 'pool': psize, 'mode': mode, 'fail': [f],
                                           'actions': acts, 'pattern': 'eager',
                                           'perm': perm, 'race': {'at': at, 'release': how, 'sync': 1}}
    for n in range(2, min(top_n, 4) + 1):
        for size in range(2, n + 2):
            for h in range(n):
                perms = [p_ for p_ in itertools.permutations(range(n))
                         if n <= 3 or p_[-1] == h or (p_[0] == h and list(p_[1:]) == sorted(p_[1:]))]
                fails = [[], [h]] + [[(h + 1) % n]] + ([[0, n - 1]] if n > 2 else [])
                for perm in perms:
                    for fail in fails:
                        for entry, mode in (('imap', 'raise'), ('imap', 'objects'), ('imap', 'abandon'),
                                            ('starcall2', 'objects'), ('map', 'raise')):
                            if mode == 'abandon' and not fail:
                                continue
                            yield {'n': n, 'entry': entry, 'pool': size, 'mode': mode, 'fail': fail,
                                   'actions': build_actions('eager', perm), 'pattern': 'eager',
                                   'perm': list(perm), 'hold': h}
    for n in (2, 3):
        subsets = [list(s_) for k in range(n + 1) for s_ in itertools.combinations(range(n), k)]
        for size in range(2, n + 2):
            combos = [('imap', size, 'raise'), ('imap', size, 'objects'), ('imap', size, 'abandon'),
                      ('starcall2', size, 'objects'), ('map', size, 'raise')]
            if size == n:
                combos.append(('mod_imap', None, 'raise'))
            for perm in (tuple(range(n)), tuple(reversed(range(n)))):
                for fail in subsets:
                    for entry, psize, mode in combos:
                        if mode == 'abandon' and not fail:
                            continue
                        for kind in FAULTS:
                            yield {'n': n, 'entry': entry, 'pool': psize, 'mode': mode, 'fail': fail,
                                   'actions': build_actions('eager', perm), 'pattern': 'eager',
                                   'perm': list(perm), 'fault': kind}


def scope_for(tier):
    top = int(os.environ.get('VERIF_C15_MAXN', '4' if tier == 'quick' else '5'))
    full = int(os.environ.get('VERIF_C15_FULLN', str(top - 1)))
    return full, top


MAX_EXPIRIES = 1  # watchdog expiries (deadlock / leaked workers) after which a shard stops searching


class Session(object):
    """per-shard harness state: the reusable consumer thread and the watchdog-expiry budget"""

    def __init__(self):
        self.host = ConsumerHost()
        self.expired = 0

    def __enter__(self):
        return self

    def __exit__(self, *exc):
        self.host.close()
        return False


def exhaustive_shard(shard, nshards, seed, tier):
    st_ = core.Stats()
    opened = open_sigs()
    have = set()
    total = 0
    full_n, top_n = scope_for(tier)
    with Session() as ses:
        for k, case in enumerate(itertools.chain(enum_cases(full_n, top_n), enum_special(top_n))):
            if k % nshards != shard:
                continue
            total += 1
            ex = exclusion(case, opened)
            if ex:
                st_.excluded[ex] += 1
                continue
            v = run_case(case, st_, ses)
            if v is not None and v.signature not in have:
                have.add(v.signature)
                st_.violations.append(v)
            if ses.expired >= MAX_EXPIRIES:
                st_.inconclusive['exhaustive shard stopped after %d watchdog expiries' % MAX_EXPIRIES] += 1
                break
    st_.extra['exhaustive_cases_enumerated'] = total
    return st_


@st.composite
def random_cases(draw, sizes):
    n = draw(st.sampled_from(sizes))
    entry = draw(st.sampled_from(ENTRIES_POOL + ENTRIES_POOL + ENTRIES_MOD))
    if entry in ENTRIES_MOD:
        size, mode = None, 'raise'
    else:
        size = draw(st.integers(1, n + 1))
        mode = draw(st.sampled_from(['raise', 'objects', 'abandon'] if entry != 'map' else ['raise', 'objects']))
    fail = sorted(draw(st.sets(st.integers(0, n - 1), max_size=draw(st.sampled_from([0, 1, 1, 2, n])))))
    if mode == 'abandon' and not fail:
        mode = 'objects'
    perm = draw(st.permutations(list(range(n))))
    grant = st.sampled_from([0, 0, 1, 1, 2, 3, None])
    actions = []
    for i in perm:
        g = draw(grant)
        if g != 0:
            actions.append(['c', g])
        if draw(st.integers(0, 3)) == 0:
            actions.append(['r', i, 1])
        else:
            actions.append(['r', i])
    actions.append(['c', None])
    case = {'n': n, 'entry': entry, 'pool': size, 'mode': mode, 'fail': fail, 'actions': actions,
            'perm': list(perm)}
    extra = draw(st.integers(0, 9))
    if extra < 2 and size is not None and entry != 'map' or extra == 2 and size is not None:
        # forced-shutdown race: fewer workers than items, a failing item, a mode that shuts down by force
        case['pool'] = draw(st.integers(2, n - 1))
        if not fail:
            case['fail'] = [draw(st.integers(0, n - 1))]
        if case['mode'] == 'objects':
            case['mode'] = 'abandon' if entry != 'map' else 'raise'
        case['race'] = {'at': draw(st.integers(0, 2)), 'release': draw(st.sampled_from(['all', 'one', 'last']))}
        for k, a_ in enumerate(actions):
            if a_[0] == 'r' and a_[1] in case['fail']:
                actions.insert(k + 1, ['w'])
                break
    elif extra == 3:
        if size is not None:
            case['pool'] = max(2, size)
        case['fault'] = draw(st.sampled_from(FAULTS))
    elif extra in (4, 5):
        # a worker held back right before result_queue.put of one item (last released / a failing one / any)
        if size is not None:
            case['pool'] = max(2, size)
        pick = draw(st.sampled_from(['last', 'fail', 'any']))
        case['hold'] = (perm[-1] if pick == 'last' else fail[0] if pick == 'fail' and fail
                        else draw(st.integers(0, n - 1)))
    return case


def random_shard(shard, nshards, seed, tier):
    st_ = core.Stats()
    opened = open_sigs()
    have = set()
    with Session() as ses:
        def check(case, stats):
            if ses.expired >= MAX_EXPIRIES:
                stats.inconclusive['random case skipped after %d watchdog expiries' % MAX_EXPIRIES] += 1
                return None
            ex = exclusion(case, opened)
            if ex:
                stats.excluded[ex] += 1
                return None
            before = ses.expired
            v = run_case(case, stats, ses)
            if v is not None and ses.expired > before:
                # a watchdog finding is recorded as it is: shrinking would cost a watchdog period per attempt
                if v.signature not in have:
                    have.add(v.signature)
                    stats.violations.append(v)
                return None
            return v

        total = int(os.environ.get('VERIF_C15_RANDOM', '4500' if tier == 'quick' else '400000'))
        sizes = [5, 6, 6] if tier == 'quick' else [6]
        core.hyp_search(random_cases(sizes), check, st_, max_examples=max(1, total // nshards), seed=seed)
    return st_


def run(tier, seed, stats):
    full_n, top_n = scope_for(tier)
    ex = core.parallel(exhaustive_shard, 16, seed, tier)
    stats.extra['exhaustive_scope'] = (
        'every permutation of the items (release order) x every failing subset x pool sizes 1..n+1 (0..2 for '
        'n = 0) x {raise, result objects, result objects + shutdown(True) at the first error}: for n = 0..%d with all '
        '%d Pool entry points + %d module-level helpers (raise mode only) and all consume patterns (%s); for n = %d '
        'with Pool.imap under all consume patterns and the other entry points under the eager consumer; plus, for '
        'n = 3..%d, pool size 2..n-1, every single failing item and every release prefix that leaves a task queued when '
        'the item fails: a worker let through between empty() and get(block=False) of the forced shutdown (1st/2nd '
        'check x release all/first/last running item; raise and abandon modes); plus, for n = 2..4, pool sizes 2..n+1, every held item x {no, the held, another, first+last} '
        'failing items x 3 modes (all permutations for n <= 3; n = 4: the held item released last after every order of the others, or first): the '
        'result_queue.put of the item is held back if the worker already called task_done(); plus, for n = 2..3, '
        'worker-start failure (first/odd/all-but-first/all) x pool sizes 2..n+1 x '
        'every failing subset x 3 modes; minus the constructs of open findings (excluded_by_construction)'
        % (full_n, len(ENTRIES_POOL), len(ENTRIES_MOD), '/'.join(PATTERNS), top_n, top_n + 1))
    stats.extra['exhaustive_cases_executed'] = ex.evaluations
    stats.merge(ex)
    rnd = core.parallel(random_shard, 16, seed, tier)
    stats.extra['random_cases_executed'] = rnd.evaluations
    stats.merge(rnd)
    stats.extra['exhaustive'] = not stats.inconclusive


def replay(case, stats):
    case = dict(case)
    case['actions'] = [list(a_) for a_ in case['actions']]
    case['fail'] = list(case['fail'])
    with Session() as ses:
        v = run_case(case, stats, ses)
    return [v] if v else []
