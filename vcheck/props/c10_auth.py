"""C10 - Authorization is enforced: denied layers stay dark, limited areas are clipped.

A generated MapProxy configuration (layer tree with named / unnamed groups, groups with own sources, leaves with
one or two sources, direct WMS sources and png / jpeg caches on four grids, separate tile_sources) is loaded the
way a deployment does (ground.make_app) and driven through WSGI with a generated `mapproxy.authorize` callback in
the request environment (doc/auth.rst).  The synthetic upstream (ground.Upstream, WMS with render_fn) paints every
upstream layer as an OPAQUE solid colour that is unique in the configuration, so a single leaked pixel is visible,
and answers GetFeatureInfo with a token naming the upstream layer.

The oracle never looks at MapProxy's own coverage / mask code: the permitted region of every layer is the geometry
the callback returned, taken with straight edges in its own SRS, densified, projected with pyproj into the pixel
space of the response and compared by shapely distance in pixel units.  See DESIGN.md section 11.
"""
import itertools
import logging
import math
import os
import shutil
import tempfile

import numpy as np
from hypothesis import strategies as st

from .. import core
from .. import ground

PROPERTY = 'C10'
LEVEL = 'exploration'
RULE = ('Hypothesis-generated configurations (layer tree of 2-6 leaves with named / unnamed groups and groups that '
        'have own sources; per leaf 1-2 sources: direct WMS (transparent or opaque-declared) or png / jpeg cache on '
        'GLOBAL_MERCATOR / GLOBAL_WEBMERCATOR / GLOBAL_GEODETIC / a custom UTM32 grid / two local grids (sw and nw origin) '
        'whose bbox is not a multiple of the tile extent, stored or disable_storage, '
        'meta 1x1 / 2x2; optional tile_sources) x 6 requests each: WMS 1.1.1 / 1.3.0 GetMap (EPSG:3857 / 4326 / 25832, '
        '40-256 px, non-square pixels, png / jpeg, transparent or bgcolor, 1-3 layer names incl. groups; half of the '
        'configurations has services.wms.on_source_errors raise, the others notify or absent; a third has services.wms.bbox_srs with plain codes and explicit {srs, bbox} extents, and two thirds of their '
        'GetMap requests in such an SRS reach 8-93 % beyond the extent over an edge or corner), WMS '
        'GetFeatureInfo, TMS / tiles / KML / WMTS-REST / WMTS-KVP tiles and WMTS GetFeatureInfo, each with its own '
        'authorize callback result: full / none / unauthenticated / no callback / partial with per-name '
        'map / featureinfo / tile = True / False / missing, names missing, per-layer and / or global limited_to sent '
        'as bbox list / tuple, WKT, multi-line WKT or shapely geometry (rectangle, convex, star, L, with hole, multi '
        'part, island in hole; for tiles of the local grids - mostly first / last row and column, i.e. tiles that overhang the '
        'grid bbox - the grid bbox itself, grown or shrunk by 0.5-8 px) in the request SRS or another SRS (densified so that vertex-wise and true '
        'reprojection agree to < 0.2 px).  A case (= one request) is non-trivial when the boundary of a limited_to '
        'geometry that applies to a permitted layer crosses the response (pixels > 2 px inside and > 1 px outside both '
        'exist; for feature info: the boundary crosses the query image); distinct = distinct (configuration, request).')
ASSUMPTIONS = [
    'the callback contract of doc/auth.rst: a feature is permitted iff its value is True; names missing from "layers" are '
    'denied; wms.map / wms.featureinfo are asked about the resolved (non-group) layers; only valid polygon geometries',
    '"the geometry" = the returned geometry with straight edges in its own SRS (true curve after reprojection); '
    'geometries whose vertex-wise reprojection deviates >= 0.2 px from it (bbox lists in another SRS on large '
    'frames) are excluded and counted; for the others the measured deviation (< 0.2 px) is added to every pixel band, '
    'because the mask drawn by MapProxy (integer-snapped polygon, touched pixels) already spills up to 0.95 px on its own',
    'pixel classes (shapely distance of the pixel centre, pixel units): "outside" = more than 1.01 px outside, "well '
    'inside" = more than 2 px inside (MapProxy masks every pixel touched by the boundary shrunk by 0.1 px with mitred '
    'joins: up to 0.5 + 0.71 px at sharp spikes of holes - over-clipping, never a leak); feature info: 1.01 px both '
    'ways; PNG colour tolerance 8 levels, palette colours >= 100 levels apart; for JPEG *responses* pixels within 3 px '
    'of any limit boundary are not judged and the tolerance is 48 levels (calibrated: <= 27 at quality 90)',
    'authorized: none on a WMS operation is judged like a partial result that permits nothing (403 when a resolved layer was '
    'requested by name, otherwise nothing of the layers may result; MapProxy answers pure group requests with a blank 200, '
    'which doc/auth.rst describes as 403 - counted in notes, not a violation of the statement); on tile services it must be 403; '
    'unauthenticated must be 401 everywhere',
    'explicit SRS extent (services.wms.bbox_srs entry with bbox): outside the extent and within 3 px of its edge background is '
    'accepted besides the modelled content; MapProxy pastes the reduced picture at truncated whole-pixel offsets, so for '
    'requests that reach beyond the extent all pixel bands are 1.05 px wider (2.06 px outside / 3.05 px inside); a request '
    'that does not intersect the extent is answered blank without consulting the callback and is not judged',
    'the part of a border tile beyond the bbox of its (local) grid may be blank or filled (meta tile requests are cut to the '
    'grid bbox, single tile requests are not): blank (white for jpeg caches) is accepted there besides the permitted content; '
    'overhanging tiles of jpeg caches are not judged within 16 px of the grid border and with the JPEG tolerance',
    'blank = alpha 0, or the requested bgcolor on opaque output (both accepted where the statement says "transparent (or '
    'background colour)")',
    'layers requested below a layer that MapProxy may treat as opaque (direct WMS source with transparent: false) may be '
    'absent (documented is_opaque optimisation); never a leak, so blank is accepted there as well',
    'the georeference of a tile response is computed from the documented address scheme of the service (TMS profile '
    'level shift, TMS/KML south-west rows, WMTS north-west rows) and cross-checked with the query_extent the callback '
    'receives; a mismatch is counted inconclusive, not judged',
    'WMTS GetFeatureInfo on south-west-origin grids is evaluated at the location MapProxy actually queried upstream '
    '(it mirrors the tile row - a C01 matter reported there); completeness is not judged for those',
    'feature info "forwarded while outside" is only counted (notes), "returned while outside" is a violation',
]

TOL_PNG = 8
TOL_JPEG = 48
BAND = 1.01         # "more than one pixel outside"
BAND_IN = 2.0       # "well inside": the -0.1 px mask buffer is mitred (up to 0.5 px at sharp hole spikes) + touched pixels
BAND_JPEG = 3.0
EXTENT_SLACK = 1.05  # extra displacement of a picture reduced to the SRS extent (pasted at integer offsets)
DEV_LIMIT = 0.2

F_GLOBAL_IGNORED = 'C10/tile/global-limit-ignored-when-layer-limited'
F_ISLAND = 'C10/mask/island-in-hole-masked'
F_LAYER_SRS = 'C10/tile/limits-intersected-in-layer-srs'
F_SLIVER = 'C10/mask/subpixel-thin-part-drawn-displaced'

_V = (20, 120, 235)
PALETTE = [c for c in itertools.product(_V, _V, _V)]
HOSTS = ('h1.test', 'h2.test')

GRIDS = {
    # name: (x0, y0, x1, y1, span0, native origin, srs code, rows per span at level 0 (cols, rows))
    'GLOBAL_MERCATOR': dict(bbox=(-20037508.342789244, -20037508.342789244, 20037508.342789244, 20037508.342789244),
                            span0=2 * 20037508.342789244, origin='sw', srs='EPSG:900913', n0=(1, 1), profile=True,
                            spec='EPSG900913', levels=(5, 12)),
    'GLOBAL_WEBMERCATOR': dict(bbox=(-20037508.342789244, -20037508.342789244, 20037508.342789244, 20037508.342789244),
                               span0=2 * 20037508.342789244, origin='nw', srs='EPSG:3857', n0=(1, 1), profile=True,
                               spec='EPSG3857', levels=(5, 12)),
    'GLOBAL_GEODETIC': dict(bbox=(-180.0, -90.0, 180.0, 90.0), span0=360.0, origin='sw', srs='EPSG:4326',
                            n0=(1, 0.5), profile=True, spec='EPSG4326', levels=(5, 12)),
    # covers every request frame the generator can produce (lon 7-11, lat 47-54, <= 256 px of <= 952 m) with margin
    'utm32': dict(bbox=(0.0, 3000000.0, 1024000.0, 7096000.0), span0=1024000.0, origin='nw', srs='EPSG:25832',
                  n0=(1, 4), profile=False, spec='EPSG25832', levels=(1, 8)),
}
# local grids whose bbox is NOT a multiple of the tile extent on levels 0-8 (813/512 and 1207/512 resp. 1707/512 spans at
# level 0): border tiles overhang the grid bbox.  They cover every WMS frame the generator produces with margin.  Only
# the services whose row numbering is the grid's own are used on them (flipping is not defined for such grids).
GRIDS['loc_sw'] = dict(bbox=(100000.0, 5000000.0, 913000.0, 6207000.0), span0=512000.0, origin='sw', srs='EPSG:25832',
                       profile=False, spec='EPSG25832', levels=(0, 5), local=True, svcs=['tms', 'tiles', 'kml'])
GRIDS['loc_nw'] = dict(bbox=(600000.0, 5700000.0, 1413000.0, 7407000.0), span0=512000.0, origin='nw', srs='EPSG:3857',
                       profile=False, spec='EPSG3857', levels=(0, 5), local=True, svcs=['tiles', 'wmts', 'wmts_kvp'])
LOCAL_GRID_CONF = {
    'loc_sw': {'srs': 'EPSG:25832', 'bbox': [100000, 5000000, 913000, 6207000], 'origin': 'sw',
               'res': [2000.0 / 2 ** i for i in range(10)]},
    'loc_nw': {'srs': 'EPSG:3857', 'bbox': [600000, 5700000, 1413000, 7407000], 'origin': 'nw',
               'res': [2000.0 / 2 ** i for i in range(10)]},
}
UTM_GRID_CONF = {'srs': 'EPSG:25832', 'bbox': [0, 3000000, 1024000, 7096000], 'origin': 'nw',
                 'res': [4000.0 / 2 ** i for i in range(10)]}
WMS_SRS = ['EPSG:3857', 'EPSG:4326', 'EPSG:25832']
LIMIT_SRS = ['EPSG:3857', 'EPSG:4326', 'EPSG:25832', 'EPSG:900913']


_OPEN = None


def open_sigs():
    """open known findings of C10, read once per process (the parent reads them before forking the shards): the
    files under known_findings.d are rewritten by others while checks run, and generation must not depend on that"""
    global _OPEN
    if _OPEN is None:
        import json
        import time
        for attempt in range(20):
            try:
                _OPEN = frozenset(core.open_signatures(PROPERTY))
                break
            except (json.JSONDecodeError, OSError):
                if attempt == 19:
                    raise
                time.sleep(0.25)
    return _OPEN


def _quiet():
    logging.getLogger('mapproxy').setLevel(logging.CRITICAL)


# ------------------------------------------------------------------------------------------------
# configuration model

class Model(object):
    """What the generated configuration means, independent of MapProxy: names, resolution of groups, colours."""

    def __init__(self, conf):
        self.conf = conf
        self.sources = conf['sources']          # uid -> spec
        self.nodes = {}                         # name -> node
        self.order = []                         # named nodes in tree order
        self.colour = {}
        uids = sorted(self.sources, key=lambda u: int(u[1:]))
        off = conf['coff'] % 27
        for i, u in enumerate(uids):
            self.colour[u] = (off + 7 * i) % 27
        self.bg_idx = (off + 7 * len(uids)) % 27
        self._walk(conf['tree'])
        # services.wms.bbox_srs: plain codes and {srs, bbox} entries (explicit SRS extent: GetMap is reduced to it)
        self.extents = {}
        self.bbox_srs = None
        if conf.get('bbox_srs'):
            self.bbox_srs = []
            for e in conf['bbox_srs']:
                if e.get('ll') is None:
                    self.bbox_srs.append(e['srs'])
                    continue
                lon0, lat0, lon1, lat1 = e['ll']
                X, Y = ground.transform(np.array([lon0, lon1, lon0, lon1]), np.array([lat0, lat0, lat1, lat1]),
                                        'EPSG:4326', e['srs'])
                nd = 6 if e['srs'] == 'EPSG:4326' else 2
                bbox = [round(float(X.min()), nd), round(float(Y.min()), nd), round(float(X.max()), nd), round(float(Y.max()), nd)]
                self.extents[e['srs']] = tuple(bbox)
                self.bbox_srs.append({'srs': e['srs'], 'bbox': bbox})

    def _walk(self, nodes):
        for n in nodes:
            if n.get('name'):
                self.nodes[n['name']] = n
                self.order.append(n['name'])
            self._walk(n.get('children') or [])

    # -- WMS semantics (doc/auth.rst "wms.map": group layers are resolved) --
    def resolve_map(self, node):
        if node.get('sources'):
            return [(node['name'], list(node['sources']))]
        out = []
        for c in node.get('children') or []:
            out.extend(self.resolve_map(c))
        return out

    def fi_sources(self, uids):
        return [u for u in uids if self.sources[u]['fi']]

    def resolve_info(self, node):
        if node.get('sources'):
            f = self.fi_sources(node['sources'])
            return [(node['name'], f)] if f else []
        out = []
        for c in node.get('children') or []:
            out.extend(self.resolve_info(c))
        return out

    def queryable(self, node):
        if node.get('sources') and self.fi_sources(node['sources']):
            return True
        return any(self.queryable(c) for c in node.get('children') or [])

    def descendants(self, node):
        out = set()
        for c in node.get('children') or []:
            if c.get('name'):
                out.add(c['name'])
            out |= self.descendants(c)
        return out

    def opaque_declared(self, node):
        """any direct WMS source below this node that MapProxy may treat as opaque"""
        for u in node.get('sources') or []:
            s = self.sources[u]
            if s['kind'] == 'wms' and not s['transparent']:
                return True
        return any(self.opaque_declared(c) for c in node.get('children') or [])

    # -- tile services: layers with exactly one cache source, or tile_sources --
    def tile_source(self, node):
        if node.get('tile_source'):
            return node['tile_source']
        srcs = node.get('sources') or []
        if len(srcs) == 1 and self.sources[srcs[0]]['kind'] == 'cache':
            return srcs[0]
        return None

    def tile_layers(self):
        return [n for n in self.order if self.tile_source(self.nodes[n])]

    def yaml(self):
        sources, caches = {}, {}
        grids = {}
        for u, s in self.sources.items():
            sources['s_' + u] = {
                'type': 'wms',
                'req': {'url': 'http://%s/service' % HOSTS[s['host']], 'layers': u, 'transparent': bool(s['transparent'])},
                'wms_opts': {'featureinfo': bool(s['fi'])},
            }
            if s['kind'] == 'cache':
                caches['c_' + u] = {
                    'grids': [s['grid']], 'sources': ['s_' + u],
                    'format': 'image/jpeg' if s['fmt'] == 'jpeg' else 'image/png',
                    'disable_storage': not s['storage'], 'meta_size': [s['meta'], s['meta']],
                    'meta_buffer': s['buf'],
                }
                if s['grid'] == 'utm32':
                    grids['utm32'] = UTM_GRID_CONF
                if s['grid'] in LOCAL_GRID_CONF:
                    grids[s['grid']] = LOCAL_GRID_CONF[s['grid']]

        def ref(u):
            return ('c_' if self.sources[u]['kind'] == 'cache' else 's_') + u

        def node_conf(n):
            d = {'title': 'T ' + (n.get('name') or 'unnamed')}
            if n.get('name'):
                d['name'] = n['name']
            if n.get('sources'):
                d['sources'] = [ref(u) for u in n['sources']]
            if n.get('tile_source'):
                d['tile_sources'] = [ref(n['tile_source'])]
            if n.get('children'):
                d['layers'] = [node_conf(c) for c in n['children']]
            return d

        conf = {
            'services': {
                'wms': {'srs': WMS_SRS, 'image_formats': ['image/png', 'image/jpeg'], 'md': {'title': 'C10'}},
                'tms': {}, 'kml': {},
                'wmts': {'featureinfo_formats': [{'mimetype': 'text/plain', 'suffix': 'txt'}]},
            },
            'layers': [node_conf(n) for n in self.conf['tree']],
            'sources': sources,
        }
        if self.bbox_srs:
            conf['services']['wms']['bbox_srs'] = self.bbox_srs
        if self.conf.get('on_source_errors'):
            # 'raise' renders through LayerRenderer._render_raise_exceptions, 'notify' (= default) through its twin
            conf['services']['wms']['on_source_errors'] = self.conf['on_source_errors']
        if caches:
            conf['caches'] = caches
        if grids:
            conf['grids'] = grids
        return conf


# ------------------------------------------------------------------------------------------------
# geometry

def shape_polys(sh):
    """abstract shape -> list of polygons [[exterior, hole, ...], ...] in normalised image coordinates
    (u to the right, v downwards, the image is [0,1]x[0,1])"""
    t = sh['t']
    if t == 'rect':
        (cu, cv), (ru, rv) = sh['c'], sh['r']
        return [[[(cu - ru, cv - rv), (cu + ru, cv - rv), (cu + ru, cv + rv), (cu - ru, cv + rv)]]]
    if t == 'convex':
        (cu, cv), (ru, rv) = sh['c'], sh['r']
        n = len(sh['ang'])
        tot = float(sum(sh['ang']))
        a = sh['rot']
        pts = []
        for w in sh['ang']:
            pts.append((cu + ru * math.cos(a), cv + rv * math.sin(a)))
            a += 2 * math.pi * w / tot
        return [[pts]] if n >= 3 else shape_polys({'t': 'rect', 'c': sh['c'], 'r': sh['r']})
    if t == 'star':
        (cu, cv), (ru, rv) = sh['c'], sh['r']
        n, k, rot = sh['n'], sh['k'], sh['rot']
        pts = []
        for i in range(2 * n):
            f = 1.0 if i % 2 == 0 else k
            a = rot + math.pi * i / n
            pts.append((cu + f * ru * math.cos(a), cv + f * rv * math.sin(a)))
        return [[pts]]
    if t == 'L':
        (cu, cv), (ru, rv) = sh['c'], sh['r']
        k = sh['k']
        x0, x1, y0, y1 = cu - ru, cu + ru, cv - rv, cv + rv
        xm, ym = x0 + 2 * ru * k, y0 + 2 * rv * k
        pts = [(x0, y0), (x1, y0), (x1, ym), (xm, ym), (xm, y1), (x0, y1)]
        c, s = math.cos(sh['rot']), math.sin(sh['rot'])
        pts = [(cu + (x - cu) * c - (y - cv) * s, cv + (x - cu) * s + (y - cv) * c) for x, y in pts]
        return [[pts]]
    if t == 'hole':
        outer = shape_polys(sh['outer'])[0][0]
        cu, cv = sh['outer']['c']
        k = sh['k']
        hole = [(cu + (x - cu) * k, cv + (y - cv) * k) for x, y in outer]
        return [[outer, hole]]
    if t == 'island':
        outer = shape_polys(sh['outer'])[0][0]
        cu, cv = sh['outer']['c']
        k, k2 = sh['k'], sh['k'] * sh['k2']
        hole = [(cu + (x - cu) * k, cv + (y - cv) * k) for x, y in outer]
        isl = [(cu + (x - cu) * k2, cv + (y - cv) * k2) for x, y in outer]
        return [[isl], [outer, hole]] if sh['first'] else [[outer, hole], [isl]]
    if t == 'multi':
        out = []
        for p in sh['parts']:
            out.extend(shape_polys(p))
        return out
    raise AssertionError(t)


def _shp():
    import shapely
    import shapely.geometry
    return shapely


def polys_to_geom(polys):
    shapely = _shp()
    ps = [shapely.geometry.Polygon(p[0], p[1:]) for p in polys]
    return ps[0] if len(ps) == 1 else shapely.geometry.MultiPolygon(ps)


def valid_polys(polys):
    """keep the longest prefix-wise selection of parts that forms a valid (multi)polygon"""
    shapely = _shp()
    kept = []
    for p in polys:
        try:
            g = shapely.geometry.Polygon(p[0], p[1:])
        except Exception:
            continue
        if not g.is_valid or g.area <= 1e-9:
            continue
        trial = kept + [p]
        if len(trial) > 1 and not shapely.geometry.MultiPolygon(
                [shapely.geometry.Polygon(q[0], q[1:]) for q in trial]).is_valid:
            continue
        kept = trial
    return kept


class Frame(object):
    def __init__(self, srs, bbox, size):
        self.srs = srs
        self.bbox = tuple(float(v) for v in bbox)
        self.size = (int(size[0]), int(size[1]))

    def px_to_ground(self, px, py):
        b, (w, h) = self.bbox, self.size
        return (b[0] + np.asarray(px, float) * (b[2] - b[0]) / w, b[3] - np.asarray(py, float) * (b[3] - b[1]) / h)

    def ground_to_px(self, X, Y):
        b, (w, h) = self.bbox, self.size
        return ((np.asarray(X, float) - b[0]) * w / (b[2] - b[0]), (b[3] - np.asarray(Y, float)) * h / (b[3] - b[1]))

    def describe(self):
        return {'srs': self.srs, 'bbox': self.bbox, 'size': self.size}


def same_srs(a, b):
    return ground._crs_code(a) == ground._crs_code(b)


def _ring_to_px(ring, srs, frame, pieces):
    """ring vertices given in srs -> pixel coordinates of frame; every edge is interpolated linearly *in srs*
    into pieces[i] parts first (the true image of the straight edge)."""
    xs, ys = [], []
    n = len(ring)
    for i in range(n):
        x0, y0 = ring[i]
        x1, y1 = ring[(i + 1) % n]
        k = pieces[i] if pieces is not None else 1
        t = np.arange(k) / float(k)
        xs.append(x0 + (x1 - x0) * t)
        ys.append(y0 + (y1 - y0) * t)
    xs = np.concatenate(xs)
    ys = np.concatenate(ys)
    X, Y = ground.transform(xs, ys, srs, frame.srs)
    px, py = frame.ground_to_px(X, Y)
    return list(zip(px.tolist(), py.tolist()))


def sent_to_px(polys, srs, frame, exact):
    shapely = _shp()
    out = []
    for p in polys:
        rings = []
        for ring in p:
            pieces = None
            if exact and not same_srs(srs, frame.srs):
                coarse = _ring_to_px(ring, srs, frame, None)
                pieces = []
                for i in range(len(coarse)):
                    a, b = coarse[i], coarse[(i + 1) % len(coarse)]
                    ln = math.hypot(a[0] - b[0], a[1] - b[1])
                    pieces.append(int(min(256, max(1, math.ceil(ln / 1.5)))))
            rings.append(_ring_to_px(ring, srs, frame, pieces))
        out.append(shapely.geometry.Polygon(rings[0], rings[1:]))
    g = out[0] if len(out) == 1 else shapely.geometry.MultiPolygon(out)
    if not g.is_valid:
        g = g.buffer(0)
    return g, out


def concretise_limit(limit, frame):
    """abstract limited_to description -> what the callback returns (srs, polygons in that srs, how it is sent) and the
    region it means in the pixel space of `frame`.  Deterministic (replay recomputes it)."""
    shapely = _shp()
    if limit['shape']['t'] == 'gridbox':
        # the grid bbox grown by `grow` pixels of this tile, in normalised tile coordinates; sides far away from the
        # tile are pulled in to 1.5 tile widths (no effect on the tile, keeps reprojected edges short)
        gb = getattr(frame, 'grid_bbox', None) or frame.bbox
        gx0, gy0 = frame.ground_to_px(gb[0], gb[3])
        gx1, gy1 = frame.ground_to_px(gb[2], gb[1])
        gr = limit['shape']['grow']
        u0, u1 = (float(gx0) - gr) / frame.size[0], (float(gx1) + gr) / frame.size[0]
        v0, v1 = (float(gy0) - gr) / frame.size[1], (float(gy1) + gr) / frame.size[1]
        u0, v0, u1, v1 = max(u0, -1.5), max(v0, -1.5), min(u1, 2.5), min(v1, 2.5)
        polys_n = [[[(u0, v0), (u1, v0), (u1, v1), (u0, v1)]]]
    else:
        polys_n = valid_polys(shape_polys(limit['shape']))
    if not polys_n:
        polys_n = shape_polys({'t': 'rect', 'c': (0.5, 0.5), 'r': (0.3, 0.3)})
    w, h = frame.size
    srs = frame.srs if limit['srs'] == 'same' else limit['srs']
    send = limit['send']
    if send in ('bbox', 'bbox_tuple'):
        ring = polys_n[0][0]
        us = [p[0] for p in ring]
        vs = [p[1] for p in ring]
        gx, gy = frame.px_to_ground(np.array([min(us), max(us)]) * w, np.array([max(vs), min(vs)]) * h)
        X, Y = ground.transform(gx, gy, frame.srs, srs)
        x0, x1 = sorted(X.tolist())
        y0, y1 = sorted(Y.tolist())
        sent = [[[(x0, y0), (x1, y0), (x1, y1), (x0, y1)]]]
        res = {'srs': srs, 'send': send, 'polys': sent, 'bbox': [x0, y0, x1, y1]}
    else:
        k = 1
        while True:
            sent = []
            for p in polys_n:
                rings = []
                for ring in p:
                    pts = []
                    n = len(ring)
                    for i in range(n):
                        (u0, v0), (u1, v1) = ring[i], ring[(i + 1) % n]
                        for j in range(k):
                            t = j / float(k)
                            pts.append(((u0 + (u1 - u0) * t) * w, (v0 + (v1 - v0) * t) * h))
                    gx, gy = frame.px_to_ground(np.array([q[0] for q in pts]), np.array([q[1] for q in pts]))
                    X, Y = ground.transform(gx, gy, frame.srs, srs)
                    rings.append(list(zip(X.tolist(), Y.tolist())))
                sent.append(rings)
            res = {'srs': srs, 'send': send, 'polys': sent}
            if same_srs(srs, frame.srs):
                break
            truth, _ = sent_to_px(sent, srs, frame, exact=True)
            vw, _ = sent_to_px(sent, srs, frame, exact=False)
            if shapely.hausdorff_distance(truth.boundary, vw.boundary) < 0.12 or k >= 64:
                break
            k *= 2
        res['densify'] = k
    truth, parts = sent_to_px(res['polys'], srs, frame, exact=True)
    if same_srs(srs, frame.srs):
        dev = 0.0
    else:
        vw, _ = sent_to_px(res['polys'], srs, frame, exact=False)
        dev = float(shapely.hausdorff_distance(truth.boundary, vw.boundary))
    res['region'] = Region(truth, parts, dev, limit['shape']['t'])
    return res


def limit_value(conc):
    """the limited_to dict as a callback would return it (fresh objects each call)"""
    shapely = _shp()
    send = conc['send']
    if send == 'bbox':
        geom = list(conc['bbox'])
    elif send == 'bbox_tuple':
        geom = tuple(conc['bbox'])
    else:
        def ring_wkt(r):
            return '(' + ', '.join('%r %r' % (float(x), float(y)) for x, y in (list(r) + [r[0]])) + ')'

        def poly_wkt(p):
            return '(' + ', '.join(ring_wkt(r) for r in p) + ')'
        polys = conc['polys']
        if send == 'wkt':
            if len(polys) == 1:
                geom = 'POLYGON' + poly_wkt(polys[0])
            else:
                geom = 'MULTIPOLYGON(' + ', '.join(poly_wkt(p) for p in polys) + ')'
        elif send == 'wkt_lines':
            geom = '\n'.join('POLYGON' + poly_wkt(p) for p in polys)
        else:
            geom = polys_to_geom(polys)
    return {'geometry': geom, 'srs': conc['srs']}


class Region(object):
    """A permitted area in the pixel space of one response."""

    def __init__(self, geom, parts, dev, kind):
        self.geom = geom
        self.parts = parts
        self.dev = dev
        self.kind = kind
        self._m = {}

    def masks(self, X, Y, band, band_in=None):
        """(well inside = deeper than band_in, strictly outside = farther than band) boolean arrays for pixel
        centres X, Y"""
        shapely = _shp()
        band_in = band if band_in is None else band_in
        # MapProxy clips with the vertex-wise reprojected geometry; its (bounded, < 0.2 px) distance from the true curve
        # comes on top of the one pixel that the mask itself may spill (measured: up to 0.95 px)
        band += self.dev
        band_in += self.dev
        key = (band, band_in, X.shape)
        if key not in self._m:
            inner = self.geom.buffer(-band_in, 16)
            outer = self.geom.buffer(band, 16)
            if inner.is_empty:
                ins = np.zeros(X.shape, bool)
            else:
                ins = shapely.contains_xy(inner, X, Y)
            if outer.is_empty:
                outs = np.ones(X.shape, bool)
            else:
                outs = ~shapely.contains_xy(outer, X, Y)
            self._m[key] = (ins, outs)
        return self._m[key]

    def thin_near(self, X, Y):
        """pixels within 2 px of a part of the geometry that is thinner than about 1.5 px (does not survive an erosion by
        0.75 px); None if there is no such part"""
        shapely = _shp()
        if 'thin' not in self._m:
            thin = self.geom.difference(self.geom.buffer(-0.75).buffer(0.8, join_style=2, mitre_limit=3.0))
            if thin.is_empty or thin.area < 1e-6:
                self._m['thin'] = None
            else:
                self._m['thin'] = shapely.contains_xy(thin.buffer(2.0), X, Y)
        return self._m['thin']

    def point_class(self, px, py, band=BAND):
        """+1 strictly inside, -1 strictly outside, 0 within the band"""
        shapely = _shp()
        p = shapely.geometry.Point(px, py)
        d = p.distance(self.geom.boundary) if not self.geom.is_empty else 1e9
        if d <= band + self.dev:
            return 0
        return 1 if self.geom.contains(p) else -1

    def island_mask(self, X, Y):
        """pixels inside a part that lies in a hole of another part (root cause refinement)"""
        shapely = _shp()
        m = np.zeros(X.shape, bool)
        if len(self.parts) < 2:
            return m
        for i, p in enumerate(self.parts):
            for j, q in enumerate(self.parts):
                if i != j and q.interiors and shapely.geometry.Polygon(q.exterior).contains(p):
                    m |= shapely.contains_xy(p, X, Y)
        return m


# ------------------------------------------------------------------------------------------------
# strategies

def _pt(lo=-0.15, hi=1.15):
    return st.tuples(st.floats(lo, hi), st.floats(lo, hi))


def _rad(lo=0.12, hi=0.75):
    return st.tuples(st.floats(lo, hi), st.floats(lo, hi))


@st.composite
def simple_shapes(draw, island_ok=True):
    t = draw(st.sampled_from(['rect', 'rect', 'convex', 'convex', 'star', 'L']))
    sh = {'t': t, 'c': draw(_pt()), 'r': draw(_rad())}
    if t == 'convex':
        sh['ang'] = draw(st.lists(st.floats(0.5, 2.0), min_size=3, max_size=8))
        sh['rot'] = draw(st.floats(0, 6.28))
    elif t == 'star':
        sh['n'] = draw(st.integers(3, 7))
        sh['k'] = draw(st.floats(0.3, 0.7))
        sh['rot'] = draw(st.floats(0, 6.28))
    elif t == 'L':
        sh['k'] = draw(st.floats(0.25, 0.7))
        sh['rot'] = draw(st.sampled_from([0.0, 0.0, 0.4, 1.1, 2.0, 3.3]))
    return sh


@st.composite
def shapes(draw, island_ok=True):
    t = draw(st.sampled_from(['simple', 'simple', 'simple', 'hole', 'multi', 'island']))
    if t == 'island' and not island_ok:
        # open finding C10/mask/island-in-hole-masked: generate the lake without the island, remember that we did
        return {'t': 'hole', 'outer': draw(simple_shapes()), 'k': draw(st.floats(0.25, 0.7)), 'suppressed': 'island'}
    if t == 'simple':
        return draw(simple_shapes())
    if t == 'hole':
        return {'t': 'hole', 'outer': draw(simple_shapes()), 'k': draw(st.floats(0.25, 0.7))}
    if t == 'island':
        outer = draw(simple_shapes())
        if outer['t'] in ('star', 'L'):
            outer = {'t': 'rect', 'c': outer['c'], 'r': outer['r']}
        outer['r'] = (max(outer['r'][0], 0.4), max(outer['r'][1], 0.4))
        return {'t': 'island', 'outer': outer, 'k': draw(st.floats(0.45, 0.8)), 'k2': draw(st.floats(0.3, 0.7)),
                'first': draw(st.booleans())}
    n = draw(st.integers(2, 3))
    parts = []
    for i in range(n):
        p = draw(simple_shapes())
        # spread the parts so that most combinations are disjoint (validity is re-checked when concretised)
        cu = (i + 0.5) / n + draw(st.floats(-0.1, 0.1))
        p['c'] = (cu, p['c'][1])
        p['r'] = (min(p['r'][0], 0.42 / n), p['r'][1])
        parts.append(p)
    return {'t': 'multi', 'parts': parts}


@st.composite
def limits(draw, island_ok=True):
    sh = draw(shapes(island_ok=island_ok))
    send = draw(st.sampled_from(['bbox', 'bbox_tuple', 'wkt', 'wkt', 'wkt_lines', 'shapely', 'shapely']))
    if send.startswith('bbox'):
        base = sh
        while base['t'] in ('hole', 'island'):
            base = base['outer']
        if base['t'] == 'multi':
            base = base['parts'][0]
        sh = {'t': 'rect', 'c': base['c'], 'r': base['r']}
    srs = draw(st.sampled_from(['same', 'same', 'same'] + LIMIT_SRS))
    return {'shape': sh, 'srs': srs, 'send': send}


@st.composite
def source_specs(draw, kind=None):
    kind = kind or draw(st.sampled_from(['wms', 'cache', 'cache']))
    s = {'kind': kind, 'host': draw(st.integers(0, 1)), 'fi': draw(st.sampled_from([True, True, False])),
         'transparent': draw(st.sampled_from([True, True, False]))}
    if kind == 'cache':
        s['grid'] = draw(st.sampled_from(['GLOBAL_MERCATOR', 'GLOBAL_MERCATOR', 'GLOBAL_WEBMERCATOR', 'GLOBAL_GEODETIC',
                                          'utm32', 'loc_sw', 'loc_nw']))
        s['fmt'] = draw(st.sampled_from(['png', 'png', 'jpeg']))
        s['storage'] = draw(st.sampled_from([False, False, True]))
        s['meta'] = draw(st.sampled_from([1, 1, 2]))
        s['buf'] = draw(st.sampled_from([0, 0, 8]))
    return s


@st.composite
def confs(draw):
    counter = {'leaf': 0, 'grp': 0, 'src': 0}
    sources = {}

    def new_source(kind=None):
        u = 'u%d' % counter['src']
        counter['src'] += 1
        sources[u] = draw(source_specs(kind))
        return u

    def leaf():
        n = {'name': 'L%d' % counter['leaf'], 'children': []}
        counter['leaf'] += 1
        n['sources'] = [new_source() for _ in range(draw(st.sampled_from([1, 1, 1, 2])))]
        if draw(st.integers(0, 6)) == 0:
            n['tile_source'] = new_source('cache')
        return n

    def group(depth):
        g = {'name': 'G%d' % counter['grp'], 'children': []}
        counter['grp'] += 1
        how = draw(st.sampled_from(['plain', 'plain', 'plain', 'this', 'unnamed'])) if depth else \
            draw(st.sampled_from(['plain', 'plain', 'this']))
        if how == 'unnamed':
            g['name'] = None
        if how == 'this':
            g['sources'] = [new_source()]
        for _ in range(draw(st.integers(1, 3))):
            if counter['leaf'] >= 6:
                break
            if depth < 2 and draw(st.integers(0, 3)) == 0:
                g['children'].append(group(depth + 1))
            else:
                g['children'].append(leaf())
        if not g['children']:
            g['children'].append(leaf())
        return g

    tree = []
    for _ in range(draw(st.integers(1, 3))):
        if counter['leaf'] >= 5:
            break
        tree.append(group(0) if draw(st.booleans()) else leaf())
    if counter['leaf'] < 2:
        tree.append(leaf())
    conf = {'tree': tree, 'sources': sources, 'coff': draw(st.integers(0, 26)),
            'on_source_errors': draw(st.sampled_from([None, 'notify', 'raise', 'raise']))}
    if draw(st.sampled_from([False, False, True])):
        entries = []
        for srs in WMS_SRS:
            how = draw(st.sampled_from(['extent', 'extent', 'plain', 'absent']))
            if how == 'plain':
                entries.append({'srs': srs, 'll': None})
            elif how == 'extent':
                entries.append({'srs': srs, 'll': [draw(st.floats(7.3, 8.5)), draw(st.floats(47.5, 49.5)),
                                                   draw(st.floats(9.5, 10.7)), draw(st.floats(51.5, 53.5))]})
        if not any(e['ll'] for e in entries):
            entries.append({'srs': 'EPSG:3857' if not any(e['srs'] == 'EPSG:3857' for e in entries) else 'EPSG:4326',
                            'll': [7.9, 48.2, 10.1, 52.8]})
            entries = [e for i, e in enumerate(entries) if e['srs'] not in [f['srs'] for f in entries[i + 1:]]]
        conf['bbox_srs'] = entries
    return conf


def _perm_value():
    return st.sampled_from([True, True, True, True, True, False, None])


@st.composite
def auth_specs(draw, model, relevant, feature, island_ok=True, allow_both=True, explicit=()):
    mode = draw(st.sampled_from(['partial'] * 14 + ['full', 'none', 'unauthenticated', 'noauth']))
    spec = {'mode': mode, 'layers': {}, 'global': None}
    if mode != 'partial':
        return spec
    # how often a relevant name is denied: names requested explicitly rarely (the whole request is rejected then),
    # group members more often (they are filtered out).  Hypothesis' integer draws are strongly biased towards small
    # values, so these rates are realised with a PRNG seeded from one drawn integer (still a pure function of the
    # Hypothesis choices, hence of VERIF_SEED).
    import random
    rnd = random.Random(draw(st.integers(0, 2 ** 31)))
    strict = rnd.random() < 0.2
    for name in model.order:
        if name not in relevant and rnd.random() < 0.3:
            continue
        p_deny = (0.2 if strict else 0.04) if name in explicit else (0.4 if strict else 0.2)
        denied = name in relevant and rnd.random() < p_deny
        if denied and rnd.random() < 0.3:
            continue  # missing entry = denied
        p = {}
        for f in ('map', 'featureinfo', 'tile'):
            v = rnd.choice([True, True, True, True, True, False, None])
            if name in relevant and f == feature:
                v = rnd.choice([False, None]) if denied else True
            if v is not None:
                p[f] = v
        if name in relevant and draw(st.integers(0, 1)) == 0:
            p['limit'] = draw(limits(island_ok=island_ok))
        spec['layers'][name] = p
    if draw(st.integers(0, 2)) == 0:
        if allow_both or not any('limit' in p for n, p in spec['layers'].items() if n in relevant):
            spec['global'] = draw(limits(island_ok=island_ok))
        else:
            # open finding C10/tile/global-limit-ignored-when-layer-limited
            spec['suppressed'] = 'global+layer limited_to on a tile layer'
    return spec


def _wmts_ok(grid):
    return grid != 'GLOBAL_GEODETIC' and (not GRIDS[grid].get('local') or 'wmts' in GRIDS[grid]['svcs'])


def _grid_limits(draw, req, name):
    """tile requests on a local grid: most limited_to geometries are derived from the grid bbox (the user is granted
    exactly the layer extent, or the extent grown / shrunk by a few pixels of the requested level)"""
    auth = req['auth']
    if auth['mode'] != 'partial' or name not in auth['layers'] or draw(st.sampled_from([True, True, True, False])) is False:
        return
    grow = draw(st.sampled_from([0.0, 0.0, 0.5, 1.5, 3.0, 8.0, -0.5, -1.5, -3.0, -8.0]))
    send = draw(st.sampled_from(['bbox', 'bbox_tuple', 'wkt', 'wkt_lines', 'shapely']))
    srs = draw(st.sampled_from(['same', 'same', 'same'] + LIMIT_SRS))
    lim = {'shape': {'t': 'gridbox', 'grow': grow}, 'srs': srs, 'send': send}
    if auth.get('global') and draw(st.booleans()):
        auth['global'] = lim
    else:
        auth['layers'][name]['limit'] = lim


def _exclude_layer_srs(req, name, frame_srs, open_sigs):
    """open finding C10/tile/limits-intersected-in-layer-srs: no request-wide limit next to a layer limit that is given
    in another SRS than the tile SRS (remembered, counted in stats.excluded)"""
    auth = req['auth']
    if F_LAYER_SRS not in open_sigs or auth['mode'] != 'partial' or not auth.get('global'):
        return
    lim = auth['layers'].get(name, {}).get('limit')
    if lim and lim['srs'] != 'same' and not same_srs(lim['srs'], frame_srs):
        auth['global'] = None
        auth['suppressed'] = 'tile layer limited_to in a foreign SRS + request-wide limited_to'


def near_specs():
    """where to click: None = anywhere (i, j); else at fraction t along the boundary of the first limit geometry that
    applies, moved by `off` pixels in direction `ang` (0.3-6 px: inside the band, just beyond it, clearly beyond)"""
    return st.one_of(st.none(), st.fixed_dictionaries({
        't': st.floats(0, 1), 'ang': st.floats(0, 6.28),
        'off': st.sampled_from([0.3, 1.2, 1.6, 2.5, 4.0, 6.0])}))


@st.composite
def requests_(draw, model, open_sigs):
    island_ok = F_ISLAND not in open_sigs
    kinds = ['map', 'map', 'map', 'map', 'fi', 'fi']
    tl = model.tile_layers()
    if tl:
        kinds += ['tile', 'tile', 'tile', 'tile']
        if any(model.fi_sources([model.tile_source(model.nodes[n])]) and
               _wmts_ok(model.sources[model.tile_source(model.nodes[n])]['grid']) for n in tl):
            kinds += ['wmts_fi']
    queryable = [n for n in model.order if model.queryable(model.nodes[n])]
    if not queryable:
        kinds = [k for k in kinds if k != 'fi']
    kind = draw(st.sampled_from(kinds))
    req = {'kind': kind, 'lon': draw(st.floats(7.0, 11.0)), 'lat': draw(st.floats(47.0, 54.0))}
    if kind in ('map', 'fi'):
        req['version'] = draw(st.sampled_from(['1.1.1', '1.3.0']))
        req['srs'] = draw(st.sampled_from(WMS_SRS))
        if kind == 'map' and model.extents:
            if req['srs'] not in model.extents and draw(st.booleans()):
                req['srs'] = draw(st.sampled_from(sorted(model.extents)))
            if req['srs'] in model.extents and draw(st.sampled_from([True, True, False])):
                # reach beyond the configured extent of this SRS: over which edge(s), by which share of the frame
                req['ext'] = {'edge': draw(st.sampled_from(['w', 'e', 's', 'n', 'sw', 'ne', 'nw', 'se'])),
                              'frac': draw(st.sampled_from([0.08, 0.25, 0.5, 0.5, 0.8, 0.93])),
                              't': draw(st.floats(0.05, 0.95))}
        req['res'] = draw(st.sampled_from([20.0, 50.0, 150.0, 400.0, 37.3])) * draw(st.floats(0.7, 1.4))
        req['asp'] = draw(st.sampled_from([1.0, 1.0, 1.0, 0.6, 1.7]))
        req['w'] = draw(st.integers(40, 256))
        req['h'] = draw(st.integers(40, 256))
        pool = queryable if kind == 'fi' else list(model.order)
        names = []
        blocked = set()
        for _ in range(draw(st.sampled_from([1, 1, 2, 2, 3]))):
            cand = [n for n in pool if n not in blocked]
            if not cand:
                break
            n = draw(st.sampled_from(cand))
            names.append(n)
            blocked.add(n)
            blocked |= model.descendants(model.nodes[n])
            blocked |= set(m for m in model.order if n in model.descendants(model.nodes[m]))
        req['layers'] = names
        resolved = set()
        for n in names:
            for rn, _ in (model.resolve_info if kind == 'fi' else model.resolve_map)(model.nodes[n]):
                resolved.add(rn)
        if kind == 'map':
            req['fmt'] = draw(st.sampled_from(['png', 'png', 'jpeg']))
            req['transparent'] = draw(st.booleans())
            req['auth'] = draw(auth_specs(model, resolved, 'map', island_ok, explicit=names))
        else:
            req['i'] = draw(st.floats(0, 0.999))
            req['j'] = draw(st.floats(0, 0.999))
            req['near'] = draw(near_specs())
            req['extra_layers'] = draw(st.booleans())
            req['auth'] = draw(auth_specs(model, resolved, 'featureinfo', island_ok, explicit=names))
    else:
        if kind == 'wmts_fi':
            cand = [n for n in tl if model.fi_sources([model.tile_source(model.nodes[n])]) and
                    _wmts_ok(model.sources[model.tile_source(model.nodes[n])]['grid'])]
        else:
            cand = tl
        name = draw(st.sampled_from(cand))
        grid = model.sources[model.tile_source(model.nodes[name])]['grid']
        lo, hi = GRIDS[grid]['levels']
        req['layer'] = name
        req['zi'] = draw(st.integers(lo, hi))
        allow_both = F_GLOBAL_IGNORED not in open_sigs
        local = bool(GRIDS[grid].get('local'))
        if local and draw(st.sampled_from([True, True, True, False])):
            # a border tile: first / last column and row (the last ones overhang the grid bbox)
            req['border'] = {'col': draw(st.sampled_from(['last', 'last', 'first', 'any'])),
                             'row': draw(st.sampled_from(['last', 'last', 'first', 'any']))}
        if kind == 'tile':
            svcs = ['tms', 'tms', 'tiles', 'kml']
            if grid != 'GLOBAL_GEODETIC':
                svcs += ['wmts', 'wmts_kvp']
            if GRIDS[grid].get('local'):
                svcs = GRIDS[grid]['svcs']
            req['svc'] = draw(st.sampled_from(svcs))
            req['origin_param'] = None
            if req['svc'] == 'tiles' and grid != 'GLOBAL_GEODETIC' and not GRIDS[grid].get('local'):
                req['origin_param'] = draw(st.sampled_from([None, None, 'nw', 'sw']))
            req['spec'] = draw(st.booleans())
            req['auth'] = draw(auth_specs(model, {name}, 'tile', island_ok, allow_both, explicit=[name]))
            if local:
                _grid_limits(draw, req, name)
            _exclude_layer_srs(req, name, GRIDS[grid]['srs'], open_sigs)
        else:
            req['rest'] = draw(st.booleans())
            req['i'] = draw(st.integers(0, 255))
            req['j'] = draw(st.integers(0, 255))
            req['near'] = draw(near_specs())
            req['auth'] = draw(auth_specs(model, {name}, 'featureinfo', island_ok, allow_both, explicit=[name]))
            if local:
                _grid_limits(draw, req, name)
            _exclude_layer_srs(req, name, GRIDS[grid]['srs'], open_sigs)
    return req


@st.composite
def cases(draw, n_requests=6):
    open_sigs_ = open_sigs()
    conf = draw(confs())
    model = Model(conf)
    reqs = [draw(requests_(model, open_sigs_)) for _ in range(n_requests)]
    return {'conf': conf, 'requests': reqs}


# ------------------------------------------------------------------------------------------------
# request construction

def map_frame(req, extents=None):
    srs = req['srs']
    cx, cy = ground.transform(req['lon'], req['lat'], 'EPSG:4326', srs)
    cx, cy = float(cx), float(cy)
    rx = req['res'] / 111320.0 if srs == 'EPSG:4326' else req['res']
    ry = rx * req['asp']
    w, h = req['w'], req['h']
    ext = (extents or {}).get(srs)
    if req.get('ext') and ext:
        # the frame sticks out of the SRS extent over the chosen edge(s) by `frac` of its width / height; along a
        # single edge it sits at fraction t of that edge
        e = req['ext']
        gw, gh = rx * w, ry * h
        cx = ext[0] + e['t'] * (ext[2] - ext[0])
        cy = ext[1] + e['t'] * (ext[3] - ext[1])
        if 'w' in e['edge']:
            cx = ext[0] + gw / 2 - e['frac'] * gw
        if 'e' in e['edge']:
            cx = ext[2] - gw / 2 + e['frac'] * gw
        if 's' in e['edge']:
            cy = ext[1] + gh / 2 - e['frac'] * gh
        if 'n' in e['edge']:
            cy = ext[3] - gh / 2 + e['frac'] * gh
    return Frame(srs, (cx - rx * w / 2, cy - ry * h / 2, cx + rx * w / 2, cy + ry * h / 2), (w, h))


def tile_address(req, grid_name):
    """-> (frame, x, y, z as they appear in the URL).  Address scheme of the services as documented:
    TMS: rows from the south, level shifted by one on the global profiles; KML: rows from the south;
    WMTS: rows from the north; /tiles: the grid's own numbering; ?origin= overrides."""
    g = GRIDS[grid_name]
    zi = req['zi']
    span = g['span0'] / 2 ** zi
    x0, y0, x1, y1 = g['bbox']
    cols = int(math.ceil((x1 - x0) / span - 1e-9))
    rows = int(math.ceil((y1 - y0) / span - 1e-9))
    X, Y = ground.transform(req['lon'], req['lat'], 'EPSG:4326', g['srs'])
    native = g['origin']
    col = min(max(int((float(X) - x0) // span), 0), cols - 1)
    # row in the grid's own numbering; tiles are anchored at the origin corner, so on a grid whose bbox is not a
    # multiple of the tile extent the last row / column overhangs the bbox
    if native == 'sw':
        row = min(max(int((float(Y) - y0) // span), 0), rows - 1)
    else:
        row = min(max(int((y1 - float(Y)) // span), 0), rows - 1)
    b = req.get('border')
    if b:
        col = {'first': 0, 'last': cols - 1}.get(b.get('col'), col)
        row = {'first': 0, 'last': rows - 1}.get(b.get('row'), row)
    svc = req.get('svc', 'wmts')
    if req['kind'] == 'wmts_fi' or svc in ('wmts', 'wmts_kvp'):
        origin = 'nw'
    elif svc in ('tms', 'kml'):
        origin = 'sw'
    else:
        origin = native
    if req.get('origin_param') and svc == 'tiles':
        origin = req['origin_param']
    if origin != native and g.get('local'):
        raise core.HarnessError('service %s does not address grid %s in its own numbering' % (svc, grid_name))
    y = row if origin == native else rows - 1 - row
    z = zi - 1 if (svc == 'tms' and req['kind'] == 'tile' and g['profile']) else zi
    if native == 'sw':
        bbox = (x0 + col * span, y0 + row * span, x0 + (col + 1) * span, y0 + (row + 1) * span)
    else:
        bbox = (x0 + col * span, y1 - (row + 1) * span, x0 + (col + 1) * span, y1 - row * span)
    fr = Frame(g['srs'], bbox, (256, 256))
    fr.grid_bbox = g['bbox']
    return fr, col, y, z, rows


def wms_url(req, frame, what):
    v = req['version']
    b = frame.bbox
    if v == '1.3.0' and ground.is_north_east(frame.srs):
        b = (b[1], b[0], b[3], b[2])
    p = [('SERVICE', 'WMS'), ('VERSION', v), ('REQUEST', what), ('LAYERS', ','.join(req['_layers_param'])),
         ('STYLES', ''), ('CRS' if v == '1.3.0' else 'SRS', frame.srs), ('BBOX', ','.join(repr(float(x)) for x in b)),
         ('WIDTH', str(frame.size[0])), ('HEIGHT', str(frame.size[1]))]
    if what == 'GetMap':
        p += [('FORMAT', 'image/' + req['fmt']), ('TRANSPARENT', 'TRUE' if req['transparent'] else 'FALSE'),
              ('BGCOLOR', '0x%02x%02x%02x' % tuple(req['_bg']))]
    else:
        p += [('FORMAT', 'image/png'), ('QUERY_LAYERS', ','.join(req['layers'])), ('INFO_FORMAT', 'text/plain'),
              ('I' if v == '1.3.0' else 'X', str(req['_pos'][0])), ('J' if v == '1.3.0' else 'Y', str(req['_pos'][1]))]
    from urllib.parse import urlencode
    return '/service?' + urlencode(p)


class AuthCallback(object):
    """The `mapproxy.authorize` callable: static table lookup, records how it was called."""

    def __init__(self, spec, concs, glob):
        self.spec = spec
        self.concs = concs
        self.glob = glob
        self.calls = []

    def __call__(self, service, layers=None, environ=None, query_extent=None, **kw):
        self.calls.append((service, list(layers or []), query_extent))
        mode = self.spec['mode']
        if mode in ('full', 'none', 'unauthenticated'):
            return {'authorized': mode}
        res = {'authorized': 'partial', 'layers': {}}
        for name, p in self.spec['layers'].items():
            d = {}
            for f in ('map', 'featureinfo', 'tile'):
                if f in p:
                    d[f] = p[f]
            if name in self.concs:
                d['limited_to'] = limit_value(self.concs[name])
            res['layers'][name] = d
        if self.glob is not None:
            res['limited_to'] = limit_value(self.glob)
        return res


# ------------------------------------------------------------------------------------------------
# oracle

def V(sig, msg, case):
    return core.Violation('C10/' + sig, msg, case)


def classify(arr, palette_idx, tol):
    """per pixel: -1 blank (alpha 0), palette index when within tol of that colour and alpha 255, -2 otherwise"""
    rgb = arr[..., :3].astype(int)
    a = arr[..., 3]
    out = np.full(a.shape, -2, int)
    for idx in palette_idx:
        c = np.array(PALETTE[idx])
        m = (np.abs(rgb - c).max(axis=2) <= tol) & (a == 255)
        out[m] = idx
    out[a == 0] = -1
    return out


class Harness(object):
    def __init__(self, case, stats):
        self.case = case
        self.stats = stats
        self.exclude_open = True   # False when a committed regression case is replayed (it must show the finding)
        self.model = Model(case['conf'])
        self.dir = None
        self.up = None
        self.app = None

    def __enter__(self):
        import webtest
        _quiet()
        self.dir = tempfile.mkdtemp(prefix='c10_')
        m = self.model

        def render(info):
            from PIL import Image
            return Image.new('RGB', tuple(info['size']), PALETTE[m.colour[info['layers'][-1]]])

        def info(i):
            return (''.join('INFO:%s;' % l for l in i['query_layers'])).encode(), 'text/plain'
        self.up = ground.Upstream(None)
        for h in HOSTS:
            self.up.add_wms(h, render_fn=render, info_fn=info)
        self.up.__enter__()
        try:
            self.app = webtest.TestApp(ground.make_app(m.yaml(), self.dir))
        except BaseException:
            self.__exit__()
            raise
        return self

    def __exit__(self, *exc):
        try:
            if self.up is not None:
                self.up.__exit__()
        finally:
            if self.dir:
                shutil.rmtree(self.dir, ignore_errors=True)
        return False

    # -- one request ------------------------------------------------------------------------------

    def sub_case(self, req):
        r = dict((k, v) for k, v in req.items() if not k.startswith('_'))
        return {'conf': self.case['conf'], 'requests': [r]}

    def run_request(self, req):
        """-> (violation or None)."""
        req = dict(req)
        m, stats = self.model, self.stats
        kind = req['kind']
        auth = req['auth']
        case = self.sub_case(req)
        classes = ['kind:' + kind, 'mode:' + auth['mode']]
        excluded_here = []

        # frame and address
        if kind in ('map', 'fi'):
            frame = map_frame(req, m.extents if kind == 'map' else None)
            service = 'wms.map' if kind == 'map' else 'wms.featureinfo'
            req['_layers_param'] = list(req['layers'])
            if kind == 'fi':
                req['_pos'] = self.click_position(req, frame, (int(req['i'] * frame.size[0]), int(req['j'] * frame.size[1])))
                if req.get('extra_layers'):
                    extra = [n for n in m.order if n not in req['layers']]
                    req['_layers_param'] = list(req['layers']) + extra[:1]
                url = wms_url(req, frame, 'GetFeatureInfo')
            else:
                req['_bg'] = PALETTE[m.bg_idx]
                url = wms_url(req, frame, 'GetMap')
            classes += ['srs:' + frame.srs, 'wms:' + req['version'],
                        'on_source_errors:' + str(m.conf.get('on_source_errors') or 'absent')]
        else:
            node = m.nodes[req['layer']]
            src = m.tile_source(node)
            s = m.sources[src]
            grid = s['grid']
            frame, x, y, z, rows = tile_address(req, grid)
            fmt = s['fmt']
            if kind == 'tile':
                svc = req['svc']
                service = {'tms': 'tms', 'tiles': 'tms', 'kml': 'kml', 'wmts': 'wmts', 'wmts_kvp': 'wmts'}[svc]
                spec = GRIDS[grid]['spec']
                if svc in ('tms', 'tiles'):
                    mid = ('/' + spec) if (req['spec'] or spec not in ('EPSG900913', 'EPSG4326')) else ''
                    url = '/%s/%s%s/%d/%d/%d.%s' % ('tms/1.0.0' if svc == 'tms' else 'tiles', req['layer'], mid, z, x, y, fmt)
                    if req.get('origin_param'):
                        url += '?origin=' + req['origin_param']
                elif svc == 'kml':
                    url = '/kml/%s/%s/%d/%d/%d.%s' % (req['layer'], spec, z, x, y, fmt)
                elif svc == 'wmts':
                    url = '/wmts/%s/%s/%02d/%d/%d.%s' % (req['layer'], grid, z, x, y, fmt)
                else:
                    url = ('/service?SERVICE=WMTS&REQUEST=GetTile&VERSION=1.0.0&LAYER=%s&STYLE=&TILEMATRIXSET=%s'
                           '&TILEMATRIX=%02d&TILEROW=%d&TILECOL=%d&FORMAT=image/%s' % (req['layer'], grid, z, y, x, fmt))
                classes += ['svc:' + svc, 'grid:' + grid, 'cache:' + fmt + ('/stored' if s['storage'] else '')]
            else:
                service = 'wmts.featureinfo'
                req['i'], req['j'] = self.click_position(req, frame, (req['i'], req['j']))
                if req['rest']:
                    url = '/wmts/%s/%s/%02d/%d/%d/%d/%d.txt' % (req['layer'], grid, z, x, y, req['i'], req['j'])
                else:
                    url = ('/service?SERVICE=WMTS&REQUEST=GetFeatureInfo&VERSION=1.0.0&LAYER=%s&STYLE=&TILEMATRIXSET=%s'
                           '&TILEMATRIX=%02d&TILEROW=%d&TILECOL=%d&FORMAT=image/%s&INFOFORMAT=text/plain&I=%d&J=%d'
                           % (req['layer'], grid, z, y, x, fmt, req['i'], req['j']))
                req['_pos'] = (req['i'], req['j'])
                classes += ['svc:wmts_fi' + ('/rest' if req['rest'] else '/kvp'), 'grid:' + grid]

        # concretise the limits in this frame
        concs = {}
        glob = None
        if auth['mode'] == 'partial':
            for name, p in auth['layers'].items():
                if p.get('limit'):
                    concs[name] = concretise_limit(p['limit'], frame)
            if auth.get('global'):
                glob = concretise_limit(auth['global'], frame)
            if auth.get('suppressed'):
                stats.excluded['open-finding: ' + auth['suppressed']] += 1
            for lim in [p.get('limit') for p in auth['layers'].values()] + [auth.get('global')]:
                if lim and lim['shape'].get('suppressed'):
                    stats.excluded['open-finding: island-in-hole geometry'] += 1
        cb = AuthCallback(auth, concs, glob)
        env = {} if auth['mode'] == 'noauth' else {'mapproxy.authorize': cb}

        self.up.clear()
        resp = self.app.get(url, extra_environ=env, expect_errors=True)
        calls = self.up.calls()
        status = resp.status_int
        ctype = resp.content_type or ''

        def done(v, nontrivial=False):
            stats.case(key=case, nontrivial=nontrivial, classes=sorted(set(classes)), sample=case)
            return v

        # -- configured SRS extent (services.wms.bbox_srs with an explicit bbox): GetMap renders only the part of the
        # request inside it and leaves the rest background (doc/services.rst "bbox_srs", test_wms_srs_extent.py)
        sub_bbox = None
        extent_px = None
        if kind == 'map' and frame.srs in m.extents:
            ext = m.extents[frame.srs]
            b = frame.bbox
            if ext[0] <= b[0] and ext[1] <= b[1] and ext[2] >= b[2] and ext[3] >= b[3]:
                classes.append('srs-extent:contains-request')
            else:
                inter = (max(ext[0], b[0]), max(ext[1], b[1]), min(ext[2], b[2]), min(ext[3], b[3]))
                if inter[0] >= inter[2] or inter[1] >= inter[3]:
                    # nothing to render, nothing to authorize: whatever the callback would say, nothing of any layer
                    # may result
                    classes.append('srs-extent:disjoint')
                    bad_call = [c for c in calls if c.kind in ('map', 'featureinfo')]
                    if bad_call:
                        stats.notes['upstream-request-for-map-outside-srs-extent'] += 1
                    return done(None)
                sub_bbox = inter
                x0, y0 = frame.ground_to_px(inter[0], inter[3])
                x1, y1 = frame.ground_to_px(inter[2], inter[1])
                extent_px = (float(x0), float(y0), float(x1), float(y1))
                share = (x1 - x0) * (y1 - y0) / float(frame.size[0] * frame.size[1])
                classes.append('srs-extent:request-reaches-beyond/' + ('mostly' if share < 0.5 else 'partly'))

        # -- whole-request verdicts --------------------------------------------------------------
        # 'unauthenticated' -> 401 everywhere; 'none' -> 403 for the tile services.  For the WMS operations 'none'
        # is judged like a partial result that permits nothing: the property only demands that nothing of the
        # layers results (a 403, or - for pure group requests - a blank answer without upstream requests).
        if auth['mode'] == 'unauthenticated' or (auth['mode'] == 'none' and kind in ('tile', 'wmts_fi')):
            want = 403 if auth['mode'] == 'none' else 401
            classes.append('result:%d' % want)
            if status != want:
                return done(V('%s/%s-not-%d' % (service, auth['mode'], want),
                              'callback returned %s but the response is %d %s' % (auth['mode'], status, ctype), case))
            if any(c.kind in ('map', 'featureinfo') for c in calls):
                return done(V('%s/%s-upstream-request' % (service, auth['mode']),
                              'callback returned %s but upstream was asked: %s' % (auth['mode'], calls[0].url), case))
            return done(None)
        if status >= 500:
            stats.inconclusive['http-%d' % status] += 1
            stats.notes['http-5xx:' + service] += 1
            return done(None)

        partial = auth['mode'] == 'partial'

        def perm(name, feature):
            if auth['mode'] == 'none':
                return False
            if not partial:
                return True
            return auth['layers'].get(name, {}).get(feature) is True

        def regions_for(name, both=True):
            rs = []
            if partial:
                if name in concs and auth['layers'].get(name, {}).get('limit'):
                    rs.append(concs[name]['region'])
                if glob is not None and both:
                    rs.append(glob['region'])
            return rs

        def limit_classes(name):
            out = []
            if not partial:
                return out
            has_l = name in concs
            has_g = glob is not None
            if has_l and has_g:
                out.append('limit:both')
            elif has_l:
                out.append('limit:layer')
            elif has_g:
                out.append('limit:global')
            for c in ([concs[name]] if has_l else []) + ([glob] if has_g else []):
                out.append('geom:' + c['region'].kind)
                out.append('send:' + c['send'])
                out.append('limit-srs:' + ('same' if same_srs(c['srs'], frame.srs) else 'other'))
            return out

        def deviating(rs):
            bad = [r for r in rs if r.dev >= DEV_LIMIT]
            if bad:
                stats.excluded['limit-reprojection-deviation>=0.2px'] += 1
            return bool(bad)

        def rejected(svc_name):
            """a request whose every resolved layer is permitted was refused: the permitted content is lost"""
            return V('%s/permitted-request-rejected' % svc_name,
                     'every layer of the request is permitted for this operation, but the response is %d %s'
                     % (status, ctype), case)

        def check_extent():
            """query_extent handed to the callback must be the frame (harness cross-check)"""
            for svc_name, _layers, qe in cb.calls:
                if qe is None:
                    continue
                code, bbox = qe
                want_bbox = sub_bbox or frame.bbox
                ok = same_srs(code, frame.srs) and all(
                    abs(a - b) <= 1e-6 * max(1.0, abs(frame.bbox[2] - frame.bbox[0])) for a, b in zip(bbox, want_bbox))
                if not ok:
                    return False
            return True

        # =========================================================================================
        if kind == 'map':
            requested = list(req['layers'])
            items = []      # bottom -> top: dict(name, uid, allowed, regions, below_opaque)
            last_opaque = -1
            for qi, n in enumerate(requested):
                if m.opaque_declared(m.nodes[n]):
                    last_opaque = qi
            explicit_denied = []
            for qi, n in enumerate(requested):
                for rn, uids in m.resolve_map(m.nodes[n]):
                    ok = perm(rn, 'map')
                    if not ok:
                        classes.append('denied:explicit' if rn in requested else 'denied:group-member')
                        if rn in requested:
                            explicit_denied.append((rn, qi < last_opaque))
                    else:
                        classes.extend(limit_classes(rn))
                    for u in uids:
                        items.append({'name': rn, 'uid': u, 'allowed': ok, 'regions': regions_for(rn) if ok else [],
                                      'maybe_absent': qi < last_opaque})
            denied_uids = set(it['uid'] for it in items if not it['allowed'])
            for c in calls:
                if c.kind == 'map' and set(c.info.get('layers', [])) & denied_uids:
                    return done(V('wms.map/denied-layer-upstream-request',
                                  'upstream GetMap names denied layer(s) %s: %s'
                                  % (sorted(set(c.info['layers']) & denied_uids), c.url), case))
            must_reject = [n for n, soft in explicit_denied if not soft]
            if must_reject:
                classes.append('result:403')
                if status != 403:
                    return done(V('wms.map/explicit-denied-not-rejected',
                                  'layer %s was requested by name and is not permitted, response is %d %s'
                                  % (must_reject[0], status, ctype), case))
                return done(None)
            if explicit_denied and status == 403:
                classes.append('result:403')
                return done(None)
            if auth['mode'] == 'none' and status == 200:
                stats.notes['wms-none-answered-200 (group request, doc/auth.rst says 403)'] += 1
            if status in (401, 403):
                return done(rejected('wms.map'))
            if status != 200 or not ctype.startswith('image/'):
                raise core.HarnessError('unexpected GetMap response %d %s for %s: %r' % (status, ctype, url, resp.body[:300]))
            if not check_extent():
                stats.inconclusive['map-query-extent-mismatch'] += 1
                return done(None)
            img = ground.decode_image(resp.body)
            if img.size != frame.size:
                raise core.HarnessError('GetMap size %r, requested %r' % (img.size, frame.size))
            arr = ground.to_rgba_array(img)
            is_jpeg = ctype == 'image/jpeg'
            classes.append('out:' + ('jpeg' if is_jpeg else 'png') + ('/transparent' if req['transparent'] else '/bgcolor'))
            allowed_items = [it for it in items if it['allowed']]
            if len(allowed_items) == 1:
                classes.append('single-layer')
            v, nt = self.judge_pixels(arr, frame, allowed_items, denied_uids, is_jpeg, 'wms.map', case, classes,
                                      deviating, extent_px=extent_px)
            return done(v, nt)

        # =========================================================================================
        if kind == 'tile':
            name = req['layer']
            uid = m.tile_source(m.nodes[name])
            ok = perm(name, 'tile')
            if not ok:
                classes.append('denied:tile')
                classes.append('result:403')
                if status != 403:
                    return done(V('tile.%s/denied-not-403' % service, 'tile layer %s is not permitted, response is %d %s'
                                  % (name, status, ctype), case))
                if any(c.kind == 'map' for c in calls):
                    return done(V('tile.%s/denied-layer-upstream-request' % service,
                                  'upstream asked for a denied tile layer: %s' % calls[0].url, case))
                return done(None)
            if status in (401, 403):
                return done(rejected('tile.' + service))
            if status != 200 or not ctype.startswith('image/'):
                raise core.HarnessError('unexpected tile response %d %s for %s: %r' % (status, ctype, url, resp.body[:300]))
            if not check_extent():
                stats.inconclusive['tile-georef-model-mismatch'] += 1
                return done(None)
            classes.extend(limit_classes(name))
            img = ground.decode_image(resp.body)
            if img.size != frame.size:
                raise core.HarnessError('tile size %r' % (img.size,))
            arr = ground.to_rgba_array(img)
            classes.append('tile-out:' + ctype.split('/')[-1])
            item = {'name': name, 'uid': uid, 'allowed': True, 'regions': regions_for(name), 'maybe_absent': False}
            grid_px = None
            overhang = False
            gb = getattr(frame, 'grid_bbox', None)
            if gb is not None:
                ax, ay = frame.ground_to_px(gb[0], gb[3])
                bx, by = frame.ground_to_px(gb[2], gb[1])
                grid_px = (float(ax), float(ay), float(bx), float(by))
                if ax > 0 or ay > 0 or bx < frame.size[0] or by < frame.size[1]:
                    classes.append('tile-overhangs-grid-bbox')
                    overhang = True
            v, nt = self.judge_pixels(arr, frame, [item], set(), False, 'tile.' + service, case, classes, deviating,
                                      both=(name in concs and glob is not None), layer_region=concs.get(name),
                                      tol=TOL_JPEG if (fmt == 'jpeg' and overhang) else TOL_PNG + 4, grid_px=grid_px,
                                      grid_edge_skip=16 if (fmt == 'jpeg' and overhang) else 0)
            return done(v, nt)

        # =========================================================================================
        px, py = req['_pos'][0] + 0.5, req['_pos'][1] + 0.5

        def queried_location(call):
            """pixel coordinates (in our frame) of the location an upstream GetFeatureInfo call asked about"""
            i = call.info
            b, (w, h) = i['bbox'], i['size']
            X = b[0] + (i['pos'][0] + 0.5) * (b[2] - b[0]) / w
            Y = b[3] - (i['pos'][1] + 0.5) * (b[3] - b[1]) / h
            gx, gy = ground.transform(X, Y, i['srs'], frame.srs)
            qx, qy = frame.ground_to_px(gx, gy)
            return float(qx), float(qy)

        body = resp.body.decode('latin-1')
        fi_calls = [c for c in calls if c.kind == 'featureinfo']

        def judge_info(name, uid, rs, svc, complete=True):
            """limited feature info of one permitted upstream layer"""
            token = 'INFO:%s;' % uid
            returned = token in body
            asked = [c for c in fi_calls if uid in c.info.get('query_layers', [])]
            if deviating(rs):
                return None, False
            cls = [r.point_class(px, py) for r in rs]
            where = -1 if any(c < 0 for c in cls) else (0 if any(c == 0 for c in cls) else 1)
            classes.append('fi:' + {1: 'inside', 0: 'band', -1: 'outside'}[where] if rs else 'fi:unlimited')
            shapely = _shp()
            nt = any((not r.geom.is_empty) and r.geom.boundary.intersects(shapely.geometry.box(0, 0, *frame.size)) for r in rs)
            if returned:
                for c in asked:
                    qx, qy = queried_location(c)
                    if any(r.point_class(qx, qy, 1.5) < 0 for r in rs):
                        return V('%s/info-returned-for-location-outside-limit' % svc,
                                 'feature info of %s (layer %s) was returned for a location %.1f,%.1f px outside the '
                                 'permitted geometry' % (uid, name, qx, qy), case), nt
            if not complete:
                return None, nt
            if where < 0 and returned:
                return V('%s/info-returned-outside-limit' % svc,
                         'click (%g, %g) lies more than 1 px outside the geometry layer %s is limited to, but its feature '
                         'info was returned' % (px, py, name), case), nt
            if where < 0 and asked:
                stats.notes['fi-forwarded-while-outside'] += 1
            if where > 0 and not returned:
                return V('%s/info-lost-inside-limit' % svc,
                         'click (%g, %g) lies more than 1 px inside the permitted geometry of layer %s, but its feature '
                         'info is missing (status %d, body %r)' % (px, py, name, status, body[:80]), case), nt
            return None, nt

        if kind == 'fi':
            lp = req['_layers_param']
            items = []
            must_reject = []
            for n in req['layers']:
                for rn, uids in m.resolve_info(m.nodes[n]):
                    ok = perm(rn, 'featureinfo')
                    if not ok:
                        classes.append('denied:explicit' if rn in req['layers'] else 'denied:group-member')
                        if rn in lp:
                            must_reject.append(rn)
                    else:
                        classes.extend(limit_classes(rn))
                    for u in uids:
                        items.append((rn, u, ok))
            denied = set(u for _, u, ok in items if not ok)
            for c in fi_calls:
                hit = (set(c.info.get('query_layers', [])) | set(c.info.get('layers', []))) & denied
                if hit:
                    return done(V('wms.featureinfo/denied-layer-upstream-request',
                                  'upstream GetFeatureInfo names denied layer(s) %s: %s' % (sorted(hit), c.url), case))
            for u in denied:
                if 'INFO:%s;' % u in body:
                    return done(V('wms.featureinfo/denied-info-returned',
                                  'feature info of denied upstream layer %s is in the response' % u, case))
            if must_reject:
                classes.append('result:403')
                if status != 403:
                    return done(V('wms.featureinfo/explicit-denied-not-rejected',
                                  'layer %s was requested by name and featureinfo is not permitted, response is %d %s'
                                  % (must_reject[0], status, ctype), case))
                return done(None)
            if status == 403 and denied:
                classes.append('result:403')
                return done(None)
            if auth['mode'] == 'none' and status == 200:
                stats.notes['wms-none-answered-200 (group request, doc/auth.rst says 403)'] += 1
            if status in (401, 403):
                return done(rejected('wms.featureinfo'))
            if status != 200:
                raise core.HarnessError('unexpected GetFeatureInfo response %d %s for %s: %r'
                                        % (status, ctype, url, resp.body[:300]))
            if not check_extent():
                stats.inconclusive['fi-query-extent-mismatch'] += 1
                return done(None)
            nontrivial = False
            for rn, u, ok in items:
                if not ok:
                    continue
                v, nt = judge_info(rn, u, regions_for(rn), 'wms.featureinfo')
                nontrivial = nontrivial or nt
                if v is not None:
                    return done(v, nontrivial)
            return done(None, nontrivial)

        # wmts_fi
        name = req['layer']
        uid = m.tile_source(m.nodes[name])
        ok = perm(name, 'featureinfo')
        if not ok:
            classes.append('denied:featureinfo')
            classes.append('result:403')
            if status != 403:
                return done(V('wmts.featureinfo/denied-not-403', 'featureinfo of %s is not permitted, response is %d %s'
                              % (name, status, ctype), case))
            if fi_calls:
                return done(V('wmts.featureinfo/denied-layer-upstream-request',
                              'upstream asked for denied feature info: %s' % fi_calls[0].url, case))
            return done(None)
        if status in (401, 403):
            return done(rejected('wmts.featureinfo'))
        if status != 200:
            raise core.HarnessError('unexpected WMTS GetFeatureInfo response %d %s for %s: %r'
                                    % (status, ctype, url, resp.body[:300]))
        classes.extend(limit_classes(name))
        both = name in concs and glob is not None
        # rows are mirrored by MapProxy on south-west grids unless the tile is its own mirror image
        g = GRIDS[m.sources[uid]['grid']]
        mirrored = g['origin'] == 'sw' and (rows - 1 - y) != y
        if mirrored:
            stats.excluded['wmts-fi-on-sw-grid-judged-at-queried-location'] += 1
        elif not check_extent():
            stats.inconclusive['wmts-fi-georef-model-mismatch'] += 1
            return done(None)
        v, nt = judge_info(name, uid, regions_for(name), 'wmts.featureinfo', complete=not mirrored)
        if v is not None and both and F_GLOBAL_IGNORED.split('/', 1)[1] not in v.signature:
            # refine: does the verdict disappear when only the layer limit counts?
            v2, _ = judge_info(name, uid, regions_for(name, both=False), 'wmts.featureinfo', complete=not mirrored)
            if v2 is None and same_srs(concs[name]['srs'], frame.srs):
                v = core.Violation(F_GLOBAL_IGNORED, v.message + ' [the global limited_to is ignored because the layer '
                                   'has its own limited_to]', case)
            elif v2 is None:
                v = core.Violation(F_LAYER_SRS, v.message + ' [the verdict disappears without the request-wide limited_to; the '
                                   'layer limited_to is given in %s]' % concs[name]['srs'], case)
        return done(v, nt)

    def click_position(self, req, frame, default):
        near = req.get('near')
        auth = req['auth']
        if not near or auth['mode'] != 'partial':
            return default
        lims = [auth['layers'][n]['limit'] for n in sorted(auth['layers']) if auth['layers'][n].get('limit')]
        if auth.get('global'):
            lims.append(auth['global'])
        if not lims:
            return default
        region = concretise_limit(lims[0], frame)['region']
        b = region.geom.boundary
        if b.is_empty:
            return default
        p = b.interpolate(near['t'], normalized=True)
        x = p.x + near['off'] * math.cos(near['ang']) - 0.5
        y = p.y + near['off'] * math.sin(near['ang']) - 0.5
        w, h = frame.size
        if not (math.isfinite(x) and math.isfinite(y)):
            return default
        return (min(max(int(round(x)), 0), w - 1), min(max(int(round(y)), 0), h - 1))

    # -- pixels ------------------------------------------------------------------------------------

    def judge_pixels(self, arr, frame, items, denied_uids, is_jpeg, svc, case, classes, deviating, both=False,
                     layer_region=None, tol=None, extent_px=None, grid_px=None, grid_edge_skip=0):
        """items: permitted draw items bottom -> top.  Returns (violation or None, nontrivial).
        extent_px: rectangle (pixel coordinates) of the configured SRS extent when the request reaches beyond it."""
        m = self.model
        w, h = frame.size
        X, Y = np.meshgrid(np.arange(w) + 0.5, np.arange(h) + 0.5)
        band = BAND_JPEG if is_jpeg else BAND
        band_in = BAND_JPEG if is_jpeg else BAND_IN
        if extent_px is not None:
            # the reduced picture is pasted at whole-pixel offsets (bbox_position_in_image truncates): up to one more
            # pixel of displacement that is not an authorization matter
            band += EXTENT_SLACK
            band_in += EXTENT_SLACK
        tol = TOL_JPEG if is_jpeg else (tol or TOL_PNG)
        all_regions = []
        for it in items:
            for r in it['regions']:
                if r not in all_regions:
                    all_regions.append(r)
        if deviating(all_regions):
            return None, False
        obs = classify(arr, sorted(set(m.colour.values()) | {m.bg_idx}), tol)
        colour_owner = dict((c, u) for u, c in m.colour.items())

        BLANK = -1
        expected = np.full((h, w), -3, int)     # -3 = not judged
        maybe_blank = np.zeros((h, w), bool)
        undecided = np.ones((h, w), bool)
        nontrivial = False
        allowed_at = {}                          # colour idx -> mask where that colour is certainly not permitted
        for it in reversed(items):
            ins = np.ones((h, w), bool)
            outs = np.zeros((h, w), bool)
            for r in it['regions']:
                i_, o_ = r.masks(X, Y, band, band_in)
                ins &= i_
                outs |= o_
                if i_.any() and o_.any():
                    nontrivial = True
            c = m.colour[it['uid']]
            allowed_at[c] = outs
            if it['maybe_absent']:
                maybe_blank |= undecided
            hit = undecided & ins
            expected[hit] = c
            undecided &= ~hit
            bandm = undecided & ~(ins | outs)
            undecided &= ~bandm
        expected[undecided] = BLANK
        if is_jpeg:
            # near any limit boundary a JPEG response is not judged at all
            for r in all_regions:
                i_, o_ = r.masks(X, Y, band, band_in)
                expected[~(i_ | o_)] = -3
        if extent_px is not None:
            ex0, ey0, ex1, ey1 = extent_px
            d = 2.0 + EXTENT_SLACK
            well_in_extent = (X > ex0 + d) & (X < ex1 - d) & (Y > ey0 + d) & (Y < ey1 - d)
            maybe_blank |= ~well_in_extent           # background outside the extent (and in the rim around its edge)
            if is_jpeg:
                out_of_extent = (X < ex0 - band) | (X > ex1 + band) | (Y < ey0 - band) | (Y > ey1 + band)
                expected[~(well_in_extent | out_of_extent)] = -3
        if grid_px is not None:
            # beyond the bbox of the cache grid a border tile may or may not have content (meta tile requests are cut to
            # the grid bbox, single tile requests are not): blank is accepted there, a leak is still a leak
            gx0, gy0, gx1, gy1 = grid_px
            beyond_grid = ~((X > gx0 + 2) & (X < gx1 - 2) & (Y > gy0 + 2) & (Y < gy1 - 2))
            maybe_blank |= beyond_grid
            if grid_edge_skip:
                # jpeg cache: the step between content and white no-data at the grid border rings over two blocks
                k = grid_edge_skip
                near_edge = ((np.abs(X - gx0) <= k) | (np.abs(X - gx1) <= k) | (np.abs(Y - gy0) <= k) | (np.abs(Y - gy1) <= k))
                expected[near_edge] = -3
        thin_near = np.zeros((h, w), bool)
        for r in all_regions:
            t_ = r.thin_near(X, Y)
            if t_ is not None:
                thin_near |= t_
        if thin_near.any():
            classes.append('geom-has-subpixel-thin-part')
            if F_SLIVER in open_sigs() and self.exclude_open:
                # open finding: MapProxy draws parts thinner than ~1.5 px displaced by up to 1.25 px; not judged there
                self.stats.excluded['open-finding: pixels within 2 px of a sub-pixel-thin part of a limit geometry'] += 1
                expected[thin_near] = -3
        judged = expected != -3
        blank_obs = (obs == BLANK) | (obs == m.bg_idx)
        if grid_px is not None:
            # "no data" of an opaque (jpeg) cache is white
            blank_obs |= beyond_grid & (arr[..., :3].min(axis=2) >= 250) & (arr[..., 3] == 255)
        okm = (obs == expected) | ((expected == BLANK) & blank_obs) | (maybe_blank & blank_obs)
        bad = judged & ~okm
        classes.append('crosses-boundary' if nontrivial else ('limited-trivially' if all_regions else 'unlimited'))
        if not bad.any():
            return None, nontrivial
        ys, xs = np.nonzero(bad)
        # root cause refinement
        k = 0
        px, py = int(xs[k]), int(ys[k])
        o = int(obs[py, px])
        e = int(expected[py, px])
        n_bad = int(bad.sum())
        where = 'pixel (%d, %d) of %dx%d, %d such pixels' % (px, py, w, h, n_bad)
        got = 'blank' if o == BLANK else ('colour %r' % (tuple(int(v) for v in arr[py, px]),))
        want = 'blank' if e == BLANK else ('%r of %s' % (PALETTE[e], colour_owner.get(e)))
        if o >= 0 and colour_owner.get(o) in denied_uids:
            return V(svc + '/denied-layer-visible', 'the colour of denied upstream layer %s shows at %s'
                     % (colour_owner[o], where), case), nontrivial
        leak = np.zeros((h, w), bool)
        for c, outs in allowed_at.items():
            leak |= bad & (obs == c) & outs
        if leak.any():
            ys, xs = np.nonzero(leak)
            px, py = int(xs[0]), int(ys[0])
            u = colour_owner[int(obs[py, px])]
            sig = svc + '/outside-limit-visible'
            extra = ''
            if thin_near.any() and not (leak & ~thin_near).any():
                sig = F_SLIVER[4:]
                extra = (' [all such pixels lie within 2 px of a part of the geometry that is thinner than 1.5 px: the mask '
                         'draws it displaced]')
            if both and layer_region is not None:
                li, lo = layer_region['region'].masks(X, Y, band, band_in)
                if not (leak & lo).any():
                    if same_srs(layer_region['srs'], frame.srs):
                        sig = F_GLOBAL_IGNORED[4:]
                        extra = ' [all leaked pixels are inside the layer limited_to: the global limited_to is ignored]'
                    else:
                        sig = F_LAYER_SRS[4:]
                        extra = (' [all leaked pixels are inside the layer limited_to, which is given in %s: the request-wide '
                                 'limited_to is ignored or displaced by intersecting in that SRS]' % layer_region['srs'])
            return V(sig, 'upstream layer %s is visible at pixel (%d, %d) of %dx%d, more than %g px outside the geometry '
                     'it is limited to (%d such pixels)%s' % (u, px, py, w, h, band, int(leak.sum()), extra), case), nontrivial
        sig = svc + '/inside-limit-lost'
        lost = bad & (expected >= 0)
        if lost.any():
            isl = np.zeros((h, w), bool)
            for r in all_regions:
                if r.kind == 'island':
                    isl |= r.island_mask(X, Y)
            if isl.any() and not (lost & ~isl).any():
                sig = F_ISLAND[4:]
        return V(sig, 'expected %s but got %s at %s' % (want, got, where), case), nontrivial


# ------------------------------------------------------------------------------------------------

def evaluate(case, stats, first_only=True, exclude_open=True):
    out = []
    with Harness(case, stats) as hs:
        hs.exclude_open = exclude_open
        for req in case['requests']:
            v = hs.run_request(req)
            if v is not None:
                out.append(v)
                if first_only:
                    break
    return out


def check_case(case, stats):
    # a request that only re-finds an open known finding must not hide another violation of the same case
    known = open_sigs()
    vs = evaluate(case, stats, first_only=False)
    for v in vs:
        if v.signature not in known:
            return v
    return vs[0] if vs else None


def search_shard(shard, nshards, seed, tier):
    st_ = core.Stats()
    total = 2000 if tier == 'quick' else 48000
    n = max(1, total // nshards)
    core.hyp_search(cases(), check_case, st_, max_examples=n, seed=seed, shrink=False)
    return st_


def run(tier, seed, stats):
    _quiet()
    open_sigs()
    stats.merge(core.parallel(search_shard, 16, seed, tier))


def replay(case, stats):
    _quiet()
    return evaluate(case, stats, first_only=False, exclude_open=False)
