"""C02 - Tile addresses mean what the capabilities documents say they mean.

One generated MapProxy configuration (grid x coverage x service options) is loaded per case; the
reference client (vcheck/refclient.py) reads ONLY the documents the application serves (TMS root + TileMap,
WMTS capabilities KVP and RESTful, WMS 1.1.1 capabilities with tiled=true, KML super-overlay documents),
computes for drawn advertised addresses the ground rectangle a standards-following client expects, fetches
the tile and judges the pixels with the ground-function oracle over that rectangle.  Tiles that name the
same ground rectangle through different services / origin conventions must decode to the same pixels.
See DESIGN.md section 3.
"""
import math
import os
import shutil
import tempfile
from fractions import Fraction as Fr

import numpy as np
from hypothesis import strategies as st

from .. import core, ground, refclient

PROPERTY = 'C02'
LEVEL = 'exploration'
RULE = ('Hypothesis-generated configurations: one cached layer on a synthetic WMS whose content is an analytic, '
        'level-dependent ground function; grid = GLOBAL_MERCATOR / GLOBAL_GEODETIC / GLOBAL_WEBMERCATOR (TMS hides '
        'level 0) or custom grid with SRS in {3857, 900913, 4326, 25832, 31467, 3035 (both north-east axis order), '
        '2263 (US feet)}, bbox arbitrary or a multiple of the tile span, origin ll/ul/sw/nw, tile size 32-256 incl. '
        'non-square, resolutions factor 2 / sqrt2 / custom lists / min_res; optional source or cache coverage; tms, kml, '
        'wmts (kvp + restful, default or custom template) and wms (tiled) enabled.  Per configuration every '
        'capabilities document is parsed and ~45 advertised addresses are drawn per service over all levels '
        '(first / second / last / interior column and row); each fetched tile is one evaluation.  An evaluation is '
        'non-trivial when pixels were judged and the address is off the diagonal (col != row or the flipped row '
        'differs from the row), or its level is > 0, or the service remaps levels (global profile / sqrt2), or it is a '
        'KML overlay found by crawling; distinct = distinct (configuration, service, address URL).  Every judged tile '
        'drawn with the cross flag is also fetched through every other service / origin convention that names the '
        'same rectangle (located by exact-rational rectangle matching) and compared pixel by pixel.')
ASSUMPTIONS = [
    'reference client written from TMS 1.0.0 / WMTS 1.0.0 / WMS-C / KML 2.2 conventions, exact rational arithmetic',
    'pixel oracle: rho = 1 output pixel, eps = 3 levels; a tile is rejected when > max(2, 1 %) of the judged sample pixels are rejected',
    'only pixels farther than 1.5 px inside the data area (grid bbox and configured coverage) are judged; tiles crossing a '
    'coverage edge are not judged (MapProxy builds them from a clipped, rescaled upstream request); blank tiles are not compared '
    'across services (WMS answers with its background colour)',
    'the synthetic upstream renders a level-dependent field (anchor = nearest advertised resolution), so a tile of a wrong level is '
    'visible on every level; an advertised TMS / WMS-C tile must overlap the BoundingBox by more than one pixel',
    'documented limitation (doc/configuration.rst, grid origin): when a y-flip moves tile edges by more than 0.05 px on some '
    'advertised level - and for every sqrt2 grid ("resolutions that are not of factor 2") - only services whose native origin '
    'equals the grid origin are judged (TMS/KML/WMS-C/?origin=sw = south-west, WMTS/?origin=nw = north-west)',
    'KML LatLonBox is judged only for grids whose SRS has axes parallel to latitude/longitude (EPSG:4326, spherical '
    'mercator) and when the 6-decimal degrees resolve 0.05 px; latitudes beyond the mercator limit are clamped to it',
    'the /tiles addresses are derived from the TMS / WMTS address of the same ground tile using doc/services.rst '
    '(/tiles starts with the single-tile level; ?origin=nw counts rows from the north like WMTS)',
    'image.paletted: false (see DESIGN section 1)',
]

SIG_TMS_ORIGIN = 'C02/tms/origin-from-layer-extent'
SIG_WMSC_ORIGIN = 'C02/wmsc/tileset-bbox-from-layer-extent'
SIG_WMTS_SQRT2 = 'C02/wmts/sqrt2-level-remapped'
SIG_WMTS_UNITS = 'C02/wmts/scale-denominator-ignores-crs-unit'

RHO = 1.0
EPS = 3.0
PERIOD_PX = 52.0
FLIP_TOL_PX = Fr(5, 100)
MIN_OVERLAP_PX = 1     # an advertised TMS / WMS-C tile overlaps the BoundingBox by more than one pixel (grids may drop a partial pixel)
MERC_LIMIT_LAT = 85.0511287798066
MERC_LIMIT_Y = 20037508.342789244


# ------------------------------------------------------------------------------------------------
# level-dependent ground: the synthetic upstream renders, for a request of resolution q, the analytic
# field whose reference resolution is the half-octave anchor nearest to q.  Every level therefore shows
# 5.5-7.8 colour levels per pixel in the fine channels (small displacements visible on every level) and a
# tile of the wrong level shows a different field.

class LevelGround(object):
    def __init__(self, srs, x0=0.0, y0=0.0):
        self.srs = srs
        self.x0 = x0
        self.y0 = y0
        self.levels = []      # advertised resolutions (floats, coarse -> fine), set after the documents are read
        self._g = {}

    def set_levels(self, resolutions):
        self.levels = []
        for r in sorted(set(float(r) for r in resolutions), reverse=True):
            # the same level is printed as units-per-pixel in one document and as a scale denominator in another
            if not self.levels or abs(math.log2(self.levels[-1] / r)) > 1e-6:
                self.levels.append(r)
        self._g = {}

    def anchor(self, res):
        """-> (key, ambiguous).  key = index of the advertised resolution nearest to res (log scale), so the
        decision boundaries lie half-way between levels, far from every resolution MapProxy legitimately asks
        for (meta tiles clipped at the grid bbox are rescaled by a fraction of a percent).  Without advertised
        levels: half-octave ladder."""
        t = math.log2(float(res))
        if not self.levels:
            k = int(math.floor(2 * t + 0.5))
            return ('o', k), abs(abs(2 * t - k) - 0.5) < 0.05
        d = sorted((abs(t - math.log2(r)), i) for i, r in enumerate(self.levels))
        amb = len(d) > 1 and (d[1][0] - d[0][0]) < 0.03
        return ('l', d[0][1]), amb

    def ground(self, key):
        g = self._g.get(key)
        if g is None:
            kind, k = key
            r0 = self.levels[k] if kind == 'l' else 2.0 ** (k / 2.0)
            g = ground.Ground(self.srs, r0=r0, period_px=PERIOD_PX, x0=self.x0, y0=self.y0, version=k)
            self._g[key] = g
        return g

    def render(self, info):
        w, h = info['size']
        res = (info['bbox'][2] - info['bbox'][0]) / float(w)
        key, _ = self.anchor(res)
        return self.ground(key).render(info['bbox'], info['size'], info['srs'])


# ------------------------------------------------------------------------------------------------
# generators

SRS_AREAS = {
    # srs: (x range, y range, (min width, max width)) for regional bboxes, all in east/north order
    'EPSG:3857': ((-2e6, 2e6), (4e6, 8e6), (2e4, 4e6)),
    'EPSG:900913': ((-2e6, 2e6), (4e6, 8e6), (2e4, 4e6)),
    'EPSG:4326': ((-20.0, 30.0), (30.0, 60.0), (0.2, 30.0)),
    'EPSG:25832': ((2e5, 6e5), (5.2e6, 5.9e6), (1e4, 5e5)),
    'EPSG:31467': ((3.3e6, 3.6e6), (5.2e6, 5.9e6), (1e4, 4e5)),
    'EPSG:3035': ((4.0e6, 4.5e6), (2.7e6, 3.3e6), (1e4, 5e5)),
    'EPSG:2263': ((9.2e5, 1.05e6), (1.3e5, 2.6e5), (2e4, 3e5)),
}
SRS_WEIGHTED = ['EPSG:3857', 'EPSG:900913', 'EPSG:4326', 'EPSG:4326', 'EPSG:25832', 'EPSG:25832', 'EPSG:31467',
                'EPSG:31467', 'EPSG:3035', 'EPSG:2263']
TILE_SIZES = [(32, 32), (64, 64), (64, 64), (128, 128), (256, 256), (100, 100), (64, 32), (48, 96), (128, 64)]
SELS = ['first', 'first', 'last', 'last', 'second', 'prelast']
REST_TEMPLATES = [None, None,
                  '/{Layer}/{TileMatrixSet}/{TileMatrix}/{TileRow}/{TileCol}.{Format}',
                  '/x/{TileMatrixSet}/{Layer}/{TileMatrix}/{TileCol}/{TileRow}.{Format}']
SERVICES = ['tms', 'wmts-kvp', 'wmts-rest', 'wmsc', 'kml']


def sel():
    return st.one_of(st.sampled_from(SELS), st.floats(0.0, 1.0, allow_nan=False).map(lambda f: round(f, 4)))


@st.composite
def grid_specs(draw):
    kind = draw(st.sampled_from(['base', 'custom', 'custom', 'custom', 'custom']))
    if kind == 'base':
        g = {'kind': 'base', 'base': draw(st.sampled_from(['GLOBAL_MERCATOR', 'GLOBAL_GEODETIC', 'GLOBAL_WEBMERCATOR'])),
             'num_levels': draw(st.integers(2, 7)),
             'tile_size': draw(st.sampled_from([None, None, (64, 64), (128, 128), (32, 32)]))}
        if draw(st.integers(0, 3)) == 0:
            g['res_factor'] = 'sqrt2'
            g['num_levels'] = draw(st.integers(3, 9))
        return g
    srs = draw(st.sampled_from(SRS_WEIGHTED))
    xr, yr, wr = SRS_AREAS[srs]
    tile_size = draw(st.sampled_from(TILE_SIZES))
    origin = draw(st.sampled_from(['ll', 'ul', 'sw', 'nw', None]))
    mode = draw(st.sampled_from(['f2', 'f2', 'sqrt2', 'res_nice', 'res_ratio', 'minres']))
    flavour = draw(st.sampled_from(['arb', 'arb', 'mult']))
    # a grid with a single level cannot be loaded at all when tile services are enabled (IndexError in
    # TileServiceGrid.__init__, outside this property: no document is ever served) -> at least two levels
    nl = draw(st.integers(2, 6)) if mode != 'sqrt2' else draw(st.integers(2, 9))
    digits = draw(st.sampled_from([0, 2, 6]))
    scale = 1.0 if srs != 'EPSG:4326' else 1e-4

    def rnd(v):
        return round(v / scale, digits) * scale if digits else float(round(v / scale)) * scale
    x0 = rnd(draw(st.floats(xr[0], xr[1])))
    y0 = rnd(draw(st.floats(yr[0], yr[1])))
    logw = draw(st.floats(math.log(wr[0]), math.log(wr[1])))
    w = math.exp(logw)
    g = {'kind': 'custom', 'srs': srs, 'tile_size': tile_size, 'origin': origin, 'mode': mode, 'flavour': flavour}
    if flavour == 'mult':
        # bbox = nx x ny tiles of the coarsest level; resolutions factor 2 -> a y-flip preserves rectangles
        nx, ny = draw(st.integers(1, 3)), draw(st.integers(1, 3))
        r0 = float('%.3g' % (w / (tile_size[0] * nx)))
        g['mode'] = mode = 'res_nice' if mode not in ('f2',) or nx != ny or tile_size[0] != tile_size[1] else mode
        g['bbox'] = (x0, y0, x0 + nx * tile_size[0] * r0, y0 + ny * tile_size[1] * r0)
        if mode == 'res_nice':
            g['res'] = [r0 / 2 ** i for i in range(nl)]
        else:
            g['num_levels'] = nl
        return g
    aspect = draw(st.sampled_from([1.0, 1.0, 0.5, 2.0, 0.77, 1.31]))
    w = rnd(w) or wr[0]
    h = rnd(w * aspect) or wr[0]
    g['bbox'] = (x0, y0, x0 + w, y0 + h)
    init = max(w / tile_size[0], h / tile_size[1])
    if mode in ('f2', 'sqrt2'):
        g['num_levels'] = nl
    elif mode == 'res_nice':
        r0 = float('%.2g' % init)
        g['res'] = [r0 / 2 ** i for i in range(nl)]
    elif mode == 'res_ratio':
        ratios = draw(st.lists(st.sampled_from([2.0, 1.5, 2.5, 4.0, 1.25, 3.0, 10.0]), min_size=nl, max_size=nl))
        r = float('%.3g' % (init * draw(st.sampled_from([1.0, 0.5, 0.37, 1.3]))))
        res = []
        for q in ratios:
            res.append(float('%.4g' % r))
            r = r / q
        g['res'] = sorted(set(res), reverse=True)
        if len(g['res']) < 2:
            g['res'] = [g['res'][0], g['res'][0] / 2]
    else:
        g['min_res'] = float('%.3g' % (init * draw(st.sampled_from([1.0, 0.6, 0.31]))))
        g['num_levels'] = nl
    return g


@st.composite
def cases(draw):
    g = draw(grid_specs())
    cov = None
    if draw(st.integers(0, 3)) == 0:
        fx0 = draw(st.sampled_from([0.0, 0.13, 0.3, 0.41]))
        fy0 = draw(st.sampled_from([0.0, 0.17, 0.25, 0.38]))
        cov = {'where': draw(st.sampled_from(['source', 'cache'])),
               'frac': (fx0, fy0, min(1.0, fx0 + draw(st.sampled_from([0.35, 0.5, 0.59, 1.0]))),
                        min(1.0, fy0 + draw(st.sampled_from([0.35, 0.5, 0.62, 1.0]))))}
    opts = {'tms_grid_names': draw(st.booleans()), 'kml_grid_names': draw(st.booleans()),
            'rest_template': draw(st.integers(0, len(REST_TEMPLATES) - 1)),
            'meta': draw(st.sampled_from([(1, 1, 0), (1, 1, 0), (2, 2, 0), (2, 1, 8)]))}
    picks = []
    for svc in SERVICES:
        n = draw(st.integers(5, 9))
        for _ in range(n):
            picks.append({'svc': svc, 'lvl': draw(sel()), 'col': draw(sel()), 'row': draw(sel()),
                          'cross': draw(st.integers(0, 2)) == 0})
    return {'grid': g, 'coverage': cov, 'opts': opts, 'picks': picks}


# ------------------------------------------------------------------------------------------------
# configuration

def grid_conf(g):
    if g['kind'] == 'base':
        c = {'base': g['base'], 'num_levels': g['num_levels']}
        if g.get('tile_size'):
            c['tile_size'] = list(g['tile_size'])
        if g.get('res_factor'):
            c['res_factor'] = g['res_factor']
        return c
    c = {'srs': g['srs'], 'bbox': [float(v) for v in g['bbox']], 'tile_size': list(g['tile_size'])}
    if g.get('origin'):
        c['origin'] = g['origin']
    if g['mode'] == 'sqrt2':
        c['res_factor'] = 'sqrt2'
    if 'res' in g:
        c['res'] = [float(r) for r in g['res']]
    if 'num_levels' in g:
        c['num_levels'] = g['num_levels']
    if 'min_res' in g:
        c['min_res'] = g['min_res']
    return c


def grid_facts(g):
    """What the harness knows from the configuration it wrote (not from MapProxy): SRS, bbox, origin."""
    if g['kind'] == 'base':
        if g['base'] == 'GLOBAL_GEODETIC':
            return {'srs': 'EPSG:4326', 'bbox': (-180.0, -90.0, 180.0, 90.0), 'ul': False,
                    'tile_size': tuple(g.get('tile_size') or (256, 256))}
        srs = 'EPSG:900913' if g['base'] == 'GLOBAL_MERCATOR' else 'EPSG:3857'
        return {'srs': srs, 'bbox': (-MERC_LIMIT_Y, -MERC_LIMIT_Y, MERC_LIMIT_Y, MERC_LIMIT_Y),
                'ul': g['base'] == 'GLOBAL_WEBMERCATOR', 'tile_size': tuple(g.get('tile_size') or (256, 256))}
    return {'srs': g['srs'], 'bbox': tuple(float(v) for v in g['bbox']), 'ul': g.get('origin') in ('ul', 'nw'),
            'tile_size': tuple(g['tile_size'])}


def coverage_bbox(case, facts):
    cov = case.get('coverage')
    if not cov:
        return None
    b = facts['bbox']
    f = cov['frac']
    w, h = b[2] - b[0], b[3] - b[1]
    return (b[0] + f[0] * w, b[1] + f[1] * h, b[0] + f[2] * w, b[1] + f[3] * h)


def build_conf(case, facts):
    o = case['opts']
    wmts = {'kvp': True, 'restful': True}
    tpl = REST_TEMPLATES[o['rest_template']]
    if tpl:
        wmts['restful_template'] = tpl
    srs_list = sorted(set([facts['srs'], 'EPSG:4326']))
    conf = {
        'services': {'tms': {'use_grid_names': bool(o['tms_grid_names'])},
                     'kml': {'use_grid_names': bool(o['kml_grid_names'])},
                     'wmts': wmts, 'wms': {'srs': srs_list}},
        'layers': [{'name': 'lyr', 'title': 'Layer', 'sources': ['c1']}],
        'caches': {'c1': {'grids': ['g1'], 'sources': ['src'], 'meta_size': [o['meta'][0], o['meta'][1]],
                          'meta_buffer': o['meta'][2]}},
        'sources': {'src': {'type': 'wms', 'req': {'url': 'http://wms.test/service?', 'layers': 'a'}}},
        'grids': {'g1': grid_conf(case['grid'])},
    }
    cb = coverage_bbox(case, facts)
    if cb:
        c = {'bbox': [float(v) for v in cb], 'srs': facts['srs']}
        if case['coverage']['where'] == 'cache':
            conf['caches']['c1']['cache'] = {'type': 'file', 'coverage': c}
        else:
            conf['sources']['src']['coverage'] = c
    return conf


def grid_path_name(case, facts, use_grid_names):
    if use_grid_names:
        return 'g1'
    return facts['srs'].replace(':', '')


# ------------------------------------------------------------------------------------------------
# oracle

class Judge(object):
    def __init__(self, lg, srs, area, cov):
        self.lg = lg
        self.srs = srs
        self.area = area      # grid bbox intersected with the coverage
        self.cov = cov

    def judge(self, arr, rect, size, rho=RHO):
        """-> dict(n=judged pixels, bad=rejected, worst=excess, ambiguous=bool, partial=bool)"""
        w, h = size
        rect = tuple(float(v) for v in rect)
        res = (rect[2] - rect[0]) / w
        out = {'n': 0, 'bad': 0, 'worst': 0.0, 'ambiguous': False, 'partial': False}
        key, amb = self.lg.anchor(res)
        if amb:
            out['ambiguous'] = True
            return out
        if self.cov is not None:
            # a tile that crosses the edge of a coverage is assembled by MapProxy from a clipped upstream request
            # whose few pixels are rescaled to the clip rectangle; only tiles wholly inside the coverage are judged
            slack = 1e-9 * max(abs(v) for v in rect) + 1e-12
            c = self.cov
            if not (rect[0] >= c[0] - slack and rect[1] >= c[1] - slack and rect[2] <= c[2] + slack and rect[3] <= c[3] + slack):
                out['partial'] = True
                return out
        px, py = ground.sample_lattice(size, n_target=1200, border=True)
        # only pixels well inside the data area (grid bbox - "tiles may overlap this bbox" - and coverage)
        cls = ground.region_class(px, py, rect, size, self.srs, self.area, self.srs, rho=1.5)
        keep = cls == 1
        px, py = px[keep], py[keep]
        if len(px) == 0:
            return out
        idx, worst = self.lg.ground(key).check_pixels(arr, px, py, rect, size, self.srs, rho=rho, eps=EPS)
        out.update(n=int(len(px)), bad=int(len(idx)), worst=float(worst.max()) if len(worst) else 0.0)
        return out

    @staticmethod
    def rejected(j):
        return j['bad'] > max(2, 0.01 * j['n'])


def pick_index(s, lo, hi):
    if hi < lo:
        return None
    if s == 'first':
        return lo
    if s == 'last':
        return hi
    if s == 'second':
        return min(lo + 1, hi)
    if s == 'prelast':
        return max(hi - 1, lo)
    return min(hi, lo + int(float(s) * (hi - lo + 1)))


def sel_class(s):
    return s if isinstance(s, str) else 'interior'


def shift_rect(rect, dx, dy):
    return (rect[0] + dx, rect[1] + dy, rect[2] + dx, rect[3] + dy)


class ConfigRun(object):
    """Everything done with one generated configuration."""

    def __init__(self, case, stats, exclude_known=True):
        self.case = case
        self.stats = stats
        self.facts = grid_facts(case['grid'])
        self.cov = coverage_bbox(case, self.facts)
        self.open = core.open_signatures(PROPERTY) if exclude_known else set()
        self.violations = []
        self.cache = {}       # url -> (Response, array | None)
        self.seen = set()
        self.base_classes = self._base_classes()

    # -- helpers -----------------------------------------------------------------------------------
    def _base_classes(self):
        g = self.case['grid']
        c = ['srs:' + self.facts['srs'], 'origin:' + ('ul' if self.facts['ul'] else 'll')]
        if g['kind'] == 'base':
            c.append('grid:' + g['base'])
            c.append('mode:' + ('sqrt2' if g.get('res_factor') else 'f2'))
        else:
            c.append('grid:custom-' + g['flavour'])
            c.append('mode:' + g['mode'])
        ts = self.facts['tile_size']
        c.append('tile:%s' % ('nonsquare' if ts[0] != ts[1] else ts[0]))
        if self.cov:
            c.append('coverage:' + self.case['coverage']['where'])
        return c

    def violation(self, sig, msg, pick, tile=None, extra=None):
        case = dict(self.case)
        case['picks'] = [pick] if pick is not None else []
        if tile is not None:
            msg = '%s [%s]' % (msg, tile.url)
        if extra:
            msg = '%s (%s)' % (msg, extra)
        self.violations.append(core.Violation(sig, msg, case))

    def fetch_tile(self, tile):
        """-> (status, array or None, problem or None)"""
        if tile.url in self.cache:
            return self.cache[tile.url]
        r = self.fetch(tile.url)
        arr = None
        problem = None
        if r.status != 200:
            problem = ('refused', 'HTTP %d %s: %s' % (r.status, r.content_type, r.body[:160].decode('latin-1')))
        elif not r.content_type.startswith('image/'):
            problem = ('not-an-image', '%s: %s' % (r.content_type, r.body[:160].decode('latin-1')))
        else:
            try:
                arr = ground.to_rgba_array(ground.decode_image(r.body))
            except Exception as e:  # noqa - undecodable answer is a finding about the answer, not the harness
                problem = ('not-an-image', 'undecodable image: %r' % (e,))
        self.cache[tile.url] = (r.status, arr, problem)
        return self.cache[tile.url]

    # -- run ---------------------------------------------------------------------------------------
    def run(self):
        base_dir = tempfile.mkdtemp(prefix='c02_')
        lg = LevelGround(self.facts['srs'], x0=self.facts['bbox'][0], y0=self.facts['bbox'][1])
        b = self.facts['bbox']
        area = b if not self.cov else (max(b[0], self.cov[0]), max(b[1], self.cov[1]), min(b[2], self.cov[2]), min(b[3], self.cov[3]))
        self.judge = Judge(lg, self.facts['srs'], area, self.cov)
        self.lg = lg
        up = ground.Upstream(None)
        up.add_wms('wms.test', render_fn=lg.render)
        try:
            with up:
                conf = build_conf(self.case, self.facts)
                try:
                    app = ground.make_app(conf, base_dir)
                except Exception as e:
                    from mapproxy.config.loader import ConfigurationError
                    if isinstance(e, ConfigurationError):
                        self.stats.excluded['configuration-rejected'] += 1
                        return []
                    raise
                self.fetch = refclient.wsgi_fetcher(app)
                self.up = up
                self._load_documents()
                self._check_resolution_consistency()
                lg.set_levels(self._advertised_resolutions())
                self._flip_analysis()
                for pick in self.case['picks']:
                    self._do_pick(pick)
        finally:
            shutil.rmtree(base_dir, ignore_errors=True)
        return self.violations

    def _doc(self, name, fn):
        try:
            return fn()
        except refclient.ClientError as e:
            self.violation('C02/%s/capabilities-unusable' % name, str(e), None)
            return None

    def _load_documents(self):
        o = self.case['opts']
        f = self.fetch
        self.tms_map = None
        tms = self._doc('tms', lambda: refclient.TMSClient(f, 'http://localhost/tms/1.0.0'))
        if tms is not None:
            if len(tms.tilemap_refs) != 1:
                self.violation('C02/tms/capabilities-unusable', 'TileMapService lists %d TileMaps for one layer / one grid'
                               % len(tms.tilemap_refs), None)
            else:
                self.tms_map = self._doc('tms', lambda: tms.tilemap(tms.tilemap_refs[0].href))
        self.wmts = {}
        for enc, url in (('kvp', 'http://localhost/service?SERVICE=WMTS&REQUEST=GetCapabilities&VERSION=1.0.0'),
                         ('rest', 'http://localhost/wmts/1.0.0/WMTSCapabilities.xml')):
            c = self._doc('wmts-' + enc, lambda: refclient.WMTSClient(f, url))
            if c is not None and 'lyr' in c.layers:
                self.wmts[enc] = c
            elif c is not None:
                self.stats.notes['wmts-layer-not-offered'] += 1
        self.wmsc = None
        self.wmsc_ts = None
        c = self._doc('wmsc', lambda: refclient.WMSCClient(
            f, 'http://localhost/service?SERVICE=WMS&REQUEST=GetCapabilities&VERSION=1.1.1&TILED=true'))
        if c is not None:
            ts = [t for t in c.tilesets if t.layers == 'lyr']
            if len(ts) == 1:
                self.wmsc, self.wmsc_ts = c, ts[0]
            else:
                self.violation('C02/wmsc/capabilities-unusable', '%d TileSets for layer lyr' % len(ts), None)
        self.kml = refclient.KMLClient(f)
        self.kml_root = 'http://localhost/kml/lyr/%s/0/0/0.kml' % grid_path_name(self.case, self.facts, o['kml_grid_names'])

    def _check_resolution_consistency(self):
        """Two documents of the same layer / grid that print almost - but not - the same resolution for a level cannot
        both be exact (generated grids have no two levels closer than a factor 1.25)."""
        lists = []
        if self.tms_map is not None:
            lists.append(('tms', [t.upp for t in self.tms_map.tilesets]))
        for enc, c in sorted(self.wmts.items()):
            if SIG_WMTS_UNITS in self.open and self._non_metre_projected():
                continue
            for tms, _ in c.layers['lyr'].links:
                lists.append(('wmts-' + enc, [m.res for m in c.matrix_sets[tms].matrices]))
        if self.wmsc_ts is not None:
            lists.append(('wmsc', list(self.wmsc_ts.resolutions)))
        for i in range(len(lists)):
            for j in range(i + 1, len(lists)):
                for ra in lists[i][1]:
                    for rb in lists[j][1]:
                        d = abs(math.log(float(ra) / float(rb)))
                        if 1e-9 < d < 0.03:
                            a, b_ = sorted([lists[i][0].split('-')[0], lists[j][0].split('-')[0]])
                            self.violation('C02/cross/%s-vs-%s/resolution-differs' % (a, b_),
                                           'the %s document gives a level the resolution %r, the %s document %r (relative '
                                           'difference %.3g): a tile in column / row n is displaced by n x %.3g tile spans for '
                                           'one of the two clients' % (lists[i][0], float(ra), lists[j][0], float(rb), d, d), None)
                            return

    def _advertised_resolutions(self):
        res = set()
        if self.tms_map is not None:
            res.update(t.upp for t in self.tms_map.tilesets)
        for c in self.wmts.values():
            for tms, _ in c.layers['lyr'].links:
                res.update(m.res for m in c.matrix_sets[tms].matrices)
        if self.wmsc_ts is not None:
            res.update(self.wmsc_ts.resolutions)
        return sorted(res, reverse=True)

    def _flip_analysis(self):
        """exact-rational: does counting rows from the other end keep the tile rectangles?"""
        b = self.facts['bbox']
        H = Fr(b[3]) - Fr(b[1])
        th = self.facts['tile_size'][1]
        worst = Fr(0)
        for r in self._advertised_resolutions():
            span = r * th
            n = max(1, round(H / span))
            worst = max(worst, abs(n * span - H) / r)
        self.flip_dev_px = float(worst)
        # sqrt2 grids: "resolutions that are not of factor 2" in the words of the documented limitation (their odd
        # levels never flip cleanly; TMS / KML / WMS-C only show every second level, so the documents cannot tell)
        self.flippable = worst <= FLIP_TOL_PX and not self._is_sqrt2()
        self.stats.classes['config:' + ('flippable' if self.flippable else 'not-flippable')] += 1
        self.stats.classes['config:total'] += 1
        for c in self.base_classes:
            self.stats.classes['config-' + c] += 1

    def native(self, service):
        """may this service / origin convention be judged on this grid?"""
        if self.flippable:
            return True
        sw = service in ('tms', 'kml', 'wmsc', 'tiles-sw')
        return sw != self.facts['ul']

    def extent_corner_differs(self):
        if not self.cov:
            return False
        b = self.facts['bbox']
        return self.cov[0] != b[0] or self.cov[1] != b[1]

    # -- address selection per service ---------------------------------------------------------------
    def _select(self, pick, n_levels, level_info):
        """-> (level, col, row, (row_lo, row_hi)) or None.  level_info(level) -> (col_lo, col_hi, row_lo, row_hi,
        x_anchor, span_x, y_anchor, span_y, rows_downwards).  With a coverage the drawn level is replaced by the nearest
        level (finer first) that has a cell wholly inside the coverage and the ranges are narrowed to such cells: a
        selection heuristic only, cells crossing the coverage edge cannot be judged."""
        i = pick_index(pick['lvl'], 0, n_levels - 1)
        if i is None:
            return None
        order = [i]
        if self.cov:
            order = list(range(i, n_levels)) + list(range(i - 1, -1, -1))
        first = None
        for lv in order:
            c_lo, c_hi, r_lo, r_hi, xa, sx, ya, sy, down = level_info(lv)
            if c_lo > c_hi or r_lo > r_hi:
                continue
            rows_all = (r_lo, r_hi)
            if first is None:
                first = (lv, c_lo, c_hi, r_lo, r_hi, rows_all)
            if not self.cov:
                break
            a, b = math.ceil((Fr(self.cov[0]) - xa) / sx), math.floor((Fr(self.cov[2]) - xa) / sx) - 1
            if down:
                c, d = math.ceil((ya - Fr(self.cov[3])) / sy), math.floor((ya - Fr(self.cov[1])) / sy) - 1
            else:
                c, d = math.ceil((Fr(self.cov[1]) - ya) / sy), math.floor((Fr(self.cov[3]) - ya) / sy) - 1
            a, b, c, d = max(a, c_lo), min(b, c_hi), max(c, r_lo), min(d, r_hi)
            if a <= b and c <= d:
                first = (lv, a, b, c, d, rows_all)
                break
        if first is None:
            return None
        lv, c_lo, c_hi, r_lo, r_hi, rows_all = first
        return lv, pick_index(pick['col'], c_lo, c_hi), pick_index(pick['row'], r_lo, r_hi), rows_all

    def _tile_for_pick(self, pick):
        svc = pick['svc']
        if svc == 'tms':
            tm = self.tms_map
            if tm is None or not tm.tilesets:
                return None

            def info(i):
                sx, sy = tm.span(i)
                return tm.tile_range(i, MIN_OVERLAP_PX) + (tm.origin[0], sx, tm.origin[1], sy, False)
            got = self._select(pick, len(tm.tilesets), info)
            if got is None:
                return None
            i, x, y, rows_all = got
            t = tm.tile(i, x, y)
            t.extra['rows'] = rows_all
            t.extra['remap'] = (tm.profile or '').startswith('global-')
            return t
        if svc in ('wmts-kvp', 'wmts-rest'):
            enc = svc.split('-')[1]
            c = self.wmts.get(enc)
            if c is None:
                return None
            links = c.layers['lyr'].links
            if not links:
                return None
            tms = links[0][0]
            ms = c.matrix_sets[tms].matrices
            if not ms:
                return None

            def info(mi):
                sx, sy = ms[mi].span()
                return c.tile_range('lyr', tms, mi) + (ms[mi].top_left[0], sx, ms[mi].top_left[1], sy, True)
            got = self._select(pick, len(ms), info)
            if got is None:
                return None
            mi, col, row, rows_all = got
            t = c.tile('lyr', tms, mi, col, row, encoding=enc)
            t.extra['rows'] = rows_all
            return t
        if svc == 'wmsc':
            if self.wmsc is None:
                return None
            ts = self.wmsc_ts

            def info(li):
                sx, sy = self.wmsc.span(ts, li)
                return self.wmsc.tile_range(ts, li, MIN_OVERLAP_PX) + (ts.bbox[0], sx, ts.bbox[1], sy, False)
            got = self._select(pick, len(ts.resolutions), info)
            if got is None:
                return None
            li, x, y, rows_all = got
            t = self.wmsc.tile(ts, li, x, y)
            t.extra['rows'] = rows_all
            return t
        if svc == 'kml':
            return self._kml_tile(pick)
        raise core.HarnessError('unknown service %r' % svc)

    def _kml_tile(self, pick):
        """walk down the super-overlay: depth from 'lvl', link / overlay choice from 'col' / 'row'."""
        depth_sel = pick['lvl']
        depth = {'first': 0, 'second': 1, 'last': 6, 'prelast': 3}.get(depth_sel) if isinstance(depth_sel, str) \
            else int(float(depth_sel) * 6)
        url = self.kml_root
        doc = None
        for d in range(depth + 1):
            key = ('kmldoc', url)
            if key not in self.cache:
                try:
                    self.cache[key] = self.kml.document(url)
                except refclient.ClientError as e:
                    self.cache[key] = e
            got = self.cache[key]
            if isinstance(got, refclient.ClientError):
                # a KML *document* that cannot be read (MapProxy answers the documents of the deepest level, which
                # would have no sub-tiles, with HTTP 500 - for a two-level sqrt2 grid that is the initial document)
                # advertises no tile address; outside the wording of C02.  Counted; the last readable document is used.
                if doc is None:
                    self.stats.notes['kml-initial-document-unreadable'] += 1
                    return None
                self.stats.notes['kml-linked-document-unreadable'] += 1
                break
            doc = got
            if d == depth or not doc.links:
                break
            # vary the branch with the depth so that paths do not stay in one corner
            s = pick['col'] if d % 2 == 0 else pick['row']
            url = doc.links[pick_index(s, 0, len(doc.links) - 1)].href
        if not doc.overlays:
            return None
        ov = doc.overlays[pick_index(pick['row'], 0, len(doc.overlays) - 1)]
        t = ov.tile()
        t.extra['n_overlays'] = len(doc.overlays)
        return t

    def _kml_rect_in_grid_srs(self, tile, size):
        """LatLonBox -> rectangle in the grid SRS (only where edges of constant lat/lon are edges of constant y/x)."""
        srs = refclient.crs_canonical(self.facts['srs'])
        w, s, e, n = [float(v) for v in tile.rect]
        if srs == 'EPSG:4326':
            rect = (w, s, e, n)
            unit_per_deg = 1.0
        elif srs == 'EPSG:3857':
            lat_s = max(-MERC_LIMIT_LAT, min(MERC_LIMIT_LAT, s))
            lat_n = max(-MERC_LIMIT_LAT, min(MERC_LIMIT_LAT, n))
            xs, ys = ground.transform([w, e], [lat_s, lat_n], 'EPSG:4326', 'EPSG:3857')
            rect = (float(xs[0]), float(ys[0]), float(xs[1]), float(ys[1]))
            unit_per_deg = MERC_LIMIT_Y / 180.0
        else:
            return None, 'kml-srs-not-latlon-parallel'
        if rect[2] < rect[0] or rect[3] < rect[1]:
            return None, 'kml-inverted-box'
        if not (rect[2] > rect[0] and rect[3] > rect[1]):
            return None, 'kml-empty-box'
        res = (rect[2] - rect[0]) / size[0]
        if 0.5e-6 * unit_per_deg > 0.05 * res:
            return None, 'kml-6-decimals-too-coarse'
        return rect, None

    # -- one pick --------------------------------------------------------------------------------------
    def _blocked(self, svc, tile):
        """-> name of the exclusion counter if this service / address must not be judged in this configuration"""
        if not self.native(svc if not svc.startswith('wmts') else 'wmts'):
            return 'flip-not-rectangle-preserving:' + svc
        if svc == 'tms' and SIG_TMS_ORIGIN in self.open and self.extent_corner_differs():
            return 'known:tms-tilemap-of-layer-whose-extent-corner-differs-from-grid-corner'
        if svc == 'wmsc' and SIG_WMSC_ORIGIN in self.open and self.extent_corner_differs():
            return 'known:wmsc-tileset-of-layer-whose-extent-corner-differs-from-grid-corner'
        if svc.startswith('wmts') and SIG_WMTS_SQRT2 in self.open and self._is_sqrt2() and tile is not None and tile.level > 0:
            return 'known:wmts-level>0-of-sqrt2-grid'
        if svc.startswith('wmts') and SIG_WMTS_UNITS in self.open and self._non_metre_projected():
            return 'known:wmts-of-projected-crs-with-non-metre-unit'
        return None

    def _do_pick(self, pick):
        # the drawn service first; if it offers nothing that may be judged here, the next one (so that every
        # configuration gets about the same number of evaluations)
        start = SERVICES.index(pick['svc'])
        for k in range(len(SERVICES)):
            svc = SERVICES[(start + k) % len(SERVICES)]
            p = dict(pick)
            p['svc'] = svc
            if self._blocked(svc, None):
                if k == 0:
                    self.stats.excluded[self._blocked(svc, None)] += 1
                continue
            tile = self._tile_for_pick(p)
            if tile is None:
                if k == 0:
                    self.stats.notes['no-address:' + svc] += 1
                continue
            why = self._blocked(svc, tile)
            if why:
                if k == 0:
                    self.stats.excluded[why] += 1
                continue
            ok, arr = self._evaluate(tile, p, primary=True)
            if ok and pick.get('cross'):
                self._cross(tile, arr, p)
            return

    def _is_sqrt2(self):
        g = self.case['grid']
        return g.get('res_factor') == 'sqrt2' or g.get('mode') == 'sqrt2'

    def _non_metre_projected(self):
        srs = self.facts['srs']
        return refclient.crs_canonical(srs) != 'EPSG:4326' and refclient.crs_metres_per_unit(srs) != 1

    def _rect_and_size(self, tile, arr):
        """rectangle in grid SRS + size used for judging, or (None, reason)"""
        size = tile.size or (arr.shape[1], arr.shape[0])
        if tile.service == 'kml':
            rect, why = self._kml_rect_in_grid_srs(tile, size)
            return rect, size, why
        if refclient.crs_canonical(tile.srs) != refclient.crs_canonical(self.facts['srs']):
            return None, size, 'srs-mismatch'
        return tile.rect, size, None

    def _evaluate(self, tile, pick, primary):
        svc = tile.service
        status, arr, problem = self.fetch_tile(tile)
        classes = list(self.base_classes) + ['svc:' + svc]
        if primary:
            classes += ['col:' + sel_class(pick['col']), 'row:' + sel_class(pick['row']), 'lvl:' + sel_class(pick['lvl'])]
        key = (core.case_hash({k: self.case[k] for k in ('grid', 'coverage', 'opts')}), svc, tile.url)
        if problem is not None:
            v = self._diagnose_refusal(tile, pick, problem)
            self.stats.case(key=key, nontrivial=False, classes=classes + ['answer:' + problem[0]])
            if v:
                self.violation(v[0], v[1], pick, tile)
            return False, None
        if tile.size is not None and (arr.shape[1], arr.shape[0]) != tuple(tile.size):
            self.stats.case(key=key, nontrivial=False, classes=classes + ['answer:wrong-size'])
            self.violation('C02/%s/tile-size' % svc, 'advertised tile size %r, served %r'
                           % (tile.size, (arr.shape[1], arr.shape[0])), pick, tile)
            return False, None
        rect, size, why = self._rect_and_size(tile, arr)
        if rect is None:
            if why == 'kml-inverted-box':
                self.stats.case(key=key, nontrivial=False, classes=classes + ['answer:kml-inverted-box'])
                self.violation('C02/kml/latlonbox-inverted', 'GroundOverlay LatLonBox (west, south, east, north) = %r has north < south '
                               'or east < west' % ([float(v) for v in tile.rect],), pick, tile)
                return False, None
            if why == 'srs-mismatch':
                self.stats.case(key=key, nontrivial=False, classes=classes + ['answer:srs-mismatch'])
                self.violation('C02/%s/srs' % svc, 'document advertises SRS %r for a grid in %r'
                               % (tile.srs, self.facts['srs']), pick, tile)
                return False, None
            self.stats.excluded[why] += 1
            return False, arr
        # a KML box is known to 6 decimals of a degree only (<= 0.05 px by the precondition above)
        j = self.judge.judge(arr, rect, size, rho=RHO + (0.06 if svc == 'kml' else 0.0))
        if j['ambiguous']:
            self.stats.inconclusive['resolution-at-ground-anchor-boundary'] += 1
            return False, None
        nontrivial = False
        if j['n'] > 0:
            rows = tile.extra.get('rows')
            off_diag = tile.col != tile.row or (rows is not None and (rows[0] + rows[1] - tile.row) != tile.row)
            remap = bool(tile.extra.get('remap')) or self._is_sqrt2()
            lvl = tile.level is not None and tile.level > 0
            nontrivial = bool(off_diag or lvl or remap or svc == 'kml')
            if remap:
                classes.append('nt:level-remap')
            if lvl:
                classes.append('nt:level>0')
            if off_diag:
                classes.append('nt:off-diagonal')
        elif j['partial']:
            classes.append('not-judged:tile-crosses-coverage-edge')
        else:
            classes.append('not-judged:no-pixel-inside-data-area')
        if not self.flippable:
            classes.append('native-origin-only')
        self.stats.case(key=key, nontrivial=nontrivial, classes=classes,
                        sample={'grid': self.case['grid'], 'coverage': self.case['coverage'], 'tile': tile.describe(),
                                'judged_px': j['n'], 'rejected_px': j['bad']})
        if j['bad'] and not Judge.rejected(j):
            self.stats.notes['tiles-with-few-rejected-pixels(tolerated)'] += 1
        if Judge.rejected(j):
            sig, why = self._diagnose_misplaced(tile, arr, rect, size)
            self.violation(sig, '%s tile %s does not show the ground of the rectangle %r computed from the document: '
                           '%d of %d sampled pixels rejected (worst excess %.0f levels)%s'
                           % (svc, (tile.level, tile.col, tile.row), [float(v) for v in rect], j['bad'], j['n'], j['worst'],
                              why), pick, tile)
            return False, None
        # (True, arr) only for tiles whose pixels were judged: blank tiles outside the data area legitimately differ
        # between services (a WMS answers with its background colour, tile services with a transparent tile)
        return j['n'] > 0, arr

    # -- diagnosis (only names the root cause; the verdict is already taken) -----------------------------
    def _passes(self, arr, rect, size):
        j = self.judge.judge(arr, rect, size)
        return j['n'] > 0 and not j['ambiguous'] and not Judge.rejected(j)

    def _diagnose_misplaced(self, tile, arr, rect, size):
        svc = tile.service
        b = self.facts['bbox']
        if svc == 'tms' and self._anchor_is_extent_corner(self.tms_map.origin):
            return SIG_TMS_ORIGIN, ('; <Origin> %r is the lower-left corner of the layer extent, but tile (0, 0) is served from '
                                    'the grid corner %r' % (tuple(float(v) for v in self.tms_map.origin), (b[0], b[1])))
        if svc == 'wmsc' and self._anchor_is_extent_corner(self.wmsc_ts.bbox[:2]):
            return SIG_WMSC_ORIGIN, ('; TileSet BoundingBox %r is the layer extent, but the tiles are anchored at the grid corner %r'
                                     % (tuple(float(v) for v in self.wmsc_ts.bbox), (b[0], b[1])))
        if svc.startswith('wmts'):
            if self._non_metre_projected():
                f = refclient.crs_metres_per_unit(self.facts['srs'])
                c = self.wmts[svc.split('-')[1]]
                m = c.matrix_sets[tile.extra['matrix_set']].matrices[tile.level]
                tl = m.top_left
                sx, sy = m.span()[0] * f, m.span()[1] * f
                alt = (tl[0] + tile.col * sx, tl[1] - (tile.row + 1) * sy, tl[0] + (tile.col + 1) * sx, tl[1] - tile.row * sy)
                if self._passes(arr, alt, size):
                    return SIG_WMTS_UNITS, ('; ScaleDenominator was computed as if one CRS unit were one metre (unit is %s m)'
                                            % float(f))
            alt = self._wmts_sqrt2_remap(tile)
            if alt not in (None, 'out') and self._passes(arr, alt, size):
                return SIG_WMTS_SQRT2, ('; sqrt2 grid: the tile shows address (%s, %s) of matrix index %d instead of %d'
                                        % (tile.col, tile.row, 2 * tile.level, tile.level))
        # generic hypotheses: mirrored row, neighbouring level
        rows = tile.extra.get('rows')
        if rows is not None and tile.row is not None:
            mirrored = rows[0] + rows[1] - tile.row
            if mirrored != tile.row:
                sy = rect[3] - rect[1]
                d = (mirrored - tile.row) * sy * (-1 if svc.startswith('wmts') else 1)
                if self._passes(arr, shift_rect(rect, 0, d), size):
                    return 'C02/%s/row-counted-from-wrong-end' % svc, '; the tile shows the mirrored row %d' % mirrored
        for name, f in (('coarser', 2), ('finer', Fr(1, 2))):
            w, h = (rect[2] - rect[0]) * f, (rect[3] - rect[1]) * f
            cx, cy = self._anchor_of(tile)
            if cx is None:
                break
            if svc.startswith('wmts'):
                alt = (cx + tile.col * w, cy - (tile.row + 1) * h, cx + (tile.col + 1) * w, cy - tile.row * h)
            else:
                alt = (cx + tile.col * w, cy + tile.row * h, cx + (tile.col + 1) * w, cy + (tile.row + 1) * h)
            if self._passes(arr, alt, size):
                return 'C02/%s/tile-of-other-level' % svc, '; the tile shows address (%s, %s) of a %s level' % (tile.col, tile.row, name)
        return 'C02/%s/misplaced' % svc, ''

    def _anchor_is_extent_corner(self, anchor):
        """root cause test: the document's grid anchor equals the lower-left corner of the configured coverage
        (= layer extent) and that is not the lower-left corner of the configured grid"""
        if not self.extent_corner_differs():
            return False
        b = self.facts['bbox']
        scale = max(abs(b[2] - b[0]), abs(b[3] - b[1]))
        near = lambda p, q: abs(float(p) - q) <= 1e-9 * scale  # noqa
        return near(anchor[0], self.cov[0]) and near(anchor[1], self.cov[1]) and not (
            near(anchor[0], b[0]) and near(anchor[1], b[1]))

    def _wmts_sqrt2_remap(self, tile):
        """root cause test for sqrt2 grids: rectangle of the same (col, row) in the matrix with twice the index
        ('out' if that address does not exist, None if not applicable)"""
        if not (tile.service.startswith('wmts') and self._is_sqrt2() and tile.level and tile.level > 0):
            return None
        c = self.wmts[tile.service.split('-')[1]]
        ms = c.matrix_sets[tile.extra['matrix_set']].matrices
        j = 2 * tile.level
        if j >= len(ms) or not (0 <= tile.col < ms[j].matrix_w and 0 <= tile.row < ms[j].matrix_h):
            return 'out'
        return c.tile_rect(tile.extra['matrix_set'], j, tile.col, tile.row)

    def _anchor_of(self, tile):
        svc = tile.service
        if svc == 'tms':
            return self.tms_map.origin
        if svc == 'wmsc':
            return self.wmsc_ts.bbox[0], self.wmsc_ts.bbox[1]
        if svc.startswith('wmts'):
            c = self.wmts[svc.split('-')[1]]
            return c.matrix_sets[tile.extra['matrix_set']].matrices[tile.level].top_left
        return None, None

    def _diagnose_refusal(self, tile, pick, problem):
        svc = tile.service
        if svc == 'wmsc' and self._anchor_is_extent_corner(self.wmsc_ts.bbox[:2]):
            return SIG_WMSC_ORIGIN, ('WMS-C tile computed from TileSet BoundingBox (= layer extent, not the grid corner) + '
                                     'Resolutions is refused: %s' % problem[1])
        if svc == 'tms' and self._anchor_is_extent_corner(self.tms_map.origin):
            return SIG_TMS_ORIGIN, ('TMS tile inside <BoundingBox> counted from <Origin> (= layer extent corner, not the grid '
                                    'corner) is refused: %s' % problem[1])
        if svc.startswith('wmts') and self._wmts_sqrt2_remap(tile) == 'out':
            return SIG_WMTS_SQRT2, ('advertised WMTS tile of a sqrt2 grid is refused (address (%s, %s) does not exist in matrix '
                                    'index %d = 2 x %d): %s' % (tile.col, tile.row, 2 * tile.level, tile.level, problem[1]))
        return 'C02/%s/advertised-address-%s' % (svc, problem[0]), 'advertised %s address answered with %s' % (svc, problem[1])

    # -- cross-service -----------------------------------------------------------------------------------
    def _cross(self, tile, arr, pick):
        rect, size, why = self._rect_and_size(tile, arr)
        if rect is None:
            return
        rect = tuple(Fr(v) for v in rect)
        tol = Fr(1, 10 ** 6) if tile.service != 'kml' else Fr(1, 1000)
        twins = []
        near = []     # addresses whose rectangle differs from `rect` by more than 1e-6 but less than 2e-2 tile spans
        loose = Fr(2, 100)
        tms_addr = None
        wmts_addr = None
        tm = self.tms_map
        skip_tms = SIG_TMS_ORIGIN in self.open and self.extent_corner_differs()
        skip_wmsc = SIG_WMSC_ORIGIN in self.open and self.extent_corner_differs()
        skip_wmts = (SIG_WMTS_UNITS in self.open and self._non_metre_projected())
        if tm is not None and self.native('tms') and not skip_tms:
            exact = tm.locate(rect, tol, MIN_OVERLAP_PX)
            for (i, x, y) in exact:
                tms_addr = (i, x, y)
                if tile.service != 'tms':
                    twins.append(tm.tile(i, x, y))
            if tile.service not in ('tms', 'kml') and not exact:
                near += [tm.tile(i, x, y) for (i, x, y) in tm.locate(rect, loose, MIN_OVERLAP_PX)]
        for enc, c in sorted(self.wmts.items()):
            if not self.native('wmts') or skip_wmts:
                continue
            exact = c.locate('lyr', rect, tol)
            for (tms, mi, col, row) in exact:
                if SIG_WMTS_SQRT2 in self.open and self._is_sqrt2() and mi > 0:
                    continue
                wmts_addr = (mi, col, row)
                if tile.service != 'wmts-' + enc:
                    twins.append(c.tile('lyr', tms, mi, col, row, encoding=enc))
            if not tile.service.startswith('wmts') and tile.service != 'kml' and not exact \
                    and not (SIG_WMTS_SQRT2 in self.open and self._is_sqrt2()):
                near += [c.tile('lyr', tms, mi, col, row, encoding=enc) for (tms, mi, col, row) in c.locate('lyr', rect, loose)]
        if self.wmsc is not None and self.native('wmsc') and tile.service != 'wmsc' and not skip_wmsc:
            exact = self.wmsc.locate(self.wmsc_ts, rect, tol, MIN_OVERLAP_PX)
            for (li, x, y) in exact:
                twins.append(self.wmsc.tile(self.wmsc_ts, li, x, y))
            if tile.service != 'kml' and not exact:
                near += [self.wmsc.tile(self.wmsc_ts, li, x, y)
                         for (li, x, y) in self.wmsc.locate(self.wmsc_ts, rect, loose, MIN_OVERLAP_PX)]
        # two documents that give the very same (non-blank, judged) image slightly different rectangles cannot both be exact
        for tw in near:
            if tw.service.startswith('wmts') != tile.service.startswith('wmts') and self.flip_dev_px > 1e-7:
                # rows counted from opposite ends: the tolerated inexactness of the y-flip (<= 0.05 px) explains a difference
                self.stats.notes['near-twin-not-compared(inexact flip)'] += 1
                continue
            status, arr2, problem = self.fetch_tile(tw)
            if arr2 is not None and arr2.shape == arr.shape and np.array_equal(arr2, arr):
                dev = max(abs(float(p - q)) for p, q in zip(rect, tw.rect)) / float(rect[2] - rect[0]) * size[0]
                a, b_ = sorted([tile.service.split('-')[0], tw.service.split('-')[0]])
                self.stats.classes['cross:near-twin-same-image'] += 1
                self.violation('C02/cross/%s-vs-%s/same-image-different-rectangle' % (a, b_),
                               'the documents of %s and %s give the same image rectangles that differ by %.3g px: %r vs %r [%s | %s]'
                               % (tile.service, tw.service, dev, [float(v) for v in rect], list(tw.frect()), tile.url, tw.url), pick)
        # /tiles: same path as the TileMap, level = TMS level (+1 for the global profiles that hide the
        # single-tile level in TMS), ?origin=sw rows like TMS, ?origin=nw rows like WMTS
        if tm is not None:
            z = None
            if tms_addr is not None:
                zi = tms_addr[0]
            else:
                zi = None
                for i, t in enumerate(tm.tilesets):
                    sx = t.upp * tm.tile_size[0]
                    if abs(sx - (rect[2] - rect[0])) <= tol * sx:
                        zi = i
            if zi is not None:
                try:
                    z = int(tm.tilesets[zi].href.rstrip('/').rsplit('/', 1)[1])
                except ValueError:
                    z = None
                if z is not None and (tm.profile or '').startswith('global-'):
                    z += 1
            base = tm.href.replace('/tms/1.0.0/', '/tiles/', 1)
            if z is not None and '/tiles/' in base:
                if tms_addr is not None and self.native('tiles-sw'):
                    u = '%s/%d/%d/%d.%s?origin=sw' % (base, z, tms_addr[1], tms_addr[2], tm.extension)
                    twins.append(refclient.Tile('tiles-sw', u, tile.srs if tile.service != 'kml' else tm.srs, rect,
                                                tm.tile_size, zi, tms_addr[1], tms_addr[2]))
                if wmts_addr is not None and self.native('tiles-nw'):
                    u = '%s/%d/%d/%d.%s?origin=nw' % (base, z, wmts_addr[1], wmts_addr[2], tm.extension)
                    twins.append(refclient.Tile('tiles-nw', u, tile.srs if tile.service != 'kml' else tm.srs, rect,
                                                tm.tile_size, zi, wmts_addr[1], wmts_addr[2]))
        self.stats.classes['cross:twins=%d' % min(len(twins), 6)] += 1
        passed = {tile.service}
        # located twins first; the /tiles addresses are derived from the TMS / WMTS address and are only meaningful
        # when that parent address itself was served correctly
        order = [t for t in twins if not t.service.startswith('tiles-')] + [t for t in twins if t.service.startswith('tiles-')]
        for tw in order:
            if tw.service == 'tiles-sw' and 'tms' not in passed:
                self.stats.notes['tiles-sw-twin-skipped(parent TMS address not confirmed)'] += 1
                continue
            if tw.service == 'tiles-nw' and not (passed & {'wmts-kvp', 'wmts-rest'}):
                self.stats.notes['tiles-nw-twin-skipped(parent WMTS address not confirmed)'] += 1
                continue
            ok, arr2 = self._evaluate(tw, pick, primary=False)
            if not ok or arr2 is None:
                continue
            passed.add(tw.service)
            self.stats.classes['cross-pair:%s=%s' % (tile.service, tw.service)] += 1
            if arr2.shape != arr.shape or not np.array_equal(arr2, arr):
                diff = 'shape %r vs %r' % (arr.shape, arr2.shape) if arr2.shape != arr.shape else \
                    'max channel difference %d' % int(np.abs(arr2.astype(int) - arr.astype(int)).max())
                a, b_ = sorted([tile.service, tw.service])
                self.violation('C02/cross/%s-vs-%s/pixels-differ' % (a, b_),
                               'the same ground tile %r decodes differently via %s and %s: %s [%s | %s]'
                               % ([float(v) for v in rect], tile.service, tw.service, diff, tile.url, tw.url), pick)


# ------------------------------------------------------------------------------------------------

def run_case(case, stats, exclude_known=True):
    import logging
    logging.disable(logging.CRITICAL)   # MapProxy logs configuration warnings / request errors to stderr
    try:
        return ConfigRun(case, stats, exclude_known=exclude_known).run()
    finally:
        logging.disable(logging.NOTSET)


def search_shard(shard, nshards, seed, tier):
    st_ = core.Stats()
    n = (320 if tier == 'quick' else 24000) // nshards
    reported = set()

    def check(case, s):
        for v in run_case(case, s):
            if v.signature not in reported:
                reported.add(v.signature)
                return v
        return None
    core.hyp_search(cases(), check, st_, max_examples=max(n, 1), seed=seed, max_signatures=4, shrink=False)
    return st_


def run(tier, seed, stats):
    stats.merge(core.parallel(search_shard, 16, seed, tier))
    if os.environ.get('VERIF_REPO'):
        stats.notes['VERIF_REPO'] += 1


def _normalise(case):
    case = dict(case)
    g = dict(case['grid'])
    for k in ('tile_size', 'bbox'):
        if g.get(k) is not None:
            g[k] = tuple(g[k])
    case['grid'] = g
    if case.get('coverage'):
        c = dict(case['coverage'])
        c['frac'] = tuple(c['frac'])
        case['coverage'] = c
    o = dict(case['opts'])
    o['meta'] = tuple(o['meta'])
    case['opts'] = o
    return case


def replay(case, stats):
    # the committed demonstration of a known finding must not be excluded by the known-finding filter
    vs = run_case(_normalise(case), stats, exclude_known=False)
    out, seen = [], set()
    for v in vs:
        if v.signature not in seen:
            seen.add(v.signature)
            out.append(v)
    return out
