"""C01 - Map content and feature-info queries land at the right place on the ground.

Generated configurations (confgen) are driven through the WSGI application with WMS 1.1.1 / 1.3.0 GetMap and
GetFeatureInfo requests; the upstream is the analytic ground function of ground.py, so the colour every
output pixel should show follows from the georeference of the response alone.  See DESIGN.md section 2.
"""
import gc
import logging
import math
import os
from fractions import Fraction as Fr
from urllib.parse import urlencode

import numpy as np
from hypothesis import strategies as st

from .. import confgen, core, ground
from ..refgrid import closest_level_spec

PROPERTY = 'C01'
LEVEL = 'exploration'
RULE = ('Hypothesis-generated deployments (grid SRS 3857/900913/4326/25832/31467, global or regional bbox, origin '
        'll/ul, factor 2 / sqrt2 / min_res / custom resolutions, tile sizes 64..256 incl. non-square, meta size '
        '1..3, meta buffer 0/7/40, upstream WMS 1.1.1/1.3.0 with supported_srs subsets and coverages or tile URL '
        'templates, cache-of-cache cascades, uncached cascaded layers, file/sqlite/mbtiles/compact backends), '
        '4..8 GetMap requests each (WMS 1.1.1/1.3.0, any service SRS, aligned / shifted / rescaled / far-off / '
        'reprojected / exactly-one-tile views, inside, across and beyond the layer extent) followed by WMS '
        'GetFeatureInfo clicks on the same view and one WMTS GetFeatureInfo on the tile under it. One evaluation = one GetMap view with its clicks. A view is '
        'non-trivial when it is built from >= 2 tiles, or resampled / reprojected, or clipped at the extent, or '
        'uses 1.3.0 with a north-east CRS, or carries feature-info clicks; distinct = distinct '
        '(deployment, ground, request) triples.')
ASSUMPTIONS = [
    'image.paletted: false (DESIGN section 1); responses requested as image/png',
    'trusted: pyproj (same projection library as MapProxy; the oracle checks where pixels are taken from), Pillow '
    'decoding; all SRS of one deployment come from one datum-consistent family (wgs84+etrs89, wgs84+dhdn, etrs89+dhdn) '
    'because PROJ chains ETRS89->DHDN and WGS84->DHDN 0.6-0.8 m apart',
    'pixel oracle: exact min/max of the ground function over the disc of radius rho output px, eps = 3 levels; '
    'rho = 1.5 (statement) + the coarsest pixel of the chain in output px when a served level / source image is more '
    'than 1.25 x coarser than the view + 1 px when the view is clipped at the layer extent (integer placement of the '
    'sub-image, bbox_position_in_image) + 1 cache px when a meta tile is clipped at a WMS source coverage + 1 cache px '
    'per additional resampling stage (source-side reprojection, each cascade stage); 33 % of the judged views have '
    'rho = 1.5, 25 % rho > 3.5 (class histogram rho:*)',
    'a band of rho + per stage (resampling kernel footprint + 1) px along the extent edges is not judged; extent = '
    'intersection of grid bboxes / source coverage; "outside" is judged only outside the bounding box of those '
    'rectangles (grid bboxes grown to whole tiles) in every SRS of the chain; white, black, the requested BGCOLOR, '
    'alpha 0 and mixtures of them count as background',
    'reprojection cases restricted to |lat| <= 80 deg, to the usage area of every SRS involved and to windows that do '
    'not wrap around the date line',
    'views whose output or cache pixel exceeds 1/16 of the colour period (aliasing) or that lie beyond '
    'max_shrink_factor are counted as excluded, not judged',
    'single-tile round trip (GetMap of exactly one tile vs /tiles/<layer>/<grid>/z/x/y.png) only for tiles wholly '
    'inside the layer extent and levels that the resolution identifies unambiguously',
    'feature info: forwarded click must hit the clicked ground point within 1.0 x max(client px, upstream px) x 1.05; a '
    'click more than 1.5 px inside the source coverage must be forwarded; WMTS KVP GetFeatureInfo is probed on the '
    'tile under the view centre (not on sqrt2 grids, whose odd levels the tile services do not publish)',
    'open known findings are excluded by construction (counts in excluded_by_construction) and demonstrated by the '
    'regression cases in replays/C01/',
]

SIG = 'C01/'
SIG_SQLITE_L0 = 'C01/background-inside-extent/sqlite-level0'
SIG_SMALL_QUADS = 'C01/misplaced/mesh-accuracy-test-misses-distortion'
SIG_TILE_LEVEL = 'C01/misplaced/tile-source-level-picked-by-stretched-resolution'
SIG_CASCADE_EXTENT = 'C01/background-inside-extent/cascade-extent-from-world-bbox-in-regional-srs'
SIG_WMTS_FI_ROW = 'C01/featureinfo-misplaced/wmts-row-not-flipped-on-sw-origin-grid'
MESH_EXPOSURE_LIMIT = 0.5
QUICK_CONFIGS = 800
THOROUGH_CONFIGS = 24000


# ------------------------------------------------------------------------------------------------------
# generators

REQ_KINDS = ['aligned', 'shifted', 'rescaled', 'rescaled', 'reprojected', 'reprojected', 'reprojected', 'far',
             'tile', 'tile']
BGCOLORS = [None, None, '0xff0000', '0x0000ff', '0x101010']


@st.composite
def request_descs(draw):
    kind = draw(st.sampled_from(REQ_KINDS))
    d = {'kind': kind,
         'layer_pick': draw(st.integers(0, 5)),
         'version': draw(st.sampled_from(['1.1.1', '1.3.0'])),
         'srs_pick': draw(st.integers(0, 11)),
         'level_delta': draw(st.sampled_from([0, 0, 0, 0, -1, 1])),
         'size': [draw(st.integers(40, 400)), draw(st.integers(40, 400))] if draw(st.integers(0, 3)) == 0
         else [draw(st.integers(40, 260)), draw(st.integers(40, 260))],
         'where': draw(st.sampled_from(['inside', 'inside', 'focus', 'focus', 'edge', 'edge', 'corner'])),
         'u': draw(st.floats(0.0, 1.0)), 'v': draw(st.floats(0.0, 1.0)),
         'du': draw(st.floats(-0.5, 0.5)), 'dv': draw(st.floats(-0.5, 0.5)),
         'frac': [draw(st.sampled_from([0.5, 0.25, 0.1, 0.9, 0.49, 0.51, 0.33])),
                  draw(st.sampled_from([0.5, 0.25, 0.1, 0.9, 0.49, 0.51, 0.33]))],
         'transparent': draw(st.booleans()),
         'bgcolor': draw(st.sampled_from(BGCOLORS)),
         'nonsquare': draw(st.sampled_from([1.0] * 7 + [0.8, 1.3, 2.0])),
         }
    if kind == 'rescaled':
        d['scale'] = draw(st.floats(0.7, 1.5))
    elif kind == 'far':
        d['scale'] = draw(st.one_of(st.floats(0.15, 0.5), st.floats(2.0, 4.5)))
    elif kind == 'reprojected':
        d['scale'] = draw(st.sampled_from([1.0, 1.0, 0.8, 1.3, 0.6]))
    else:
        d['scale'] = 1.0
    nclicks = draw(st.integers(0, 3))
    d['clicks'] = [[draw(st.floats(0.0, 0.999)), draw(st.floats(0.0, 0.999))] for _ in range(nclicks)]
    return d


@st.composite
def cases(draw):
    spec = draw(confgen.config_specs())
    gnd = {'r0f': draw(st.sampled_from([1.0, 1.0, 1.3, 1.6, 0.8])), 'period_px': draw(st.sampled_from([64.0, 48.0, 96.0]))}
    n = draw(st.integers(4, 8))
    reqs = [draw(request_descs()) for _ in range(n)]
    return {'spec': spec, 'ground': gnd, 'requests': reqs}


# ------------------------------------------------------------------------------------------------------
# request construction (pure function of spec + descriptor)

def _fmt(v):
    return repr(float(v))


def make_ground(case):
    spec = case['spec']
    g1 = spec['grids']['g1']
    return ground.Ground(g1['srs'], r0=spec['focus']['res'] * case['ground']['r0f'],
                         period_px=case['ground']['period_px'])


def _codes(srs_list):
    return set(ground._crs_code(s) for s in srs_list)


def _intersect(a, b):
    return (max(a[0], b[0]), max(a[1], b[1]), min(a[2], b[2]), min(a[3], b[3]))


def extent_in(chain, srs):
    """Approximate layer extent (intersection of the bounding rectangles) in srs, or None if unbounded/empty."""
    e = None
    for bbox, rs in chain['rects']:
        b = confgen.dense_bbox(bbox, rs, srs)
        e = b if e is None else _intersect(e, b)
    if e is None or not all(math.isfinite(v) for v in e) or e[0] >= e[2] or e[1] >= e[3]:
        return None
    return e


def build_request(spec, rd, gnd):
    """-> (request dict, None) or (None, reason-excluded)."""
    layers = spec['layers']
    layer = layers[rd['layer_pick'] % len(layers)]['name']
    chain = confgen.layer_chain(spec, layer)
    focus = spec['focus']
    kind = rd['kind']
    if chain['grids']:
        gname = chain['grids'][0]
        G = spec['grids'][gname]
        N = G['srs']
        res = confgen.grid_resolutions(G)
        zf = focus['level'] if gname == 'g1' else focus.get('level2', 0)
        z = min(max(zf + rd['level_delta'], 0), len(res) - 1)
        r = res[z]
        rg = confgen.ref_grid(G)
    else:
        # uncached cascaded layer: no grid, every view is forwarded as it is
        G = None
        N = spec['grids']['g1']['srs']
        r = focus['res']
        z = None
        if kind in ('aligned', 'shifted', 'tile'):
            kind = 'rescaled'
    # request SRS
    if kind == 'reprojected':
        others = [s for s in spec['wms_srs'] if s != N]
        R = others[rd['srs_pick'] % len(others)]
    elif kind in ('rescaled', 'far') and rd['srs_pick'] % 3 == 0:
        R = spec['wms_srs'][rd['srs_pick'] % len(spec['wms_srs'])]
    else:
        R = N
    srs_all = list(chain['srs_set']) + [R, N, gnd.srs]
    multi = len(_codes(srs_all)) > 1
    area = confgen.safe_area(set(srs_all)) if multi else None

    w, h = rd['size']
    scale = rd['scale']
    rx = r * scale
    ry = rx * (rd['nonsquare'] if kind not in ('aligned', 'shifted', 'tile') else 1.0)

    # centre in N coordinates
    fx, fy = confgen.from_lonlat(focus['point'][0], focus['point'][1], N)
    E = extent_in(chain, N)
    win_w, win_h = w * rx, h * ry
    where = rd['where']
    if kind == 'tile' and where in ('edge', 'corner'):
        where = 'inside'      # the single-tile round trip needs tiles that lie wholly inside the extent
    regional = E is not None and (E[2] - E[0]) <= 60 * win_w and (E[3] - E[1]) <= 60 * win_h
    if E is None or not regional:
        if where in ('edge', 'corner') and E is not None and not multi:
            pass  # the edge of the world in the grid's own SRS
        else:
            where = 'focus'
    if where == 'focus':
        cx = fx + (rd['u'] - 0.5) * 6 * win_w
        cy = fy + (rd['v'] - 0.5) * 6 * win_h
    elif where == 'inside':
        # wholly inside the extent if the window fits
        mx = min(win_w * 0.55, (E[2] - E[0]) / 2)
        my = min(win_h * 0.55, (E[3] - E[1]) / 2)
        cx = E[0] + mx + rd['u'] * (E[2] - E[0] - 2 * mx)
        cy = E[1] + my + rd['v'] * (E[3] - E[1] - 2 * my)
    elif where == 'edge':
        side = int(rd['u'] * 4) % 4
        t = rd['v']
        if side == 0:
            cx, cy = E[0], E[1] + t * (E[3] - E[1])
        elif side == 1:
            cx, cy = E[2], E[1] + t * (E[3] - E[1])
        elif side == 2:
            cx, cy = E[0] + t * (E[2] - E[0]), E[1]
        else:
            cx, cy = E[0] + t * (E[2] - E[0]), E[3]
        cx += rd['du'] * 0.8 * win_w
        cy += rd['dv'] * 0.8 * win_h
    else:
        cx = E[0] if rd['u'] < 0.5 else E[2]
        cy = E[1] if rd['v'] < 0.5 else E[3]
        cx += rd['du'] * 0.8 * win_w
        cy += rd['dv'] * 0.8 * win_h

    tile = None
    if R == N:
        if kind == 'tile':
            w, h = G['tile_size']
            tx, ty = rg.tile_of_point(cx, cy, z)
            rect = rg.tile_rect(tx, ty, z)
            bbox = [float(v) for v in rect]
            tile = [int(tx), int(ty), int(z)]
        else:
            x0 = cx - win_w / 2
            y1 = cy + win_h / 2
            if kind in ('aligned', 'shifted'):
                # snap the upper-left corner to the pixel lattice of the level
                kx = math.floor((x0 - G['bbox'][0]) / r)
                x0 = G['bbox'][0] + kx * r
                if rg.ul:
                    ky = math.floor((G['bbox'][3] - y1) / r)
                    y1 = G['bbox'][3] - ky * r
                else:
                    ky = math.floor((y1 - G['bbox'][1]) / r)
                    y1 = G['bbox'][1] + ky * r
                if kind == 'shifted':
                    x0 += rd['frac'][0] * r
                    y1 -= rd['frac'][1] * r
            bbox = [x0, y1 - h * ry, x0 + w * rx, y1]
    else:
        # window of about the same ground size in the request SRS
        if multi:
            lo, la = confgen.to_lonlat(cx, cy, N)
            if not (math.isfinite(lo) and math.isfinite(la)) or not confgen.lonlat_in_area(lo, la, area):
                return None, 'centre-outside-valid-area'
        X, Y = ground.transform(cx, cy, N, R)
        X, Y = float(X), float(Y)
        if not (math.isfinite(X) and math.isfinite(Y)):
            return None, 'centre-outside-valid-area'
        sx, sy = confgen.scale_xy(R, N, (X, Y))
        rho_r = rx / min(sx, sy)
        rx, ry = rho_r, rho_r * (ry / rx)
        bbox = [X - w * rx / 2, Y - h * ry / 2, X + w * rx / 2, Y + h * ry / 2]
    if multi:
        # keep the whole window inside the area where every SRS involved is used; shrink the window if needed
        for _ in range(6):
            xs = [bbox[0], bbox[2], bbox[0], bbox[2], (bbox[0] + bbox[2]) / 2]
            ys = [bbox[1], bbox[1], bbox[3], bbox[3], (bbox[1] + bbox[3]) / 2]
            lo, la = ground.transform(xs, ys, R, 'EPSG:4326')
            ok = all(math.isfinite(a) and math.isfinite(b) and confgen.lonlat_in_area(a, b, area)
                     for a, b in zip(lo, la))
            if ok:
                # the window must not wrap around the date line / leave the domain of R (the way back must close)
                bx, by = ground.transform(lo, la, 'EPSG:4326', R)
                tol = 1e-6 * max(abs(bbox[2] - bbox[0]), abs(bbox[3] - bbox[1]))
                ok = all(abs(a - b) <= tol for a, b in zip(bx, xs)) and all(abs(a - b) <= tol for a, b in zip(by, ys))
            if ok:
                break
            if kind == 'tile' or min(w, h) <= 60:
                return None, 'window-outside-valid-area'
            mx, my = (bbox[0] + bbox[2]) / 2, (bbox[1] + bbox[3]) / 2
            w, h = max(40, w // 2), max(40, h // 2)
            bbox = [mx - w * rx / 2, my - h * ry / 2, mx + w * rx / 2, my + h * ry / 2]
        else:
            return None, 'window-outside-valid-area'
    if not (bbox[2] > bbox[0] and bbox[3] > bbox[1]):
        return None, 'degenerate-window'
    req = {'layer': layer, 'version': rd['version'], 'srs': R, 'bbox': [float(v) for v in bbox], 'size': [int(w), int(h)],
           'kind': kind, 'transparent': bool(rd['transparent']), 'bgcolor': rd['bgcolor'], 'tile': tile,
           'level': z, 'clicks': [[min(int(a * w), w - 1), min(int(b * h), h - 1)] for a, b in rd['clicks']]}
    return req, None


def wms_bbox_param(bbox, srs, version):
    if version == '1.3.0' and ground.is_north_east(srs):
        vals = (bbox[1], bbox[0], bbox[3], bbox[2])
    else:
        vals = bbox
    return ','.join(_fmt(v) for v in vals)


def getmap_url(req):
    v13 = req['version'] == '1.3.0'
    p = [('SERVICE', 'WMS'), ('VERSION', req['version']), ('REQUEST', 'GetMap'), ('LAYERS', req['layer']),
         ('STYLES', ''), ('CRS' if v13 else 'SRS', req['srs']),
         ('BBOX', wms_bbox_param(req['bbox'], req['srs'], req['version'])),
         ('WIDTH', str(req['size'][0])), ('HEIGHT', str(req['size'][1])), ('FORMAT', 'image/png'),
         ('TRANSPARENT', 'TRUE' if req['transparent'] else 'FALSE')]
    if req['bgcolor']:
        p.append(('BGCOLOR', req['bgcolor']))
    return '/service?' + urlencode(p)


def featureinfo_url(req, click):
    v13 = req['version'] == '1.3.0'
    p = [('SERVICE', 'WMS'), ('VERSION', req['version']), ('REQUEST', 'GetFeatureInfo'), ('LAYERS', req['layer']),
         ('QUERY_LAYERS', req['layer']), ('STYLES', ''), ('CRS' if v13 else 'SRS', req['srs']),
         ('BBOX', wms_bbox_param(req['bbox'], req['srs'], req['version'])),
         ('WIDTH', str(req['size'][0])), ('HEIGHT', str(req['size'][1])), ('FORMAT', 'image/png'),
         ('INFO_FORMAT', 'text/plain'),
         ('I' if v13 else 'X', str(click[0])), ('J' if v13 else 'Y', str(click[1]))]
    return '/service?' + urlencode(p)


# ------------------------------------------------------------------------------------------------------
# model of the levels that serve a view (only used to widen the tolerance and to guard against aliasing)

def _view_points(req):
    b = req['bbox']
    return [(b[0], b[1]), (b[2], b[1]), (b[0], b[3]), (b[2], b[3]), ((b[0] + b[2]) / 2, (b[1] + b[3]) / 2)]


def px_in_output(req, res_units, srs_from, grow=None):
    """Largest size (in output pixels, over both axes and over the corners / centre of the view) of a pixel of
    `res_units` per pixel in srs_from.  grow: optional srs whose local scale (srs_from -> grow) first enlarges the
    pixel (pixel of a source image that is as fine as a cache level of another SRS)."""
    R = req['srs']
    rx = (req['bbox'][2] - req['bbox'][0]) / req['size'][0]
    ry = (req['bbox'][3] - req['bbox'][1]) / req['size'][1]
    worst = 0.0
    for pt in _view_points(req):
        X, Y = ground.transform(pt[0], pt[1], R, srs_from)
        if not (math.isfinite(float(X)) and math.isfinite(float(Y))):
            return math.inf
        r = res_units
        if grow is not None:
            gx, gy = confgen.scale_xy(srs_from, grow, (float(X), float(Y)))
            # res_units is given in `srs_from`; the source image has about that many pixels in `grow` units
            r_g = res_units * max(gx, gy)
            XX, YY = ground.transform(float(X), float(Y), srs_from, grow)
            sx, sy = confgen.scale_xy(grow, R, (float(XX), float(YY)))
            worst = max(worst, r_g * sx / rx, r_g * sy / ry)
            continue
        sx, sy = confgen.scale_xy(srs_from, R, (float(X), float(Y)))
        worst = max(worst, r * sx / rx, r * sy / ry)
    return worst


QUAD_SAMPLES = ((0.5, 0.5), (0.25, 0.25), (0.75, 0.25), (0.25, 0.75), (0.75, 0.75))


def emulated_mesh_error(src_srs, dst_srs, dst_bbox, dst_size, max_quads=600):
    """Largest error (destination pixels) of the mesh that ImageTransformer.transform_meshes builds for this
    transformation, sampled at the centre and the quarter points of every quad it accepts.  The accept / divide
    rules are those of the code under test: a quad narrower or lower than 50 px is accepted unseen, any other quad
    is accepted when the affine approximation is less than one pixel off *at its centre*.  Used only to recognise
    views that are exposed to the known weakness of that test (unseen small quads; centre blind to errors that are
    antisymmetric about it, e.g. Mercator views symmetric about the equator)."""
    if ground._crs_code(src_srs) == ground._crs_code(dst_srs):
        return 0.0
    w, h = dst_size
    b = dst_bbox
    rx = (b[2] - b[0]) / w
    ry = (b[3] - b[1]) / h

    def errors(q, samples):
        x0, y0, x1, y1 = q
        cx = np.array([x0, x0, x1, x1], dtype=float)      # nw, sw, se, ne
        cy = np.array([y0, y1, y1, y0], dtype=float)
        SX, SY = ground.transform(b[0] + cx * rx, b[3] - cy * ry, dst_srs, src_srs)
        if not (np.isfinite(SX).all() and np.isfinite(SY).all()):
            return None
        fx = np.array([p[0] for p in samples])
        fy = np.array([p[1] for p in samples])
        wts = np.stack([(1 - fx) * (1 - fy), (1 - fx) * fy, fx * fy, fx * (1 - fy)], axis=1)
        ix, iy = wts.dot(SX), wts.dot(SY)
        BX, BY = ground.transform(ix, iy, src_srs, dst_srs)
        if not (np.isfinite(BX).all() and np.isfinite(BY).all()):
            return None
        tx = b[0] + (x0 + fx * (x1 - x0)) * rx
        ty = b[3] - (y0 + fy * (y1 - y0)) * ry
        return np.abs(BX - tx) / rx, np.abs(BY - ty) / ry, np.maximum(np.abs(BX - tx), np.abs(BY - ty)) / rx

    stack = [(0, 0, w, h)]
    worst = 0.0
    n = 0
    while stack:
        q = stack.pop()
        n += 1
        if n > max_quads:
            return math.inf
        qw, qh = q[2] - q[0], q[3] - q[1]
        if qw <= 0 or qh <= 0:
            continue
        e = errors(q, QUAD_SAMPLES)
        if e is None:
            return math.inf
        accepted = qw < 50 or qh < 50 or e[2][0] < 1.0
        if accepted:
            worst = max(worst, float(e[0].max()), float(e[1].max()))
            continue
        xc = int(q[0] + qw / 2)
        yc = int(q[1] + qh / 2)
        if qw > 2 * qh:
            stack += [(q[0], q[1], xc, q[3]), (xc, q[1], q[2], q[3])]
        elif qh > 2 * qw:
            stack += [(q[0], q[1], q[2], yc), (q[0], yc, q[2], q[3])]
        else:
            stack += [(q[0], q[1], xc, yc), (xc, q[1], q[2], yc), (q[0], yc, xc, q[3]), (xc, yc, q[2], q[3])]
    return worst


def meta_tiles_covering(G, cache, meta_capable, z, bbox_g, limit=9):
    """(bbox, size) of the meta tiles (incl. meta buffer) of `cache` at level z that a rectangle in grid coordinates
    touches."""
    rg = confgen.ref_grid(G)
    res = float(rg.res[z])
    nx, ny = rg.grid_sizes[z]
    mx, my = cache['meta_size'] if meta_capable else (1, 1)
    buf = cache['meta_buffer'] if meta_capable and (mx, my) != (1, 1) or meta_capable else 0
    if not meta_capable:
        buf = 0
    t0 = rg.tile_of_point(bbox_g[0], bbox_g[1], z)
    t1 = rg.tile_of_point(bbox_g[2], bbox_g[3], z)
    xs = sorted([min(max(t0[0], 0), nx - 1), min(max(t1[0], 0), nx - 1)])
    ys = sorted([min(max(t0[1], 0), ny - 1), min(max(t1[1], 0), ny - 1)])
    out = []
    for MX in range(xs[0] // mx, xs[1] // mx + 1):
        for MY in range(ys[0] // my, ys[1] // my + 1):
            ax, bx_ = MX * mx, min((MX + 1) * mx, nx) - 1
            ay, by_ = MY * my, min((MY + 1) * my, ny) - 1
            r0 = rg.tile_rect(ax, ay, z)
            r1 = rg.tile_rect(bx_, by_, z)
            rect = (float(min(r0[0], r1[0])) - buf * res, float(min(r0[1], r1[1])) - buf * res,
                    float(max(r0[2], r1[2])) + buf * res, float(max(r0[3], r1[3])) + buf * res)
            size = ((bx_ - ax + 1) * rg.tw + 2 * buf, (by_ - ay + 1) * rg.th + 2 * buf)
            out.append((rect, size))
            if len(out) >= limit:
                return out
    return out


def mesh_exposure(spec, chain, req, levels):
    """How far (output px) the meshes of the reprojection stages of this view can be off because of the weak
    accuracy test of transform_meshes.  levels: candidate levels per grid of the chain (top first)."""
    R = req['srs']
    src = chain['source']
    worst = 0.0
    grids = [spec['grids'][g] for g in chain['grids']]
    if not grids:
        for S in source_srs_for(src, R) or []:
            worst = max(worst, emulated_mesh_error(S, R, req['bbox'], tuple(req['size'])))
        return worst
    # stored tiles -> view
    worst = max(worst, emulated_mesh_error(grids[0]['srs'], R, req['bbox'], tuple(req['size'])))
    # lower cache -> meta tiles of the upper cache; source image -> meta tiles of the bottom cache
    for i, G in enumerate(grids):
        cache = chain['caches'][i]
        if i + 1 < len(grids):
            sources = [grids[i + 1]['srs']]
            meta_capable = True
        else:
            sources = source_srs_for(src, G['srs']) or []
            meta_capable = src['type'] == 'wms'
        sources = [a for a in sources if ground._crs_code(a) != ground._crs_code(G['srs'])]
        if not sources:
            continue
        bg = confgen.dense_bbox(req['bbox'], R, G['srs'])
        if not all(math.isfinite(v) for v in bg):
            return math.inf
        for z in levels[i]:
            res = confgen.grid_resolutions(G)[z]
            scale = px_in_output(req, res, G['srs'])
            for rect, size in meta_tiles_covering(G, cache, meta_capable, z, bg):
                for a in sources:
                    worst = max(worst, emulated_mesh_error(a, G['srs'], rect, size) * scale)
    return worst


def source_srs_for(src, srs):
    """SRS in which a WMS source with supported_srs is asked for data of `srs` (None: asked directly)."""
    sup = src.get('supported_srs')
    if src['type'] != 'wms' or not sup or ground._crs_code(srs) in confgen_codes(sup):
        return None
    return sup


def view_model(spec, chain, req, gnd):
    """-> dict(rho, coarse (coarsest pixel of the chain in output px), beyond_shrink, alias, levels, budget)"""
    R = req['srs']
    size = req['size']
    out = {'coarse': 1.0, 'beyond_shrink': False, 'levels': [], 'upscaled': False}
    query_ratio = None  # resolution asked from this stage, in units of the output pixel
    src = chain['source']
    L = None
    levels_res = []
    for gname in chain['grids']:
        G = spec['grids'][gname]
        b = confgen.dense_bbox(req['bbox'], R, G['srs'])
        if not all(math.isfinite(v) for v in b):
            out['beyond_shrink'] = True
            break
        q = min((b[2] - b[0]) / size[0], (b[3] - b[1]) / size[1])  # output pixel in units of this grid
        res = [Fr(v) for v in confgen.grid_resolutions(G)]
        if query_ratio is None:
            asked = [q * k for k in (0.97, 1.0, 1.03)]
        else:
            asked = [q * query_ratio * k for k in (0.85, 0.92, 1.0, 1.08, 1.18)]
        if max(asked) > float(res[0]) * 4.0 * 0.97:
            out['beyond_shrink'] = True
        cand = set(closest_level_spec(res, Fr(a), Fr(115, 100)) for a in asked)
        L = max(float(res[l]) for l in cand)
        out['levels'].append((gname, sorted(cand)))
        levels_res.append(sorted(cand))
        out['coarse'] = max(out['coarse'], px_in_output(req, L, G['srs']))
        query_ratio = L / q
    # a WMS source that is asked in another SRS delivers an image with square pixels in that SRS, about as many as
    # the meta tile (or, for an uncached layer, the view) has
    if chain['grids'] and L is not None:
        G = spec['grids'][chain['grids'][-1]]
        sup = source_srs_for(src, G['srs'])
        if sup:
            out['coarse'] = max(out['coarse'], max(px_in_output(req, L, G['srs'], grow=S) for S in sup))
    elif not chain['grids']:
        sup = source_srs_for(src, R)
        if sup:
            for S in sup:
                bs = confgen.dense_bbox(req['bbox'], R, S)
                if not all(math.isfinite(v) for v in bs):
                    out['coarse'] = math.inf
                    continue
                p_s = min((bs[2] - bs[0]) / size[0], (bs[3] - bs[1]) / size[1])
                out['coarse'] = max(out['coarse'], px_in_output(req, p_s, S))
    if not math.isfinite(out['coarse']):
        out['beyond_shrink'] = True
        out['coarse'] = 1.0
    out['mesh_exposure'] = 0.0
    if not out['beyond_shrink'] and len(levels_res) == len(chain['grids']):
        out['mesh_exposure'] = mesh_exposure(spec, chain, req, levels_res)
    out['upscaled'] = out['coarse'] > 1.25
    # displacement budget (output px): 1.5 by the statement for the resampling between stored data and the output,
    # plus what additional processing stages may legitimately add (each at most one pixel of that stage)
    cpx = max(1.0, out['coarse'])
    budget = [('base', 1.5)]
    if out['upscaled']:
        budget.append(('upscaled', out['coarse']))
    src = chain['source']
    if chain['rects'] and not view_inside(req, chain['rects'], 0.0):
        budget.append(('clipped-at-extent', 1.0))      # integer placement of the clipped sub-image
    if chain['caches']:
        c_bottom = chain['caches'][-1]
        G = spec['grids'][c_bottom['grid']]
        if src.get('coverage') and src['type'] == 'wms':
            meta_px = max(c_bottom['meta_size'][0] * G['tile_size'][0], c_bottom['meta_size'][1] * G['tile_size'][1]) \
                + 2 * c_bottom['meta_buffer']
            if not view_inside(req, [(tuple(src['coverage']['bbox']), src['coverage']['srs'])], meta_px * cpx * 1.3):
                budget.append(('meta-tile-clipped-at-coverage', cpx))
        if src['type'] == 'wms' and src.get('supported_srs') and \
                ground._crs_code(G['srs']) not in confgen_codes(src['supported_srs']):
            budget.append(('source-side-reprojection', cpx))
        for _ in chain['caches'][1:]:
            budget.append(('cascade-stage', cpx))
    elif src.get('supported_srs') and ground._crs_code(R) not in confgen_codes(src['supported_srs']):
        budget.append(('source-side-reprojection', 0.0))   # the only resampling of an uncached layer: base budget
    out['budget'] = budget
    out['rho'] = sum(v for _, v in budget)
    # aliasing guard: pixel sizes in ground units against the colour period
    b = confgen.dense_bbox(req['bbox'], R, gnd.srs)
    if all(math.isfinite(v) for v in b):
        qg = max((b[2] - b[0]) / size[0], (b[3] - b[1]) / size[1])
        out['alias'] = qg * out['coarse'] * 16.0 > gnd.period
    else:
        out['alias'] = True
    return out


def view_inside(req, rects, grow_px):
    """True if the view, grown by grow_px output pixels on every side, lies inside all rectangles."""
    b = req['bbox']
    rx = (b[2] - b[0]) / req['size'][0]
    ry = (b[3] - b[1]) / req['size'][1]
    bb = (b[0] - grow_px * rx, b[1] - grow_px * ry, b[2] + grow_px * rx, b[3] + grow_px * ry)
    for bbox, rs in rects:
        t = confgen.dense_bbox(bb, req['srs'], rs, n=16)
        if not all(math.isfinite(v) for v in t):
            return False
        if t[0] < bbox[0] or t[1] < bbox[1] or t[2] > bbox[2] or t[3] > bbox[3]:
            return False
    return True


# ------------------------------------------------------------------------------------------------------
# oracle

def tri_range(lo, hi):
    """Exact min / max of the triangle wave ground.tri over the intervals [lo, hi] (arrays, lo <= hi)."""
    vlo, vhi = ground.tri(lo), ground.tri(hi)
    mn = np.minimum(vlo, vhi)
    mx = np.maximum(vlo, vhi)
    mn = np.where(np.floor(hi) > np.floor(lo), 0.0, mn)               # a trough (integer t) inside
    mx = np.where(np.floor(hi - 0.5) > np.floor(lo - 0.5), 1.0, mx)   # a peak (t = n + 1/2) inside
    return mn, mx


_RING = None


def _ring():
    global _RING
    if _RING is None:
        a = np.linspace(0.0, 2 * np.pi, 32, endpoint=False)
        b = np.linspace(0.0, 2 * np.pi, 12, endpoint=False) + 0.1
        ox = np.concatenate([[0.0], np.cos(a), 0.5 * np.cos(b)])
        oy = np.concatenate([[0.0], np.sin(a), 0.5 * np.sin(b)])
        _RING = (ox, oy)
    return _RING


def expected_interval(gnd, px, py, bbox, size, srs, rho):
    """Channel-wise [lo, hi] of the ground function over the disc of radius rho output pixels around the centres of
    the given pixels.  Unlike Ground.expected_interval (5x5 lattice, which can miss the peak or trough of the
    triangle waves between two lattice points and only reaches 0.71 rho on the diagonals) the range of the two fine
    channels is computed exactly from the range of X resp. Y over the disc; the coarse channel (slope < 0.3 levels
    per pixel) is sampled on the rim and gets 0.5 levels of slack."""
    w, h = size
    rx = (bbox[2] - bbox[0]) / w
    ry = (bbox[3] - bbox[1]) / h
    ox, oy = _ring()
    cx = (np.asarray(px, dtype=float) + 0.5)[:, None] + rho * ox[None, :]
    cy = (np.asarray(py, dtype=float) + 0.5)[:, None] + rho * oy[None, :]
    X, Y = ground.transform(bbox[0] + cx * rx, bbox[3] - cy * ry, srs, gnd.srs)
    ok = (np.isfinite(X) & np.isfinite(Y)).all(axis=1)
    X = np.where(np.isfinite(X), X, 0.0)
    Y = np.where(np.isfinite(Y), Y, 0.0)
    f = gnd.F(X, Y)
    lo = np.empty((len(cx), 3))
    hi = np.empty((len(cx), 3))
    Xs = X - gnd.x0 + gnd.version * 0.37 * gnd.period
    Ys = Y - gnd.y0 - gnd.version * 0.23 * gnd.period
    for ch, V in ((0, Xs), (1, Ys)):
        vmin = V.min(axis=1)
        vmax = V.max(axis=1)
        pad = 0.01 * (vmax - vmin) + 1e-9 * np.abs(vmax)
        mn, mx = tri_range((vmin - pad) / gnd.period, (vmax + pad) / gnd.period)
        lo[:, ch] = 40.0 + 170.0 * mn
        hi[:, ch] = 40.0 + 170.0 * mx
    lo[:, 2] = f[..., 2].min(axis=1) - 0.5
    hi[:, 2] = f[..., 2].max(axis=1) + 0.5
    return lo, hi, ok


def check_pixels(gnd, arr, px, py, bbox, size, srs, rho, eps=3.0):
    lo, hi, ok = expected_interval(gnd, px, py, bbox, size, srs, rho)
    got = arr[np.asarray(py), np.asarray(px), :3].astype(float)
    excess = np.maximum(lo - eps - got, got - hi - eps)
    excess = np.where(ok[:, None], excess, -1.0)
    worst = excess.max(axis=1)
    return np.nonzero(worst > 0)[0], worst

def is_background(px, bg, tol=4):
    """px: [N,4] uint8.  Background = (nearly) transparent, or opaque white, or opaque requested BGCOLOR, or opaque
    black (what transparent pixels of a cascaded cache turn into when MapProxy merges its RGBA tiles on an RGB
    canvas - a compositing matter, not a georeferencing one).  The ground function never produces these colours."""
    a = px[:, 3].astype(int)
    rgb = px[:, :3].astype(int)
    transparent = a <= 10
    white = (a >= 245) & (rgb >= 254 - tol).all(axis=1)
    black = (a >= 245) & (rgb <= tol + 4).all(axis=1)
    res = transparent | white | black
    if bg is not None:
        res |= (a >= 245) & (np.abs(rgb - np.asarray(bg)[None, :]) <= tol).all(axis=1)
    return res


def is_background_blend(px, bg, tol=6):
    """Opaque pixels whose colour is a mixture of the background colours (black, white, requested BGCOLOR): what
    resampling produces where two kinds of background meet."""
    rgb = px[:, :3].astype(float)
    anchors = [np.array([255.0, 255.0, 255.0])]
    if bg is not None:
        anchors.append(np.asarray(bg, dtype=float))
    A = np.stack(anchors, axis=1)                      # 3 x k, black is the origin
    coef, _, _, _ = np.linalg.lstsq(A, rgb.T, rcond=None)
    resid = np.abs(A.dot(coef) - rgb.T).max(axis=0)
    ok = (resid <= tol) & (coef >= -0.03).all(axis=0) & (coef.sum(axis=0) <= 1.03)
    return ok


def parse_bg(s):
    if not s:
        return None
    v = int(s, 16)
    return ((v >> 16) & 255, (v >> 8) & 255, v & 255)


KERNEL_PX = {'bicubic': 2.0, 'bilinear': 1.0, 'nearest': 0.5}


def edge_margin(spec, chain, vm):
    """Width (output px) of the band along the extent edges that is not judged: rho, plus per resampling stage the
    footprint of the resampling kernel (edge pixels are blended with the transparent outside) and one pixel of
    that stage for the integer clipping of partial pixels (bbox_position_in_image)."""
    stages = len(chain['grids']) + 1
    k = KERNEL_PX[spec.get('resampling', 'bicubic')]
    return vm['rho'] + stages * (k * max(1.0, vm['coarse']) + 1.0 * max(1.0, vm['coarse']))


def classify_pixels(chain, req, rho, px, py):
    """+1 wholly inside the layer extent, -1 certainly outside, 0 not judged."""
    R = req['srs']
    n = len(px)
    if not chain['rects']:
        return np.ones(n, dtype=int)
    srs_all = []
    for s in list(chain['srs_set']) + [R]:
        if s not in srs_all:
            srs_all.append(s)
    inside = np.ones(n, dtype=bool)
    outside = np.zeros(n, dtype=bool)
    for (bbox, rs), (obox, _) in zip(chain['rects'], chain['outer_rects']):
        c = ground.region_class(px, py, req['bbox'], req['size'], R, bbox, rs, rho)
        inside &= (c == 1)
        bbox = obox
        out_all = np.ones(n, dtype=bool)
        for B in srs_all:
            bb = confgen.dense_bbox(bbox, rs, B)
            if not all(math.isfinite(v) for v in bb):
                out_all[:] = False
                break
            m = 1e-9 * max(abs(v) for v in bb) + 1e-9
            bb = (bb[0] - m, bb[1] - m, bb[2] + m, bb[3] + m)
            cb = ground.region_class(px, py, req['bbox'], req['size'], R, bb, B, rho)
            out_all &= (cb == -1)
        outside |= out_all
    res = np.zeros(n, dtype=int)
    res[inside] = 1
    res[outside & ~inside] = -1
    return res


def sig_for(chain, req, what):
    return '%s%s/%s/%s' % (SIG, what, chain['kind'], req['kind'])


def check_map(spec, chain, req, gnd, arr, vm, st_):
    """Pixel oracle on one decoded GetMap response.  Returns Violation or None."""
    size = tuple(req['size'])
    if arr.shape[1] != size[0] or arr.shape[0] != size[1]:
        return ('size', 'response is %dx%d, requested %dx%d' % (arr.shape[1], arr.shape[0], size[0], size[1]))
    px, py = ground.sample_lattice(size, 2000)
    rho = vm['rho']
    cls = classify_pixels(chain, req, edge_margin(spec, chain, vm), px, py)
    got = arr[py, px, :]
    bg = is_background(got, parse_bg(req['bgcolor']), tol=14 if spec.get('paletted') else 4)
    ins = cls == 1
    outs = cls == -1
    st_.extra['pixels_judged'] = st_.extra.get('pixels_judged', 0) + int(ins.sum() + outs.sum())
    if outs.any():
        bad = outs & ~bg
        if bad.any():
            bad &= ~is_background_blend(got, parse_bg(req['bgcolor']))
        if bad.any():
            i = int(np.nonzero(bad)[0][0])
            return ('content-outside-extent',
                    '%d of %d sampled pixels wholly outside the layer extent are not background, e.g. pixel (%d, %d) = %r'
                    % (int(bad.sum()), int(outs.sum()), px[i], py[i], got[i].tolist()))
    if ins.any():
        bad = ins & bg
        if bad.any():
            i = int(np.nonzero(bad)[0][0])
            return ('background-inside-extent',
                    '%d of %d sampled pixels wholly inside the layer extent are background, e.g. pixel (%d, %d) = %r'
                    % (int(bad.sum()), int(ins.sum()), px[i], py[i], got[i].tolist()))
        semi = ins & (got[:, 3] < 245)
        if semi.any():
            i = int(np.nonzero(semi)[0][0])
            return ('background-inside-extent',
                    '%d sampled pixels wholly inside the layer extent are partly transparent, e.g. pixel (%d, %d) = %r'
                    % (int(semi.sum()), px[i], py[i], got[i].tolist()))
        idx = np.nonzero(ins)[0]
        eps = 16.0 if spec.get('paletted') else 3.0
        rej, worst = check_pixels(gnd, arr, px[idx], py[idx], req['bbox'], size, req['srs'], rho=rho, eps=eps)
        if len(rej):
            k = int(rej[np.argmax(worst[rej])])
            i = idx[k]
            lo, hi, _ = expected_interval(gnd, px[i:i + 1], py[i:i + 1], req['bbox'], size, req['srs'], rho)
            return ('misplaced',
                    '%d of %d sampled pixels do not show the ground within rho=%.2f px (eps %d): worst pixel (%d, %d) '
                    'shows %r, expected within [%s .. %s] (excess %.1f levels)'
                    % (len(rej), len(idx), rho, eps, px[i], py[i], got[i][:3].tolist(),
                       np.round(lo[0]).astype(int).tolist(), np.round(hi[0]).astype(int).tolist(), float(worst[k])))
    return None


def tile_inside_extent(chain, req):
    """True if the four corners (and edge midpoints) of the view lie inside every bounding rectangle."""
    b = req['bbox']
    xs = np.array([b[0], b[2], b[0], b[2], (b[0] + b[2]) / 2, (b[0] + b[2]) / 2, b[0], b[2]])
    ys = np.array([b[1], b[1], b[3], b[3], b[1], b[3], (b[1] + b[3]) / 2, (b[1] + b[3]) / 2])
    for bbox, rs in chain['rects']:
        X, Y = ground.transform(xs, ys, req['srs'], rs)
        if not (np.isfinite(X).all() and np.isfinite(Y).all()):
            return False
        if not ((X >= bbox[0]).all() and (X <= bbox[2]).all() and (Y >= bbox[1]).all() and (Y <= bbox[3]).all()):
            return False
    return True


def check_roundtrip(dep, spec, chain, req, gnd, arr, st_, vm):
    """A GetMap that is exactly one stored tile must be pixel-identical to the tile from the TMS service."""
    gname = chain['grids'][0]
    if vm['levels'][0][1] != [req['tile'][2]]:
        # levels closer together than the stretch factor: a resolution within rounding of the tile's level may
        # legitimately be served from the neighbouring level (see C03, level-boundary slack)
        st_.notes['roundtrip-level-ambiguous'] += 1
        return None
    rg = confgen.ref_grid(spec['grids'][gname])
    tx, ty, z = req['tile']
    if not rg.in_grid(tx, ty, z):
        st_.notes['roundtrip-tile-outside-grid'] += 1
        return None
    if not tile_inside_extent(chain, req):
        st_.notes['roundtrip-tile-not-wholly-inside-extent'] += 1
        return None
    # /tiles/<layer>/<grid>/z/x/y without an origin parameter addresses tiles in the grid's own numbering; the
    # tile services publish only every second level of sqrt2 grids (public z = internal z / 2)
    z_pub = z
    if spec['grids'][gname]['mode'] == 'sqrt2' or (spec['grids'][gname]['mode'] == 'min_res'
                                                   and spec['grids'][gname].get('res_factor') == 'sqrt2'):
        if z % 2:
            st_.notes['roundtrip-odd-level-of-sqrt2-grid-not-published'] += 1
            return None
        z_pub = z // 2
    resp = dep.app.get('/tiles/%s/%s/%d/%d/%d.png' % (req['layer'], gname, z_pub, tx, ty), expect_errors=True)
    if resp.status_int != 200 or not resp.content_type.startswith('image/'):
        st_.notes['roundtrip-tms-status-%d' % resp.status_int] += 1
        return None
    tile = ground.to_rgba_array(ground.decode_image(resp.body))
    if tile.shape != arr.shape:
        return ('roundtrip-size', 'TMS tile is %r, GetMap of the same tile %r' % (tile.shape, arr.shape))
    # make sure this is the tile we think it is (TMS addressing itself is C02's business)
    px, py = ground.sample_lattice(tuple(req['size']), 300, border=False)
    rej, _ = check_pixels(gnd, tile, px, py, req['bbox'], tuple(req['size']), req['srs'], rho=1.5, eps=3.0)
    if len(rej) > len(px) // 10:
        st_.notes['roundtrip-tms-address-unexpected'] += 1
        return None
    st_.classes['roundtrip-compared'] += 1
    vis = (tile[..., 3] > 0) | (arr[..., 3] > 0)
    diff = (tile != arr).any(axis=2) & vis
    if diff.any():
        ys, xs = np.nonzero(diff)
        return ('roundtrip-resampled',
                'GetMap for exactly tile %r of %s differs from the stored tile in %d pixels (max channel difference %d), '
                'e.g. (%d, %d): tile %r, map %r'
                % (req['tile'], gname, int(diff.sum()), int(np.abs(tile.astype(int) - arr.astype(int))[diff].max()),
                   xs[0], ys[0], tile[ys[0], xs[0]].tolist(), arr[ys[0], xs[0]].tolist()))
    return None


def _px_metrics(bbox, size, pos, srs, gsrs):
    """ground point of the centre of pixel pos and the ground length of one pixel step in x and y"""
    rx = (bbox[2] - bbox[0]) / size[0]
    ry = (bbox[3] - bbox[1]) / size[1]
    cx = bbox[0] + (pos[0] + 0.5) * rx
    cy = bbox[3] - (pos[1] + 0.5) * ry
    X, Y = ground.transform([cx, cx + rx, cx], [cy, cy, cy - ry], srs, gsrs)
    p = (float(X[0]), float(Y[0]))
    dx = math.hypot(X[1] - X[0], Y[1] - Y[0])
    dy = math.hypot(X[2] - X[0], Y[2] - Y[0])
    return p, max(dx, dy)


def check_featureinfo(dep, spec, chain, req, click, gnd, st_):
    src = chain['source']
    dep.upstream.clear()
    resp = dep.app.get(featureinfo_url(req, click), expect_errors=True)
    calls = dep.upstream.calls('featureinfo')
    if resp.status_int != 200:
        st_.notes['featureinfo-status-%d' % resp.status_int] += 1
        return None
    pc, cpx = _px_metrics(req['bbox'], req['size'], click, req['srs'], gnd.srs)
    if not all(math.isfinite(v) for v in pc):
        st_.excluded['featureinfo-point-not-transformable'] += 1
        return None
    # must the click be forwarded?  yes when it lies inside the source coverage by more than 1.5 client pixels
    must = True
    if src.get('coverage'):
        cov = src['coverage']
        c = ground.region_class(np.array([click[0]]), np.array([click[1]]), req['bbox'], req['size'], req['srs'],
                                cov['bbox'], cov['srs'], 1.5)
        must = c[0] == 1
        st_.classes['fi-coverage:%s' % {1: 'inside', 0: 'edge', -1: 'outside'}[int(c[0])]] += 1
    if not calls:
        if must:
            return ('featureinfo-not-forwarded',
                    'click %r on %s was not forwarded upstream (response %r)' % (click, req['layer'], resp.body[:60]))
        return None
    if len(calls) > 1:
        return ('featureinfo-forwarded-twice', '%d upstream GetFeatureInfo calls for one click' % len(calls))
    info = calls[0].info
    pu, upx = _px_metrics(info['bbox'], info['size'], info['pos'], info['srs'], gnd.srs)
    transformed = ground._crs_code(info['srs']) != ground._crs_code(req['srs']) or \
        tuple(info['size']) != tuple(req['size'])
    st_.classes['fi:%s' % ('transformed' if transformed else 'forwarded')] += 1
    if not all(math.isfinite(v) for v in pu):
        return ('featureinfo-misplaced', 'upstream click %r is not a ground point (call %s)' % (info['pos'], calls[0].url))
    d = math.hypot(pu[0] - pc[0], pu[1] - pc[1])
    tol = 1.0 * max(cpx, upx) * 1.05
    rel = d / max(cpx, upx)
    st_.classes['fi-distance:%s' % ('<=0.01px' if rel <= 0.01 else '<=0.5px' if rel <= 0.5 else '<=0.75px' if rel <= 0.75
                                    else '<=1.05px' if rel <= 1.05 else '>1.05px')] += 1
    if d > tol:
        return ('featureinfo-misplaced',
                'click %r (ground %r) was forwarded as pixel %r of %r / %r %s (ground %r): %.2f px apart (px = %.4g)'
                % (click, [round(v, 3) for v in pc], info['pos'], [round(v, 6) for v in info['bbox']], info['size'],
                   info['srs'], [round(v, 3) for v in pu], d / max(cpx, upx), max(cpx, upx)))
    return None


def check_wmts_featureinfo(dep, spec, chain, req, click_frac, gnd, st_, open_sigs):
    """WMTS GetFeatureInfo (KVP) on the tile of the top cache that contains the centre of the view: the click must
    be forwarded for the ground point of pixel (I, J) of the tile that TILEROW (counted from the top, as the
    standard and MapProxy's own GetTile do) / TILECOL address."""
    gname = chain['grids'][0]
    G = spec['grids'][gname]
    if G['mode'] == 'sqrt2' or (G['mode'] == 'min_res' and G.get('res_factor') == 'sqrt2'):
        st_.notes['wmts-featureinfo-skipped-sqrt2-grid'] += 1   # tile services publish every second level only
        return None
    rg = confgen.ref_grid(G)
    z = req['level']
    b = req['bbox']
    X, Y = ground.transform((b[0] + b[2]) / 2, (b[1] + b[3]) / 2, req['srs'], G['srs'])
    if not (math.isfinite(float(X)) and math.isfinite(float(Y))):
        return None
    tx, ty = rg.tile_of_point(float(X), float(Y), z)
    if not rg.in_grid(tx, ty, z):
        st_.notes['wmts-featureinfo-tile-outside-grid'] += 1
        return None
    sw_origin = not rg.ul
    if sw_origin and SIG_WMTS_FI_ROW in open_sigs:
        st_.excluded['known-finding:wmts-featureinfo-on-sw-origin-grid'] += 1
        return None
    row = ty if rg.ul else rg.flip_y(ty, z)
    tw, th = G['tile_size']
    pos = (min(int(click_frac[0] * tw), tw - 1), min(int(click_frac[1] * th), th - 1))
    p = [('SERVICE', 'WMTS'), ('REQUEST', 'GetFeatureInfo'), ('VERSION', '1.0.0'), ('LAYER', req['layer']),
         ('STYLE', ''), ('TILEMATRIXSET', gname), ('TILEMATRIX', '%02d' % z), ('TILEROW', str(row)),
         ('TILECOL', str(tx)), ('FORMAT', 'image/png'), ('INFOFORMAT', 'text/plain'), ('I', str(pos[0])),
         ('J', str(pos[1]))]
    dep.upstream.clear()
    resp = dep.app.get('/service?' + urlencode(p), expect_errors=True)
    if resp.status_int != 200:
        st_.notes['wmts-featureinfo-status-%d' % resp.status_int] += 1
        return None
    calls = dep.upstream.calls('featureinfo')
    rect = [float(v) for v in rg.tile_rect(tx, ty, z)]
    pc, cpx = _px_metrics(rect, (tw, th), pos, G['srs'], gnd.srs)
    src = chain['source']
    must = True
    if src.get('coverage'):
        cov = src['coverage']
        c = ground.region_class(np.array([pos[0]]), np.array([pos[1]]), rect, (tw, th), G['srs'],
                                cov['bbox'], cov['srs'], 1.5)
        must = c[0] == 1
    st_.classes['wmts-featureinfo:%s' % ('sw-origin' if sw_origin else 'nw-origin')] += 1
    if not calls:
        if must:
            # on a sw-origin grid the mirrored tile may lie outside the source coverage: same root cause
            return ('wmts-row-not-flipped' if sw_origin else 'featureinfo-not-forwarded',
                    'WMTS click %r on tile %r of %s (TILEROW=%d, origin %s) was not forwarded upstream'
                    % (pos, (tx, ty, z), gname, row, G['origin']))
        return None
    info = calls[0].info
    pu, upx = _px_metrics(info['bbox'], info['size'], info['pos'], info['srs'], gnd.srs)
    if not all(math.isfinite(v) for v in pu + pc):
        return None
    d = math.hypot(pu[0] - pc[0], pu[1] - pc[1])
    if d > 1.05 * max(cpx, upx):
        what = 'featureinfo-misplaced'
        if sw_origin:
            # is it the vertically mirrored tile?
            mrect = [float(v) for v in rg.tile_rect(tx, rg.flip_y(ty, z), z)]
            pm, _ = _px_metrics(mrect, (tw, th), pos, G['srs'], gnd.srs)
            if math.hypot(pu[0] - pm[0], pu[1] - pm[1]) <= 1.05 * max(cpx, upx):
                what = 'wmts-row-not-flipped'
        return (what, 'WMTS GetFeatureInfo TILEMATRIX=%d TILEROW=%d TILECOL=%d I=%d J=%d on %s/%s (origin %s): tile covers '
                '%r, click is ground point %r, but upstream was asked for pixel %r of %r / %r %s = ground point %r '
                '(%.1f px apart)' % (z, row, tx, pos[0], pos[1], req['layer'], gname, G['origin'],
                                     [round(v, 4) for v in rect], [round(v, 3) for v in pc], info['pos'],
                                     [round(v, 4) for v in info['bbox']], info['size'], info['srs'],
                                     [round(v, 3) for v in pu], d / max(cpx, upx)))
    return None


# ------------------------------------------------------------------------------------------------------
# one case = one deployment with several views

def ne_axis(req):
    return req['version'] == '1.3.0' and ground.is_north_east(req['srs'])


def request_classes(spec, chain, req, vm):
    top = spec['grids'][chain['grids'][0]] if chain['grids'] else None
    origin = 'none' if top is None else ('ul' if top['origin'] in ('ul', 'nw') else 'll')
    buf = 'none' if not chain['caches'] else ('0' if chain['caches'][0]['meta_buffer'] == 0 else '>0')
    kind = req['kind']
    if kind in ('rescaled', 'far') and ground._crs_code(req['srs']) != ground._crs_code(top['srs'] if top else req['srs']):
        kind = 'reprojected'
    base = {'aligned': 'aligned', 'tile': 'aligned', 'shifted': 'shifted', 'rescaled': 'rescaled', 'far': 'rescaled',
            'reprojected': 'reprojected'}[kind]
    cl = ['req:' + req['kind'], 'origin:' + origin, 'metabuf:' + buf, 'src:' + chain['kind'], 'ver:' + req['version'],
          '%s/%s/buf%s/%s/%s' % (base, origin, buf, chain['kind'], req['version'])]
    if ne_axis(req):
        cl.append('ne-axis-1.3.0')
    if vm['upscaled']:
        cl.append('upscaled')
    for name, _ in vm['budget'][1:]:
        cl.append('budget+' + name)
    cl.append('rho:%s' % ('1.5' if vm['rho'] <= 1.5 else '<=2.5' if vm['rho'] <= 2.5 else '<=3.5' if vm['rho'] <= 3.5 else '>3.5'))
    s = chain['source']
    if s['type'] == 'wms':
        cl.append('upstream-wms:' + s['version'])
        if s.get('supported_srs') and chain['grids']:
            bottom = spec['grids'][chain['grids'][-1]]['srs']
            if ground._crs_code(bottom) not in confgen_codes(s['supported_srs']):
                cl.append('source-side-reprojection')
    else:
        cl.append('upstream-tiles:' + s['kind'])
    if s.get('coverage'):
        cl.append('coverage')
    if spec.get('paletted'):
        cl.append('paletted-eps16')
    for c in chain['caches']:
        cl.append('backend:' + c['backend']['type'])
    for g in chain['grids']:
        cl.append('gridsrs:' + spec['grids'][g]['srs'])
        cl.append('gridmode:' + spec['grids'][g]['mode'])
    cl.append('reqsrs:' + req['srs'])
    return cl


def confgen_codes(lst):
    return set(ground._crs_code(s) for s in lst)


def touches_sqlite_level0(spec, chain, vm):
    """True if a level-0 tile of a `type: sqlite` cache may serve the view (MBTilesLevelCache.load_tiles treats
    level 0 as "nothing to load", so tiles that are already stored come back empty)."""
    served = dict(vm['levels'])
    for c in chain['caches']:
        if c['backend']['type'] == 'sqlite' and 0 in served.get(c['grid'], []):
            return True
    return False


def tile_source_close_levels(spec, chain):
    """True if the layer is fed by a tile source whose grid has two neighbouring levels closer together than the
    stretch factor (1.15): TiledSource picks the level of a requested tile with TileGrid.closest_level, which may
    answer the coarser neighbour for a resolution that is one rounding error above the level's own."""
    s = chain['source']
    if s['type'] != 'tile' or not chain['grids']:
        return False
    for name in set([s['grid'], chain['grids'][-1]]):
        res = confgen.grid_resolutions(spec['grids'][name])
        if any(a / b <= 1.15 * (1 + 1e-9) for a, b in zip(res, res[1:])):
            return True
    return False


def cascade_world_extent_in_regional_srs(spec, chain):
    """True for a cascade whose upper cache has a global grid while the extent of the cache below it is given in a
    regional projected SRS (its grid's, or that of the source coverage, which takes precedence): the loader
    intersects the two extents in the regional SRS, where the world bbox is meaningless."""
    cov = chain['source'].get('coverage')
    for upper, lower in zip(chain['grids'], chain['grids'][1:]):
        gu, gl = spec['grids'][upper], spec['grids'][lower]
        lower_srs = cov['srs'] if cov else gl['srs']
        if gu['srs'] in confgen.GLOBAL_BBOX and list(gu['bbox']) == confgen.GLOBAL_BBOX[gu['srs']] \
                and lower_srs in confgen.PROJECTED_REGIONAL:
            return True
    return False


def run_case(case, st_, only=None, exclude_known=True):
    """Run the deployment of a case and all (or the `only`-th) of its views.  Returns (Violation|None, index)."""
    spec = case['spec']
    confgen.check_model(spec)
    gnd = make_ground(case)
    open_sigs = core.open_signatures(PROPERTY) if exclude_known else set()
    # MapProxy reports configuration hints ("grid ... is not compatible with WMTS") as log warnings
    mlog = logging.getLogger('mapproxy')
    old_level = mlog.level
    mlog.setLevel(logging.ERROR)
    try:
        with confgen.running(spec, gnd) as dep:
            for k, rd in enumerate(case['requests']):
                if only is not None and k != only:
                    continue
                v = run_view(dep, case, k, rd, gnd, st_, open_sigs)
                if v is not None:
                    return v, k
    finally:
        mlog.setLevel(old_level)
    return None, None


def run_view(dep, case, k, rd, gnd, st_, open_sigs=frozenset()):
    spec = case['spec']
    req, why = build_request(spec, rd, gnd)
    if req is None:
        st_.excluded[why] += 1
        return None
    chain = confgen.layer_chain(spec, req['layer'])
    vm = view_model(spec, chain, req, gnd)
    sqlite_l0 = touches_sqlite_level0(spec, chain, vm)
    if sqlite_l0 and SIG_SQLITE_L0 in open_sigs:
        # open known finding: do not even issue the request (it would store empty tiles in cascading caches)
        st_.excluded['known-finding:sqlite-cache-level-0'] += 1
        return None
    close_levels = tile_source_close_levels(spec, chain)
    if close_levels and SIG_TILE_LEVEL in open_sigs:
        st_.excluded['known-finding:tile-source-grid-with-levels-closer-than-stretch-factor'] += 1
        return None
    world_extent = cascade_world_extent_in_regional_srs(spec, chain)
    if world_extent and SIG_CASCADE_EXTENT in open_sigs:
        st_.excluded['known-finding:global-grid-cascading-on-regional-projected-cache'] += 1
        return None
    small_quads = vm['mesh_exposure'] > MESH_EXPOSURE_LIMIT
    if small_quads and SIG_SMALL_QUADS in open_sigs:
        st_.excluded['known-finding:unchecked-small-mesh-quads'] += 1
        return None
    dep.upstream.clear()
    resp = dep.app.get(getmap_url(req), expect_errors=True)
    n_up = len(dep.upstream.calls())
    problem = None
    judged = False
    clipped = False
    arr = None
    if resp.status_int != 200 or not (resp.content_type or '').startswith('image/'):
        body = resp.body[:300].decode('utf-8', 'replace')
        key = 'other'
        for needle in ('too many tiles', 'Request too large', 'invalid BBOX', 'Invalid request', 'internal error',
                       'Could not transform', 'not align'):
            if needle in body:
                key = needle.replace(' ', '-')
        st_.notes['getmap-no-image:%s' % key] += 1
        if key in ('other', 'internal-error') and len(st_.extra.setdefault('no_image_samples', [])) < 1:
            import re as _re
            m_ = _re.search(r'<ServiceException[^>]*>(.*?)</ServiceException>', resp.body.decode('utf-8', 'replace'), _re.S)
            st_.extra['no_image_samples'].append({'url': getmap_url(req), 'source': spec['source'],
                                                  'error': (m_.group(1) if m_ else body)[:300]})
    else:
        arr = ground.to_rgba_array(ground.decode_image(resp.body))
        if vm['beyond_shrink']:
            st_.excluded['view-beyond-max-shrink-factor'] += 1
        elif vm['alias']:
            st_.excluded['view-aliases-colour-period'] += 1
        else:
            judged = True
            problem = check_map(spec, chain, req, gnd, arr, vm, st_)
            if problem is None and req['tile'] is not None and not spec.get('paletted'):
                problem = check_roundtrip(dep, spec, chain, req, gnd, arr, st_, vm)
    fi_done = 0
    if problem is None and chain['queryable']:
        for click in req['clicks']:
            problem = check_featureinfo(dep, spec, chain, req, click, gnd, st_)
            fi_done += 1
            if problem is not None:
                break
        if problem is None and req['clicks'] and chain['grids'] and req['level'] is not None:
            problem = check_wmts_featureinfo(dep, spec, chain, req, rd['clicks'][0], gnd, st_, open_sigs)
    # evidence
    ntiles = 0
    if chain['grids'] and req['level'] is not None:
        G = spec['grids'][chain['grids'][0]]
        if ground._crs_code(req['srs']) == ground._crs_code(G['srs']):
            span_x = G['tile_size'][0] * (req['bbox'][2] - req['bbox'][0]) / req['size'][0]
            ntiles = 2 if (req['bbox'][2] - req['bbox'][0]) > span_x else 1
    E = extent_in(chain, req['srs'])
    if E is not None:
        b = req['bbox']
        clipped = b[0] < E[0] or b[1] < E[1] or b[2] > E[2] or b[3] > E[3]
    nontrivial = judged and (req['kind'] in ('shifted', 'rescaled', 'far', 'reprojected') or ntiles >= 2 or clipped
                             or ne_axis(req) or n_up >= 2) or fi_done > 0
    classes = request_classes(spec, chain, req, vm)
    if clipped:
        classes.append('clipped-at-extent')
    if judged:
        classes.append('judged')
    if fi_done:
        classes.append('with-featureinfo')
    key = {'spec': spec, 'ground': case['ground'], 'request': rd}
    sample = {'request': req, 'rho': vm['rho'], 'budget': vm['budget'], 'levels': vm['levels'], 'source': spec['source'],
              'caches': [dict(c) for c in chain['caches']]}
    st_.case(key=key, nontrivial=bool(nontrivial), classes=classes, sample=sample)
    if problem is not None:
        what, msg = problem
        signature = sig_for(chain, req, what)
        if what == 'background-inside-extent' and sqlite_l0:
            signature = SIG_SQLITE_L0
        elif small_quads and what in ('misplaced', 'background-inside-extent', 'content-outside-extent',
                                      'roundtrip-resampled'):
            signature = SIG_SMALL_QUADS
        elif what == 'wmts-row-not-flipped':
            signature = SIG_WMTS_FI_ROW
        elif world_extent and what == 'background-inside-extent':
            signature = SIG_CASCADE_EXTENT
        elif close_levels and what in ('misplaced', 'background-inside-extent', 'content-outside-extent',
                                       'roundtrip-resampled'):
            signature = SIG_TILE_LEVEL
        one = {'spec': spec, 'ground': case['ground'], 'requests': case['requests'][:k + 1]}
        return core.Violation(signature,
                              '%s [%s %s %s bbox=%r size=%r on %s; levels %r; budget %r]'
                              % (msg, req['version'], req['kind'], req['srs'], req['bbox'], req['size'], req['layer'],
                                 vm['levels'], vm['budget']), one)
    return None


def check_case(case, st_):
    v, k = run_case(case, st_)
    if v is None:
        return None
    # bounded shrink: does the failing view alone reproduce it on a fresh deployment?
    single = {'spec': case['spec'], 'ground': case['ground'], 'requests': [case['requests'][k]]}
    scratch = core.Stats()
    v1, _ = run_case(single, scratch)
    if v1 is not None and v1.signature == v.signature:
        return core.Violation(v.signature, v1.message, single)
    return v


def shard(shard_no, nshards, seed, tier):
    st_ = core.Stats()
    total = QUICK_CONFIGS if tier == 'quick' else THOROUGH_CONFIGS
    total = int(os.environ.get('C01_CONFIGS', total))
    n = max(1, total // nshards)
    stall = os.environ.get('C01_STALL_DUMP')
    if stall:
        # diagnostics only: dump all thread stacks of a shard that runs longer than C01_STALL_DUMP seconds
        import faulthandler
        f = open('/tmp/c01_stall_%d_%d.txt' % (shard_no, os.getpid()), 'w')
        faulthandler.dump_traceback_later(float(stall), repeat=False, file=f, exit=False)
    core.hyp_search(cases(), check_case, st_, max_examples=n, seed=seed, max_signatures=3, shrink=False)
    if stall:
        faulthandler.cancel_dump_traceback_later()
    return st_


def _drop_sqlite_leftovers():
    """Close what the applications of earlier cases left behind (sqlite connections in reference cycles) *now*, in
    this thread.  Otherwise the cyclic GC may finalise them later in one of multiprocessing.Pool's helper threads
    of the runner process, inside libsqlite3's global mutex, at the very moment another helper thread forks a
    replacement worker - which then inherits the locked mutex and blocks forever in its first sqlite3.connect()
    (seen: worker stuck in pthread_mutex_lock <- sqlite3PagerOpen, runner waiting in Pool.map)."""
    gc.collect()


def run(tier, seed, stats):
    _drop_sqlite_leftovers()
    stats.merge(core.parallel(shard, 16, seed, tier))


def replay(case, stats):
    try:
        v, _ = run_case(case, stats, exclude_known=False)
    finally:
        _drop_sqlite_leftovers()
    return [v] if v is not None else []
