"""C09 - Serving requests never touches files outside the cache and lock directories.

A MapProxy WSGI application (mapproxy.wsgiapp.make_wsgi_app, and the same configuration behind
mapproxy.multiapp.MultiMapProxy) with file (tc / mp / tms / reverse_tms / quadkey / arcgis, explicit
directory, grid-name directories, linked single-colour tiles), sqlite, mbtiles, geopackage (single and
per-level) and compact (v1, v2) caches below a temporary root is driven with generated requests while the
audit-event observer of vcheck/sandbox.py records every file-system touch.  Upstream is a synthetic server
(HTTPClient.open patched).  Bait tiles are planted in sibling directories at every depth a traversal
out of a cache directory would reach.  See DESIGN.md section 10.
"""
import collections
import io
import json
import os
import re
import shutil
import subprocess
import sys
import tempfile
import urllib.parse

from .. import core, sandbox, REPO, VERIF_DIR

PROPERTY = 'C09'
LEVEL = 'exploration'
RULE = ('Hypothesis grammar of requests over WMS (GetMap / GetFeatureInfo / GetLegendGraphic / GetCapabilities), '
        'WMTS KVP and REST (with dimension path segments), TMS, /tiles, KML, demo and the MultiMapProxy app '
        'prefix; every slot (dimension names and values, layer, matrix set, tile indices, format, app name, '
        'static path, headers, stray path segments) is filled either with a valid value or from an attacker '
        'dictionary (../ sequences at each depth towards planted bait directories, absolute paths, ..\\, dot '
        'segments behind valid prefixes, NUL, 5000-char values, non-ASCII look-alikes, percent- and '
        'double-percent-encoded forms, negative / 2^31 / 2^63 / 10^30 / non-decimal tile indices), query strings '
        'plainly, minimally or fully percent-encoded, against one configuration with 20 caches of all local '
        'backends (file tc/mp/tms/reverse_tms/quadkey/arcgis, explicit directory, grid-name directories, '
        'linked single-colour tiles, meta tiles, tile source, cache-as-source, sqlite, mbtiles, geopackage, '
        'geopackage levels, compact v1/v2, disable_storage) and 31 layers with and without declared '
        'dimensions, served by MapProxyApp and by MultiMapProxy; plus a deterministic escape matrix (the '
        'canonical traversal through a dimension value and through a dimension name against every layer); '
        'thorough tier adds an atheris campaign on raw (path, query) bytes with the same dictionary. '
        'Oracle: realpath (at event time) of every write-type audit event lies under the cache / lock '
        'directories of the caches the requested layers use, every read-type open / listdir under those or '
        'the static interpreter allow-list, and no bait content appears in the response. '
        'A case is non-trivial when the request reached a cache backend call '
        '(TileManager._load_tile_coords or LegendCache.load); distinct = distinct (app, path, query string).')
ASSUMPTIONS = [
    'file-system touches are observed through CPython audit events (open, os.mkdir/rename/remove/rmdir/'
    'symlink/link/chmod/truncate/listdir/scandir, sqlite3.connect, shutil.*) plus wrapped os.stat/os.lstat; '
    'touches made inside C libraries without an audit event (sqlite journal files, PROJ, libc) are not seen',
    'the allowed directories of a request are the directories of the caches reachable from the layers it '
    'names (all caches when the layers cannot be determined), the legend cache, the two lock directories; '
    'reads additionally: interpreter, standard library, site-packages, mapproxy package, proj data, config '
    'directory, zoneinfo, /dev/urandom, /etc/mime.types, /etc/localtime',
    'byte-code files written by the import machinery below the interpreter allow-list are not MapProxy writes',
    'os.stat/lstat probes outside the allowed directories are counted (class probe-outside), not judged: the '
    'property speaks of creating, modifying, deleting or reading tile data',
    'POSIX path semantics (backslash is not a separator); requests are GET with a PEP 3333 environ',
]

BAIT_MARK = b'VCHECK-BAIT-7f3a91'       # in every bait file outside all cache directories
BAIT_RGB = (250, 10, 250)
SECRET_MARK = b'VCHECK-SECRET-c41d07'   # in the tiles of cache c_secret (only layer `secret` may show them)
SECRET_RGB = (10, 10, 250)
NEST = 'n1/n2/n3/n4/n5/n6/env'          # the deployment sits 7 levels below the mkdtemp directory
UP_RGB_A = (60, 180, 60)
UP_RGB_B = (90, 200, 120)
UP_SOLID = (70, 175, 70)

TIME_VALUES = ['2020-01-01T00:00:00Z', '2020-01-02T00:00:00Z', '2021-06-30T12:00:00Z']
ELEV_VALUES = ['0', '1000', '3000']
CUSTOM_VALUES = ['a', 'b', 'c.d']

FILE_LAYOUTS = ['tc', 'mp', 'tms', 'reverse_tms', 'quadkey', 'arcgis']
PATH_LAYOUTS = tuple(FILE_LAYOUTS)   # bait tiles are planted in every layout (since /repo 6f7abe5 all six
                                     # layouts put dimensions_part() into the tile path)


# ------------------------------------------------------------------------------------------------
# PEP 3333 call helper (private; vcheck/wsgicall.py is used when it exists)

def call_wsgi(app, path, qs='', headers=None, method='GET'):
    """path: text as a server would pass it after percent-decoding; qs: raw query string (ASCII)."""
    environ = {
        'REQUEST_METHOD': method, 'SCRIPT_NAME': '',
        'PATH_INFO': path.encode('utf-8', 'surrogateescape').decode('latin-1'),
        'QUERY_STRING': qs, 'SERVER_NAME': 'localhost', 'SERVER_PORT': '80', 'HTTP_HOST': 'localhost',
        'SERVER_PROTOCOL': 'HTTP/1.1', 'wsgi.version': (1, 0), 'wsgi.url_scheme': 'http',
        'wsgi.input': io.BytesIO(b''), 'wsgi.errors': io.StringIO(), 'wsgi.multithread': False,
        'wsgi.multiprocess': False, 'wsgi.run_once': False,
    }
    for k, v in (headers or {}).items():
        environ['HTTP_' + k.upper().replace('-', '_')] = v
    out = {}

    def start_response(status, hdrs, exc_info=None):
        out['status'] = status
        out['headers'] = hdrs
        return lambda data: None

    result = app(environ, start_response)
    try:
        body = b''.join(result)
    finally:
        if hasattr(result, 'close'):
            result.close()
    status = int(out.get('status', '0 ').split(' ', 1)[0] or 0)
    return status, dict((k.lower(), v) for k, v in out.get('headers', [])), body, environ['wsgi.errors'].getvalue()


# ------------------------------------------------------------------------------------------------
# synthetic upstream

_IMG_CACHE = {}


def _encoded_image(w, h, fmt, solid):
    key = (w, h, fmt, solid)
    if key not in _IMG_CACHE:
        from PIL import Image
        img = Image.new('RGB', (w, h), UP_SOLID if solid else UP_RGB_A)
        if not solid:
            img.paste(UP_RGB_B, (w // 2, 0, w, h))
        buf = io.BytesIO()
        img.save(buf, 'JPEG' if 'jp' in fmt else 'PNG')
        if len(_IMG_CACHE) > 400:
            _IMG_CACHE.clear()
        _IMG_CACHE[key] = buf.getvalue()
    return _IMG_CACHE[key]


class _UpstreamResponse(io.BytesIO):
    def __init__(self, data, ctype):
        io.BytesIO.__init__(self, data)
        self.headers = {'Content-type': ctype, 'content-type': ctype, 'Content-length': str(len(data))}
        self.code = 200
        self.status = 200

    def info(self):
        return self.headers

    def geturl(self):
        return 'http://upstream.invalid/'


class Upstream(object):
    """Stands in for every HTTP server MapProxy would ask; never touches the file system."""

    def __init__(self):
        self.calls = 0

    def open(self, client, url, data=None, method=None):
        self.calls += 1
        parts = urllib.parse.urlsplit(url)
        q = dict((k.lower(), v) for k, v in urllib.parse.parse_qsl(parts.query, keep_blank_values=True))
        req = q.get('request', '').lower()
        solid = 'solid' in q.get('layers', '') or 'solid' in parts.path
        if req in ('getfeatureinfo', 'feature_info'):
            return _UpstreamResponse(b'feature info from upstream\n', 'text/plain')
        if req == 'getlegendgraphic':
            return _UpstreamResponse(_encoded_image(40, 20, 'png', False), 'image/png')
        if req in ('getmap', 'map'):
            try:
                w, h = int(q.get('width', '256')), int(q.get('height', '256'))
            except ValueError:
                w = h = 256
            w, h = max(1, min(w, 4096)), max(1, min(h, 4096))
            fmt = q.get('format', 'image/png')
            return _UpstreamResponse(_encoded_image(w, h, fmt, solid), 'image/jpeg' if 'jp' in fmt else 'image/png')
        fmt = 'jpeg' if parts.path.endswith(('.jpeg', '.jpg')) else 'png'
        return _UpstreamResponse(_encoded_image(256, 256, fmt, solid), 'image/' + fmt)


# ------------------------------------------------------------------------------------------------
# environment: configuration, bait, applications

def _dims_conf():
    return {
        'time': {'values': list(TIME_VALUES), 'default': TIME_VALUES[0]},
        'elevation': {'values': list(ELEV_VALUES), 'default': ELEV_VALUES[0]},
        'dim_custom': {'values': list(CUSTOM_VALUES), 'default': CUSTOM_VALUES[0]},
    }


def build_config(base_dir, lock_root):
    """-> (yaml dict, layer -> cache name, cache name -> backend label)"""
    caches = collections.OrderedDict()
    backends = {}
    small = {'grids': ['GLOBAL_MERCATOR'], 'meta_size': [1, 1], 'meta_buffer': 0}

    def cache(name, backend, sources=('wms_src',), **kw):
        c = dict(small)
        c['sources'] = list(sources)
        c.update(kw)
        caches[name] = c
        backends[name] = backend

    for lay in FILE_LAYOUTS:
        cache('c_' + lay, 'file-' + lay, cache={'type': 'file', 'directory_layout': lay})
    cache('c_link', 'file-tc', sources=('wms_solid',), link_single_color_images=True)
    cache('c_dir', 'file-tms', cache={'type': 'file', 'directory_layout': 'tms',
                                      'directory': os.path.join(base_dir, 'custom_dir')})
    cache('c_names', 'file-tc', grids=['GLOBAL_MERCATOR', 'GLOBAL_GEODETIC'],
          cache={'type': 'file', 'use_grid_names': True})
    cache('c_meta', 'file-tc', meta_size=[2, 2], meta_buffer=10, format='image/jpeg')
    cache('c_tilesrc', 'file-tc', sources=('tile_src',))
    cache('c_chain', 'file-mp', sources=('c_tc',), cache={'type': 'file', 'directory_layout': 'mp'})
    cache('c_sqlite', 'sqlite', cache={'type': 'sqlite'})
    cache('c_mbtiles', 'mbtiles', cache={'type': 'mbtiles'})
    cache('c_gpkg', 'geopackage', cache={'type': 'geopackage'})
    cache('c_gpkgl', 'geopackage-levels', cache={'type': 'geopackage', 'levels': True})
    cache('c_compact1', 'compact-v1', cache={'type': 'compact', 'version': 1})
    cache('c_compact2', 'compact-v2', cache={'type': 'compact', 'version': 2})
    cache('c_nostore', 'none', disable_storage=True)
    cache('c_secret', 'file-tc', cache={'type': 'file'})

    layers = []
    layer_cache = collections.OrderedDict()

    def layer(name, cache_name, dims=False, **kw):
        d = {'name': name, 'title': name, 'sources': [cache_name]}
        if dims:
            d['dimensions'] = _dims_conf()
        d.update(kw)
        layers.append(d)
        layer_cache[name] = cache_name

    for lay in FILE_LAYOUTS:
        layer(lay, 'c_' + lay)
        layer(lay + '_dim', 'c_' + lay, dims=True)
    layer('link', 'c_link')
    layer('dir', 'c_dir')
    layer('dir_dim', 'c_dir', dims=True)
    layer('names', 'c_names')
    layer('meta', 'c_meta')
    layer('meta_dim', 'c_meta', dims=True)
    layer('tilesrc', 'c_tilesrc')
    layer('chain', 'c_chain')
    layer('chain_dim', 'c_chain', dims=True)
    for n in ('sqlite', 'mbtiles', 'gpkg', 'gpkgl', 'compact1', 'compact2'):
        layer(n, 'c_' + n)
    layer('nostore_dim', 'c_nostore', dims=True)
    layer('secret', 'c_secret')

    conf = {
        'services': {
            'demo': None,
            'kml': None,
            'tms': None,
            'wmts': {'restful': True, 'kvp': True,
                     'restful_template':
                         '/{Layer}/{TileMatrixSet}/{Time}/{Elevation}/{TileMatrix}/{TileCol}/{TileRow}.{Format}'},
            'wms': {'srs': ['EPSG:3857', 'EPSG:4326', 'EPSG:900913'],
                    'image_formats': ['image/png', 'image/jpeg'],
                    'versions': ['1.0.0', '1.1.0', '1.1.1', '1.3.0'],
                    'md': {'title': 'C09 sandbox'}},
        },
        'sources': {
            'wms_src': {'type': 'wms', 'req': {'url': 'http://upstream.invalid/service', 'layers': 'base'},
                        'wms_opts': {'featureinfo': True, 'legendgraphic': True},
                        'forward_req_params': ['time', 'elevation', 'dim_custom']},
            'wms_solid': {'type': 'wms', 'req': {'url': 'http://upstream.invalid/service', 'layers': 'solid'}},
            'tile_src': {'type': 'tile', 'grid': 'GLOBAL_MERCATOR',
                         'url': 'http://upstream.invalid/tiles/%(tms_path)s.png'},
        },
        'caches': dict(caches),
        'layers': layers,
        'globals': {
            'cache': {'base_dir': base_dir, 'lock_dir': os.path.join(lock_root, 'src'),
                      'tile_lock_dir': os.path.join(lock_root, 'tile')},
            'image': {'paletted': False},
            'http': {'client_timeout': 5},
        },
    }
    return conf, layer_cache, backends


SECOND_CONF = {
    'services': {'tms': None, 'wms': {'md': {'title': 'second'}}},
    'sources': {'wms_src': {'type': 'wms', 'req': {'url': 'http://upstream.invalid/service', 'layers': 'base'}}},
    'caches': {'c_second': {'grids': ['GLOBAL_MERCATOR'], 'sources': ['wms_src'], 'meta_size': [1, 1],
                            'meta_buffer': 0}},
    'layers': [{'name': 'second', 'title': 'second', 'sources': ['c_second']}],
}


def _bait_tile_bytes(fmt, rgb=BAIT_RGB, mark=BAIT_MARK):
    from PIL import Image
    img = Image.new('RGB', (256, 256), rgb)
    buf = io.BytesIO()
    if fmt == 'png':
        from PIL import PngImagePlugin
        info = PngImagePlugin.PngInfo()
        info.add_text('Comment', mark.decode())
        img.save(buf, 'PNG', pnginfo=info)
    else:
        img.save(buf, 'JPEG', comment=mark)
    return buf.getvalue()


def _bait_tile_paths(z_max=1):
    """relative tile paths of all tiles of levels 0..z_max in every file-cache layout"""
    from mapproxy.cache import path as mpath
    from mapproxy.cache.tile import Tile
    out = set()
    for ext in ('png', 'jpeg'):
        for z in range(z_max + 1):
            for x in range(2 ** z):
                for y in range(2 ** z):
                    for lay in PATH_LAYOUTS:
                        fn = mpath.location_funcs(lay)[0]
                        out.add((os.path.relpath(fn(Tile((x, y, z)), '/B', ext), '/B'), ext))
    return sorted(out)


class Env(object):
    """One temporary deployment: <root>/conf (config dir), <root>/srv/cache_data (cache base),
    <root>/srv/locks, bait directories called `bait` at <root>/srv/cache_data/bait, <root>/srv/bait,
    <root>/bait and /<root>/srv/cache_data/<sqlite-style parent>/bait, text bait <root>/bait/secret.txt and
    a foreign configuration <root>/outside.yaml next to the config dir."""

    def __init__(self):
        import yaml
        self.top = os.path.realpath(tempfile.mkdtemp(prefix='vc09-'))
        self.root = os.path.join(self.top, NEST)
        self._patches = []
        self.closed = False
        self.dirty = False
        self.poisoned = False
        self.served = 0
        try:
            os.makedirs(self.root)
            self.conf_dir = os.path.join(self.root, 'conf')
            self.base_dir = os.path.join(self.root, 'srv', 'cache_data')
            self.lock_root = os.path.join(self.root, 'srv', 'locks')
            for d in (self.conf_dir, self.base_dir, self.lock_root):
                os.makedirs(d)
            conf, self.layer_cache, self.backends = build_config(self.base_dir, self.lock_root)
            self.conf_file = os.path.join(self.conf_dir, 'app.yaml')
            with open(self.conf_file, 'w') as f:
                yaml.safe_dump(conf, f)
            second = json.loads(json.dumps(SECOND_CONF))
            second['globals'] = {'cache': {'base_dir': self.base_dir,
                                           'lock_dir': os.path.join(self.lock_root, 'src'),
                                           'tile_lock_dir': os.path.join(self.lock_root, 'tile')}}
            with open(os.path.join(self.conf_dir, 'second.yaml'), 'w') as f:
                yaml.safe_dump(second, f)
            outside = json.loads(json.dumps(second))
            outside['services']['wms']['md']['title'] = BAIT_MARK.decode()
            with open(os.path.join(self.root, 'outside.yaml'), 'w') as f:
                yaml.safe_dump(outside, f)
            self._plant_bait()
            self._introspect()
            self._patch()
            from mapproxy.wsgiapp import make_wsgi_app
            from mapproxy.multiapp import make_wsgi_app as make_multi
            self.app = make_wsgi_app(self.conf_file)
            self.multi = make_multi(self.conf_dir, allow_listing=True)
            for name in APP_NAMES:      # project apps are created on first use: do that before observing
                call_wsgi(self.multi, '/%s/' % name)
            roots, self.static_files = sandbox.default_read_roots(extra=[self.conf_dir])
            # a sys.path entry such as /tmp must not make the whole deployment readable
            self.static_roots = [r for r in roots if not sandbox.is_under(self.top, [r])]
            self.static_files = [os.path.realpath(f) for f in self.static_files]
            self._roots_memo = {}
        except BaseException:
            self.close()
            raise

    # -- bait ---------------------------------------------------------------------------------
    def bait_dirs(self):
        return [os.path.join(self.base_dir, 'bait'), os.path.join(self.root, 'srv', 'bait'),
                os.path.join(self.root, 'bait'), os.path.join(self.base_dir, 'c_sqlite', 'bait')]

    def repair(self):
        """Undo what an escaping request left behind: everything that is not part of the deployment
        skeleton is removed and the bait is planted again (cache contents are kept)."""
        keep = {os.path.join(self.root, 'srv'): {'cache_data', 'locks', 'bait'},
                self.root: {'conf', 'srv', 'bait', 'outside.yaml'}, self.conf_dir: {'app.yaml', 'second.yaml'}}
        d = self.top
        for n in NEST.split('/'):
            keep[d] = {n}
            d = os.path.join(d, n)
        known = set(['bait', 'legends'])
        for paths in self.cache_paths.values():
            for p in paths:
                known.add(os.path.relpath(p, self.base_dir).split('/')[0])
        keep[self.base_dir] = known
        for d, names in keep.items():
            for n in os.listdir(d):
                if n not in names:
                    p = os.path.join(d, n)
                    if os.path.isdir(p) and not os.path.islink(p):
                        shutil.rmtree(p, ignore_errors=True)
                    else:
                        os.remove(p)
        for d in self.bait_dirs():
            shutil.rmtree(d, ignore_errors=True)
        self._plant_bait(secret=False)
        self.dirty = False

    def _plant_bait(self, secret=True):
        if not hasattr(self, '_bait_data'):
            self._bait_data = ({'png': _bait_tile_bytes('png'), 'jpeg': _bait_tile_bytes('jpeg')}, _bait_tile_paths())
        data, rel = self._bait_data
        for d in self.bait_dirs():
            for r, ext in rel:
                p = os.path.join(d, r)
                os.makedirs(os.path.dirname(p), exist_ok=True)
                with open(p, 'wb') as f:
                    f.write(data[ext])
        with open(os.path.join(self.root, 'bait', 'secret.txt'), 'wb') as f:
            f.write(b'secret ' + BAIT_MARK + b'\n')
        if not secret:
            return
        # tiles of the cache that only layer `secret` uses (cross-cache reads), tc layout, levels 0-1
        from mapproxy.cache import path as mpath
        from mapproxy.cache.tile import Tile
        secret = os.path.join(self.base_dir, 'c_secret_EPSG900913')
        sdata = _bait_tile_bytes('png', SECRET_RGB, SECRET_MARK)
        for z in (0, 1):
            for x in range(2 ** z):
                for y in range(2 ** z):
                    p = mpath.tile_location_tc(Tile((x, y, z)), secret, 'png')
                    os.makedirs(os.path.dirname(p), exist_ok=True)
                    with open(p, 'wb') as f:
                        f.write(sdata)

    # -- where may each cache live ------------------------------------------------------------
    def _introspect(self):
        """Directories / files of every configured cache, taken from the loaded configuration objects
        (not recomputed from naming rules), plus the transitive layer -> caches relation."""
        from mapproxy.config.loader import load_configuration
        conf = load_configuration(self.conf_file)
        conf2 = load_configuration(os.path.join(self.conf_dir, 'second.yaml'))
        self.cache_paths = {}
        self.layer_cache['second'] = 'c_second'
        self.backends['c_second'] = 'file-tc'
        for name, cc in list(conf.caches.items()) + list(conf2.caches.items()):
            paths = set()
            for _grid, _extent, mgr in cc.caches():
                c = mgr.cache
                for attr in ('cache_dir', 'mbtile_file', 'geopackage_file'):
                    v = getattr(c, attr, None)
                    if isinstance(v, str):
                        paths.add(v)
                # sqlite side files beside a single-file database
                for attr in ('mbtile_file', 'geopackage_file'):
                    v = getattr(c, attr, None)
                    if isinstance(v, str):
                        for suffix in ('-journal', '-wal', '-shm'):
                            paths.add(v + suffix)
                if hasattr(c, 'cleanup'):
                    c.cleanup()
            self.cache_paths[name] = sorted(paths)
        for name in self.backends:
            if self.backends[name] != 'none' and not self.cache_paths.get(name):
                raise core.HarnessError('no directory found for cache %s' % name)
        self.cache_sources = dict((n, [s for s in c['sources'] if s in conf.caches])
                                  for n, c in conf.configuration['caches'].items())
        if self.cache_paths['c_secret'] != [os.path.join(self.base_dir, 'c_secret_EPSG900913')]:
            raise core.HarnessError('secret cache is not where its bait tiles were planted')
        self.common_dirs = [os.path.join(self.base_dir, 'legends'), self.lock_root]

    def caches_of_layer(self, layer):
        out, todo = [], [self.layer_cache[layer]]
        while todo:
            c = todo.pop()
            if c not in out:
                out.append(c)
                todo.extend(self.cache_sources.get(c, []))
        return out

    def roots_for(self, layers):
        """allowed cache directories of a request naming `layers` (None: every configured cache)"""
        key = None if layers is None else tuple(sorted(set(layers)))
        if key in self._roots_memo:
            return self._roots_memo[key]
        if layers is None or any(l not in self.layer_cache for l in layers):
            names = list(self.cache_paths)
        else:
            names = []
            for l in layers:
                names.extend(self.caches_of_layer(l))
        roots = list(self.common_dirs)
        for n in names:
            roots.extend(self.cache_paths[n])
        roots = sorted(set(os.path.realpath(r) for r in roots))
        self._roots_memo[key] = roots
        return roots

    def cache_of_path(self, raw_path):
        """name of the cache whose directory is a textual prefix of `raw_path` (as MapProxy built it)"""
        best = None
        for name, paths in self.cache_paths.items():
            for p in paths:
                if raw_path == p or raw_path.startswith(p.rstrip('/') + '/'):
                    if best is None or len(p) > best[1]:
                        best = (name, len(p))
        return best[0] if best else None

    # -- patches (restored in close) ----------------------------------------------------------
    def _patch(self):
        import logging
        self._log_handler = logging.NullHandler()
        lg = logging.getLogger('mapproxy')
        self._log_state = (lg.propagate, lg.level)
        lg.addHandler(self._log_handler)
        lg.propagate = False
        lg.setLevel(logging.CRITICAL + 1)
        from mapproxy.client import http as mhttp
        from mapproxy.cache import tile as mtile
        from mapproxy.cache import legend as mlegend
        from mapproxy.service import demo as mdemo
        self.upstream = Upstream()
        self.backend_calls = 0
        env = self

        def fake_open(client, url, data=None, method=None):
            return env.upstream.open(client, url, data, method)

        orig_load = mtile.TileManager._load_tile_coords

        def counted_load(mgr, *a, **kw):
            env.backend_calls += 1
            return orig_load(mgr, *a, **kw)

        orig_legend = mlegend.LegendCache.load

        def counted_legend(cache, legend):
            env.backend_calls += 1
            return orig_legend(cache, legend)

        def fake_read_capabilities(url):
            return '&lt;capabilities/&gt;'

        self._set(mhttp.HTTPClient, 'open', fake_open)
        self._set(mtile.TileManager, '_load_tile_coords', counted_load)
        self._set(mlegend.LegendCache, 'load', counted_legend)
        self._set(mdemo.DemoServer, 'read_capabilities', staticmethod(fake_read_capabilities))

    def _set(self, obj, name, value):
        self._patches.append((obj, name, obj.__dict__[name]))
        setattr(obj, name, value)

    def close(self):
        if self.closed:
            return
        self.closed = True
        for obj, name, old in reversed(self._patches):
            setattr(obj, name, old)
        self._patches = []
        if getattr(self, '_log_handler', None) is not None:
            import logging
            lg = logging.getLogger('mapproxy')
            lg.removeHandler(self._log_handler)
            lg.propagate, level = self._log_state
            lg.setLevel(level)
            self._log_handler = None
        shutil.rmtree(self.top, ignore_errors=True)

    # -- run one request ----------------------------------------------------------------------
    def subst(self, s):
        return s.replace('{ROOT}', self.root).replace('{ROOTREL}', self.root.lstrip('/'))

    def serve(self, case):
        """-> dict(status, headers, body, events, verdicts, backend_calls, upstream_calls, stderr)"""
        app = self.multi if case.get('app') == 'multi' else self.app
        path = self.subst(case['path'])
        qs = self.subst(case.get('qs', ''))
        layers = case.get('layers')
        roots = self.roots_for(layers)
        obs = sandbox.Observer(write_roots=roots, read_roots=self.static_roots, read_files=self.static_files,
                               confine=self.top, resolved=True)
        b0, u0 = self.backend_calls, self.upstream.calls
        import threading
        before = set(threading.enumerate())
        with obs:
            status, headers, body, stderr = call_wsgi(app, path, qs, case.get('headers'))
            # MapProxy's thread pools may still be finishing tasks when a request ends with an exception
            # (ThreadPool.shutdown(force=True) lets the workers complete their current task): stay armed
            # until they are done so that their file accesses are attributed to this request, not the next
            stragglers = [t for t in threading.enumerate() if t not in before and t is not threading.current_thread()]
            for t in stragglers:
                t.join(30)
        self.stuck_threads = sum(1 for t in stragglers if t.is_alive())
        if obs.hook_errors:
            raise core.HarnessError('sandbox hook failed:\n' + obs.hook_errors[0])
        return {'status': status, 'headers': headers, 'body': body, 'obs': obs, 'stderr': stderr,
                'stragglers': len(stragglers), 'stuck_threads': self.stuck_threads,
                'backend_calls': self.backend_calls - b0, 'upstream_calls': self.upstream.calls - u0,
                'path': path, 'qs': qs}


# ------------------------------------------------------------------------------------------------
# reading a request the way the oracle needs it (independent of the generator: also used for raw bytes)

_DIM_KEY = re.compile(r'(?i)^(time|elevation)$|^dim_')
_SERVICE_PREFIXES = ('service', 'ows', 'wms', 'wmts', 'tms', 'tiles', 'kml', 'demo')


def parse_request(path, qs, multi=False):
    """-> dict(service, params [(k, v)], dims [(k, v)], query_layers [names] or None, segments [...])"""
    try:
        params = urllib.parse.parse_qsl(qs, keep_blank_values=True)
    except ValueError:
        params = []
    low = dict((k.lower(), v) for k, v in reversed(params))
    segs = [s for s in path.split('/')]
    handler_segs = [s for s in segs if s]
    if multi and handler_segs:
        handler_segs = handler_segs[1:]
    head = handler_segs[0] if handler_segs else ''
    m = re.match(r'^(\w+)', head)
    handler = m.group(1) if m else ''
    req = low.get('request', '').lower()
    svc = low.get('service', '').lower()
    if handler in ('service', 'ows', 'wms'):
        if svc == 'wmts' or (req == 'gettile'):
            service = 'wmts.kvp'
        elif req in ('getmap', 'map'):
            service = 'wms.getmap'
        elif req in ('getfeatureinfo', 'feature_info'):
            service = 'wms.getfeatureinfo'
        elif req == 'getlegendgraphic':
            service = 'wms.getlegendgraphic'
        elif req in ('getcapabilities', 'capabilities'):
            service = 'wms.getcapabilities'
        else:
            service = 'wms.other'
    elif handler == 'wmts':
        service = 'wmts.rest'
    elif handler in ('tms', 'tiles', 'kml', 'demo'):
        service = handler
    else:
        service = 'other'
    if multi:
        service = 'multi:' + service
    qlayers = None
    names = []
    for k, v in params:
        if k.lower() in ('layers', 'layer', 'query_layers'):
            names.extend(v.split(','))
    if names:
        qlayers = names
    dims = [(k, v) for k, v in params if _DIM_KEY.search(k)]
    return {'service': service, 'params': params, 'dims': dims, 'query_layers': qlayers,
            'segments': [s for s in segs if s]}


def request_layers(env, pr):
    """Known layers a request can address, or None when that cannot be told (then every cache is allowed).
    Query: every LAYERS/LAYER/QUERY_LAYERS name must be a configured layer.  Path: every configured layer
    whose name starts with a path segment or is the start of one (TMS/KML look up `<layer>_<layer_spec>`,
    `<layer>_EPSG900913`, and accept that internal name as the layer segment itself)."""
    found = []
    if pr['query_layers'] is not None:
        for n in pr['query_layers']:
            if n not in env.layer_cache:
                return None
            found.append(n)
    for s in pr['segments']:
        for l in env.layer_cache:
            if (l.startswith(s) or s.startswith(l)) and l not in found:
                found.append(l)
    return found or None


def _escaping(component):
    """does <dir>/<component> normalise to a path outside <dir>?"""
    n = os.path.normpath('/R/' + component)
    return not (n == '/R' or n.startswith('/R/'))


def finding_exclusions(env, pr, open_sigs):
    """Signatures of open findings whose construct this request contains: a WMS GetMap whose
    TIME/ELEVATION/DIM_* key or value makes the directory component `<key>-<value>` leave the cache
    directory, addressed at a layer backed by a file cache of a dimension-aware layout."""
    if not pr['service'].endswith('wms.getmap') or not pr['dims']:
        return []
    comps = [k.lower() + '-' + v for k, v in pr['dims']]
    # dimensions_part joins all components: one absolute-looking or escaping component suffices
    if not any(_escaping(c) for c in comps) and not _escaping('/'.join(comps)):
        return []
    layers = pr['query_layers'] or []
    out = []
    for l in layers:
        if l in env.layer_cache:
            for c in env.caches_of_layer(l):
                sig = dimension_signature(pr['service'], env.backends[c])
                if sig in open_sigs and sig not in out:
                    out.append(sig)
    return out


def dimension_signature(service, backend):
    return 'C09/%s/dimension/%s' % (service.replace('multi:', ''), backend)


# ------------------------------------------------------------------------------------------------
# oracle

def _zone(env, raw):
    c = env.cache_of_path(raw)
    if c:
        return env.backends[c]
    for label, d in (('config', env.conf_dir), ('lock', env.lock_root), ('legend', os.path.join(env.base_dir, 'legends')),
                     ('package', os.path.join(REPO, 'mapproxy')), ('cache-base', env.base_dir)):
        if raw == d or raw.startswith(d.rstrip('/') + '/'):
            return label
    return 'elsewhere'


def _vector(pr, raw):
    """which request component shows up in the offending path as MapProxy built it"""
    cands = []
    for k, v in pr['params']:
        kind = 'dimension' if _DIM_KEY.search(k) else (
            'layer' if k.lower() in ('layers', 'layer', 'query_layers') else 'param')
        for text in (k, v):
            cands.append((kind, text))
    for s in pr['segments']:
        cands.append(('path', s))
    cands.append(('path', '/'.join(pr['segments'])))
    import unicodedata
    for kind, text in list(cands):
        for form in ('NFKC', 'NFKD'):
            n = unicodedata.normalize(form, text)
            if n != text:
                cands.append((kind, n))
    best = None
    low = raw.lower()
    for kind, text in cands:
        # the longest prefix of the component that occurs in the path (intermediate directories carry only
        # a prefix; MapProxy lower-cases dimension keys); it must carry path syntax to have steered the path
        t = text.lower()
        lo, hi = 0, len(t)
        while lo < hi:
            mid = (lo + hi + 1) // 2
            if t[:mid] in low:
                lo = mid
            else:
                hi = mid - 1
        pre = t[:lo]
        if lo >= 2 and ('/' in pre or '..' in pre or '\\' in pre or '\x00' in pre):
            if best is None or lo > best[1]:
                best = (kind, lo)
    return best[0] if best else 'unattributed'


def _image_has_colour(body, rgb):
    from PIL import Image
    try:
        img = Image.open(io.BytesIO(body))
        img.load()
        img = img.convert('RGB')
    except Exception:
        return False
    w, h = img.size
    if w * h > 1024 * 1024:
        img = img.resize((512, 512))
    # share of pixels within +-24 of the bait colour (survives JPEG / palette / resampling of a solid tile)
    r, g, b = img.split()
    def near(ch, v):
        return ch.point(lambda p: 255 if abs(p - v) <= 24 else 0)
    from PIL import ImageChops
    mask = ImageChops.multiply(ImageChops.multiply(near(r, rgb[0]), near(g, rgb[1])), near(b, rgb[2]))
    hist = mask.histogram()
    return hist[255] >= 16


def judge(env, case, res, st_):
    """-> Violation or None for one served request"""
    multi = case.get('app') == 'multi'
    pr = parse_request(res['path'], res['qs'], multi)
    obs = res['obs']
    verdicts = obs.verdicts()
    if verdicts:
        rule, ev = verdicts[0]
        sig = 'C09/%s/%s/%s' % (pr['service'].replace('multi:', ''), _vector(pr, ev.path), _zone(env, ev.path))
        msg = '%s: %s(%r) resolves to %r, outside the directories of %s (%d such events; status %d)' % (
            rule, ev.op, ev.path, ev.real, 'layers %s' % ','.join(res['layers']) if res['layers'] else 'all caches',
            len(verdicts), res['status'])
        return core.Violation(sig, msg, case)
    body = res['body']
    ctype = res['headers'].get('content-type', '')
    secret_allowed = res['layers'] is None or any('c_secret' in env.caches_of_layer(l) for l in res['layers'])
    leaks = []
    if BAIT_MARK in body or (ctype.startswith('image/') and _image_has_colour(body, BAIT_RGB)):
        leaks.append('bait')
    if not secret_allowed and (SECRET_MARK in body or (ctype.startswith('image/') and _image_has_colour(body, SECRET_RGB))):
        leaks.append('foreign-cache')
    if leaks:
        sig = 'C09/%s/%s-content-in-response' % (pr['service'].replace('multi:', ''), leaks[0])
        return core.Violation(sig, 'the response (%s, %d bytes, status %d) contains %s content although no file '
                              'access outside the allowed directories was observed' % (ctype, len(body), res['status'], leaks[0]),
                              case)
    return None


def run_case(env, case, st_, open_sigs=()):
    """Serve one case and judge it.  -> Violation or None (excluded cases are counted, not served)."""
    multi = case.get('app') == 'multi'
    pr = parse_request(env.subst(case['path']), env.subst(case.get('qs', '')), multi)
    ex = finding_exclusions(env, pr, open_sigs)
    if ex:
        for sig in ex:
            st_.excluded['open-finding ' + sig] += 1
        return None
    # behind MultiMapProxy a request may (re)create the whole project app: no narrowing there
    layers = None if multi else request_layers(env, pr)
    c = dict(case)
    c['layers'] = layers
    res = env.serve(c)
    res['layers'] = layers
    if res['stuck_threads']:
        # a worker thread of this request is still alive after 30 s: later events could not be attributed;
        # not judged, and the deployment is replaced before the next case
        st_.inconclusive['worker-thread-alive-30s-after-response'] += 1
        env.poisoned = True
        return None
    if res['stragglers']:
        st_.notes['requests-with-worker-threads-outliving-the-response'] += 1
    v = judge(env, case, res, st_)
    obs = res['obs']
    classes = ['svc:' + pr['service'], 'status:%dxx' % (res['status'] // 100)]
    for a in case.get('attack') or ['none']:
        classes.append('attack:' + a)
    if case.get('family'):
        for f in case['family']:
            classes.append('family:' + f)
    reached = res['backend_calls'] > 0
    if reached:
        classes.append('reached-backend')
        classes.append('reached:' + pr['service'])
        if layers:
            for l in layers[:1]:
                classes.append('backend:' + env.backends[env.layer_cache[l]])
        if case.get('attack'):
            classes.append('reached-backend-with-attack-value')
        if pr['dims']:
            classes.append('reached-backend-with-dimension')
            if any('/' in v or '/' in k for k, v in pr['dims']):
                classes.append('reached-backend-with-slash-in-dimension')
    if res['upstream_calls']:
        classes.append('upstream-fetched')
    if any(k.startswith('write:') for k in obs.counts):
        classes.append('wrote-inside')
    if obs.counts.get('read:open'):
        classes.append('read-files')
    if obs.counts.get('write:sqlite3.connect'):
        classes.append('sqlite-connect')
    if obs.counts.get('write:os.symlink'):
        classes.append('symlinked')
    if layers is None:
        classes.append('roots:all-caches')
    else:
        classes.append('roots:narrowed')
    po = obs.probes_outside()
    if po:
        classes.append('probe-outside')
        st_.notes['probe-outside-events'] += len(po)
    if v is not None:
        classes.append('violation')
        env.dirty = True
    st_.case(key=(case.get('app', 'single'), case['path'], case.get('qs', '')), nontrivial=reached, classes=classes,
             sample=dict((k, case[k]) for k in ('app', 'path', 'qs', 'kind', 'attack') if k in case))
    return v


# ------------------------------------------------------------------------------------------------
# generator

def _trav(target):
    """dimension / segment values that try to reach <target> from a cache directory"""
    out = []
    for up in (2, 3, 4, 5, 8):
        dots = '../' * up
        out.append('a/' + dots + target)            # <key>-a/../../..  (creates <key>-a first)
        out.append('/' + dots + target)             # <key>-/../../..
        out.append(TIME_VALUES[0] + '/' + dots + target)   # valid prefix
    out.append('a/' + '../' * 14 + '{ROOTREL}/' + target)   # up to / and down again
    out.append('{ROOT}/' + target)
    return out


# Unicode look-alike / compatibility forms of path syntax: any later normalisation (NFKC / NFKD, case folding,
# "best fit" transcoding) of a name that was made safe earlier turns them into real separators and dot segments
FW_SLASH, FW_BACKSLASH, FW_DOT, FW_PERCENT = '\uff0f', '\uff3c', '\uff0e', '\uff05'
ONE_DOT, TWO_DOT, ELLIPSIS, DIV_SLASH, FRAC_SLASH = '\u2024', '\u2025', '\u2026', '\u2215', '\u2044'
_LA_SLASHES = [FW_SLASH, FW_SLASH, DIV_SLASH, FRAC_SLASH, FW_BACKSLASH]
_LA_DOTDOTS = [TWO_DOT, TWO_DOT, FW_DOT * 2, ONE_DOT * 2, '.' + ONE_DOT, '..', ELLIPSIS]


def _lookalike(target, ups=(2, 3, 4, 8)):
    out = []
    for up in ups:
        for sl, dd, forms in ((FW_SLASH, TWO_DOT, 'xlp'), (FW_SLASH, FW_DOT * 2, 'xp'), (FW_SLASH, '..', 'x'),
                              (DIV_SLASH, TWO_DOT, 'x'), (FRAC_SLASH, ONE_DOT * 2, 'x'), (FW_BACKSLASH, TWO_DOT, 'x')):
            trav = (sl + dd) * up + sl + target
            if 'x' in forms:
                out.append('x' + trav)                     # x／‥／‥／bait
            if 'l' in forms:
                out.append(trav)                           # ／‥／‥／bait
            if 'p' in forms:
                out.append(TIME_VALUES[0] + trav)          # valid prefix
    return out


LOOKALIKE_VALUES = sorted(set(
    _lookalike('bait') + _lookalike('x', ups=(3,)) + [
        TWO_DOT, FW_DOT * 2, ONE_DOT * 2, ELLIPSIS, FW_SLASH, FW_BACKSLASH, DIV_SLASH, FRAC_SLASH,
        TWO_DOT + FW_SLASH, FW_SLASH + TWO_DOT, 'a' + FW_SLASH + 'b', 'a' + FW_SLASH + TWO_DOT + FW_SLASH + 'b',
        FW_PERCENT + '2e' + FW_PERCENT + '2e' + FW_PERCENT + '2fbait', '..' + FW_PERCENT + '2f..' + FW_PERCENT + '2fbait',
        'x' + FW_SLASH + '..' + FW_SLASH + '..' + FW_SLASH + '..' + FW_SLASH + '{ROOTREL}',
        'x' + (FW_SLASH + TWO_DOT) * 14 + FW_SLASH + '{ROOTREL}' + FW_SLASH + 'bait',
        ELLIPSIS + FW_SLASH + ELLIPSIS + FW_SLASH + 'bait', 'X' + FW_SLASH + TWO_DOT + FW_SLASH + TWO_DOT,
        '\u2100', '\u2101', '\u2105',      # a/c, a/s, c/o: NFKC yields an ASCII '/'
        '\ufe52\ufe52\ufe68bait', '\u3002\u3002' + FW_SLASH + 'bait', '\u017f', '\u212a' + FW_SLASH + TWO_DOT,
    ]))

ATTACK_VALUES = sorted(set(LOOKALIKE_VALUES +
    _trav('bait') + _trav('x') + _trav('cache_data/c_secret_EPSG900913') + [
        '..', '../', '../..', '/..', '/', '//', '.', './', 'a//b', 'a/b', 'a/./b', 'a/../b', '/abs/path', '/etc',
        '/etc/passwd', '{ROOT}/bait/secret.txt', '../../bait', '../../../bait', '../c_secret_EPSG900913',
        '..\\', '..\\..\\bait', 'a\\..\\..\\..\\bait', 'C:\\bait', '\\\\host\\share',
        '\x00', 'a\x00', 'a\x00/../../bait', TIME_VALUES[0] + '\x00/../../../bait', '../../bait\x00.png',
        'A' * 5000, 'a/' * 300 + 'b', '../' * 6 + 'bait/' + 'a' * 300,
        '\u00fc/../../bait', '\u2215..\u2215..\u2215bait', '\uff0e\uff0e/\uff0e\uff0e/bait', '\u202e../..', '\ud7ff',
        '%2e%2e%2f%2e%2e%2fbait', '..%2f..%2f..%2fbait', '%252e%252e%252f%252e%252e%252fbait', '..%c0%af..%c0%afbait',
        '%00', '..%5c..%5cbait', 'a%2f..%2f..%2f..%2fbait',
        '~', '~/x', '$HOME', '${HOME}', 'file:///etc/passwd', 'default', '', ' ', 'a b', 'a,b', 'a;b', "a'b", 'a"b', 'a&b',
        'tile_locks', '../tile_locks/x', 'single_color_tiles/../../bait', '00/000/000/000/000/000/000.png',
        TIME_VALUES[0] + '/..', TIME_VALUES[0] + '/../' + TIME_VALUES[1], ELEV_VALUES[0] + '/../../../bait',
    ]))

ATTACK_INTS = ['-1', '-2', '-0', '+1', '4', '255', '256', '999', '1000', '1000000', '2147483647', '2147483648',
               '4294967296', '9223372036854775807', '9223372036854775808', '-9223372036854775809',
               '1' + '0' * 30, '-1' + '0' * 30, '00', '01', '007', '1e3', '0x10', '1.0', '٣', '１', '', ' 1', '1 ',
               '../1', '0/../../bait', '1\x00']

LAYER_NAMES = []   # filled from the configuration on first use
GRID_NAMES = ['GLOBAL_MERCATOR', 'EPSG900913', 'EPSG3857', 'GLOBAL_GEODETIC', 'EPSG4326', 'GLOBAL_WEBMERCATOR', 'dim']
LAYER_ATTACKS = ['secret/../tc', '../tc', 'tc/..', 'tc/../secret', 'tc\x00', 'tc%2f..%2fsecret', 'c_secret_EPSG900913',
                 'TC', 'tc ', 'tc,', ',tc', 'tc,,secret', 'nosuchlayer', '', '.', '..', 'tc_dim_EPSG900913', 'tc_EPSG900913',
                 '\u00fc', 'A' * 3000, 'tc/0/0/0', 'bait', '{ROOT}/bait', 'app', 'second',
                 'tc' + FW_SLASH + TWO_DOT + FW_SLASH + 'secret', TWO_DOT + FW_SLASH + 'tc', 'secret' + FW_SLASH + TWO_DOT + FW_SLASH + 'tc',
                 '\uff54\uff43', 't\uff43', 'tc' + FW_DOT, 'tc' + DIV_SLASH + TWO_DOT, 'tc' + FW_BACKSLASH + TWO_DOT + FW_BACKSLASH + 'secret',
                 '\uff53\uff45\uff43\uff52\uff45\uff54', 'tc\uff3f\uff44\uff49\uff4d', 'c_secret' + '\uff3f' + 'EPSG900913']
APP_NAMES = ['app', 'second']
APP_ATTACKS = ['..', '.', '../outside', '..%2foutside', '%2e%2e%2foutside', 'outside', 'app.yaml', 'app%00', 'app\x00',
               'APP', 'app ', '\u00fc', '..\\outside', 'conf', 'A' * 300, '{ROOT}/outside', 'second.yaml', '', 'app/..',
               '....', 'app.', '.app',
               TWO_DOT + FW_SLASH + 'outside', TWO_DOT, FW_DOT * 2, 'app' + FW_SLASH + TWO_DOT + FW_SLASH + 'outside',
               TWO_DOT + DIV_SLASH + 'outside', TWO_DOT + FW_BACKSLASH + 'outside', '\uff41\uff50\uff50', 'a\uff50p',
               'app' + FW_DOT + 'yaml', FW_DOT * 2 + FW_PERCENT + '2foutside', ONE_DOT * 2 + FW_SLASH + 'outside']

# /demo/static/<name> is joined to the template directory of the mapproxy package: enough ../ to reach / and
# down again into the deployment (text bait, a bait tile, the foreign configuration), plus generic forms
_UP = '../' * 16
STATIC_ATTACKS = [_UP + '{ROOTREL}/bait/secret.txt', 'site.css/' + _UP + '{ROOTREL}/bait/secret.txt',
                  'img/../' + _UP + '{ROOTREL}/bait/secret.txt', _UP + '{ROOTREL}/outside.yaml',
                  _UP + '{ROOTREL}/bait/0/0/0.png', _UP + '{ROOTREL}/conf/app.yaml',
                  '../' * 40 + '{ROOTREL}/bait/secret.txt', './' + _UP + '{ROOTREL}/bait/secret.txt',
                  '../demo.html', '../../wms130capabilities.xml', '../../../version.py', '../../../../setup.py',
                  '..%2f..%2f..%2fversion.py', '.../x', '....//....//version.py', 'site.css/../../../../version.py',
                  '..\\..\\..\\version.py', '{ROOT}/bait/secret.txt', '/{ROOTREL}/bait/secret.txt', '/etc/passwd',
                  'site.css\x00', '\x00', '', '.', '..', 'A' * 3000, '%2e%2e/%2e%2e/%2e%2e/version.py',
                  '\uff0e\uff0e/\uff0e\uff0e/version.py',
                  (TWO_DOT + FW_SLASH) * 16 + '{ROOTREL}' + FW_SLASH + 'bait' + FW_SLASH + 'secret.txt',
                  (TWO_DOT + '/') * 16 + '{ROOTREL}/bait/secret.txt', ('..' + FW_SLASH) * 16 + '{ROOTREL}' + FW_SLASH + 'bait/secret.txt',
                  (FW_DOT * 2 + '/') * 16 + '{ROOTREL}/bait/secret.txt', (ONE_DOT * 2 + DIV_SLASH) * 16 + '{ROOTREL}/bait/secret.txt',
                  'site.css' + FW_SLASH + (TWO_DOT + FW_SLASH) * 16 + '{ROOTREL}/outside.yaml', TWO_DOT + FW_BACKSLASH + 'version.py',
                  FW_PERCENT + '2e' + FW_PERCENT + '2e/version.py']

MERC = 20037508.342789244


def _all_layers():
    if not LAYER_NAMES:
        _conf, layer_cache, _b = build_config('/B', '/L')
        LAYER_NAMES.extend(layer_cache)
    return LAYER_NAMES


_PLACEHOLDER = re.compile(r'(\{ROOT\}|\{ROOTREL\})')


def _q(pairs, mode):
    """query string from (key, value) pairs; the {ROOT} / {ROOTREL} placeholders stay literal (they are
    replaced by the deployment directory, whose characters need no quoting, when the case is served)"""
    if mode == 'full':
        def enc(text):
            return ''.join('%%%02X' % b for b in text.encode('utf-8', 'surrogatepass'))
    elif mode == 'rawutf8':
        # the UTF-8 bytes unescaped, as a server hands them over in QUERY_STRING (latin-1 decoded); only what
        # would break the query syntax is percent-encoded
        def enc(text):
            raw = text.encode('utf-8', 'surrogatepass').decode('latin-1')
            return ''.join('%%%02X' % ord(c) if (c in '&=%+#;' or ord(c) <= 0x20 or ord(c) == 0x7f) else c for c in raw)
    else:
        safe = '/:,' if mode == 'std' else ''

        def enc(text):
            return urllib.parse.quote(text, safe=safe, errors='surrogatepass')

    def enc_ph(text):
        return ''.join(part if _PLACEHOLDER.fullmatch(part) else enc(part) for part in _PLACEHOLDER.split(text))
    return '&'.join('%s=%s' % (enc_ph(k) if mode in ('full', 'rawutf8') else
                               urllib.parse.quote(k, safe='{}', errors='surrogatepass'), enc_ph(v)) for k, v in pairs)


def _strategies():
    from hypothesis import strategies as st
    layers = _all_layers()
    file_dim_layers = [l for l in layers if l.endswith('_dim')]

    @st.composite
    def slot(draw, name, valid, attacks, pct, used):
        if draw(st.integers(0, 99)) < pct:
            used.append(name)
            return draw(st.sampled_from(attacks))
        return draw(st.sampled_from(valid))

    @st.composite
    def dims(draw, used, layer_has_dims, pct):
        """0..3 dimension parameters"""
        n = draw(st.sampled_from([0, 1, 1, 1, 2, 3]))
        out = []
        for _ in range(n):
            which = draw(st.sampled_from(['time', 'time', 'elevation', 'dim_custom', 'other']))
            valid = {'time': TIME_VALUES, 'elevation': ELEV_VALUES, 'dim_custom': CUSTOM_VALUES,
                     'other': ['1', 'x']}[which]
            if which == 'other':
                if draw(st.booleans()):
                    used.append('dimension-key')
                    key = 'DIM_' + draw(st.sampled_from(ATTACK_VALUES))
                else:
                    key = draw(st.sampled_from(['DIM_LEVEL', 'dim_reference_time', 'DIM_', 'dim_x']))
            else:
                key = draw(st.sampled_from([which, which.upper(), which.capitalize()]))
            val = draw(slot('dimension-value', valid + ['default'], ATTACK_VALUES, pct, used))
            out.append((key, val))
        return out

    @st.composite
    def tile(draw, used, pct):
        z = draw(st.sampled_from([0, 0, 1, 1, 2, 3]))
        n = 2 ** z
        x = draw(st.integers(0, n - 1))
        y = draw(st.integers(0, n - 1))
        vals = [str(z), str(x), str(y)]
        for i, nm in enumerate(('z', 'x', 'y')):
            if draw(st.integers(0, 99)) < pct:
                used.append('tile-index')
                vals[i] = draw(st.sampled_from(ATTACK_INTS))
        return (z, x, y), vals

    def tile_bbox(z, x, y):
        span = 2 * MERC / 2 ** z
        return (-MERC + x * span, -MERC + y * span, -MERC + (x + 1) * span, -MERC + (y + 1) * span)

    @st.composite
    def wms_getmap(draw, used):
        layer = draw(slot('layer', layers, LAYER_ATTACKS, 8, used))
        if draw(st.integers(0, 9)) == 0:
            layer = layer + ',' + draw(st.sampled_from(layers))
        version = draw(st.sampled_from(['1.1.1', '1.1.1', '1.3.0', '1.0.0', '1.1.0']))
        (z, x, y), _ = draw(tile([], 0))
        bbox = tile_bbox(z, x, y)
        if draw(st.integers(0, 5)) == 0:
            f = draw(st.sampled_from([0.5, 1.5, 0.99]))
            bbox = (bbox[0], bbox[1], bbox[0] + (bbox[2] - bbox[0]) * f, bbox[1] + (bbox[3] - bbox[1]) * f)
        size = draw(st.sampled_from([(256, 256), (256, 256), (128, 128), (300, 200), (64, 64)]))
        srs = draw(st.sampled_from(['EPSG:3857', 'EPSG:3857', 'EPSG:900913']))
        if draw(st.integers(0, 7)) == 0:
            srs = 'EPSG:4326'
            bbox = draw(st.sampled_from([(-180.0, -85.0, 180.0, 85.0), (0.0, 0.0, 90.0, 60.0), (-10.0, 35.0, 30.0, 65.0)]))
            if version == '1.3.0':
                bbox = (bbox[1], bbox[0], bbox[3], bbox[2])
        fmt = draw(slot('format', ['image/png', 'image/png', 'image/jpeg'], ['image/../png', 'png', 'image/png/../../x', '../bait'], 3, used))
        pairs = [('SERVICE', 'WMS'), ('VERSION' if version != '1.0.0' else 'WMTVER', version),
                 ('REQUEST', 'GetMap' if version != '1.0.0' else 'map'),
                 ('LAYERS', layer), ('STYLES', ''), ('CRS' if version == '1.3.0' else 'SRS', srs),
                 ('BBOX', ','.join(repr(float(v)) for v in bbox)), ('WIDTH', str(size[0])), ('HEIGHT', str(size[1])),
                 ('FORMAT', fmt if version != '1.0.0' else fmt.replace('image/', ''))]
        if draw(st.integers(0, 5)) == 0:
            pairs.append(('TILED', 'true'))
        if draw(st.integers(0, 9)) == 0:
            pairs.append(('TRANSPARENT', 'true'))
        pairs.extend(draw(dims(used, layer.endswith('_dim'), 55)))
        return '/service', pairs

    @st.composite
    def wms_other(draw, used):
        kind = draw(st.sampled_from(['fi', 'fi', 'legend', 'legend', 'caps', 'garbage']))
        layer = draw(slot('layer', layers, LAYER_ATTACKS, 15, used))
        if kind == 'fi':
            pairs = [('SERVICE', 'WMS'), ('VERSION', '1.1.1'), ('REQUEST', 'GetFeatureInfo'), ('LAYERS', layer),
                     ('QUERY_LAYERS', draw(slot('layer', [layer], LAYER_ATTACKS, 10, used))), ('STYLES', ''),
                     ('SRS', 'EPSG:3857'), ('BBOX', '%r,%r,%r,%r' % tile_bbox(0, 0, 0)), ('WIDTH', '256'),
                     ('HEIGHT', '256'), ('FORMAT', 'image/png'), ('X', draw(slot('tile-index', ['10', '100'], ATTACK_INTS, 15, used))),
                     ('Y', '20'), ('INFO_FORMAT', draw(slot('format', ['text/plain', 'text/html'], ATTACK_VALUES, 10, used)))]
            pairs.extend(draw(dims(used, False, 40)))
        elif kind == 'legend':
            pairs = [('SERVICE', 'WMS'), ('VERSION', '1.1.1'), ('REQUEST', 'GetLegendGraphic'), ('LAYER', layer),
                     ('FORMAT', draw(slot('format', ['image/png', 'image/jpeg'], ATTACK_VALUES, 10, used))),
                     ('SCALE', draw(slot('param', ['1000', '5e6'], ATTACK_VALUES + ATTACK_INTS, 25, used)))]
            if draw(st.booleans()):
                pairs.append(('SLD_VERSION', '1.1.0'))
        elif kind == 'caps':
            pairs = [('SERVICE', draw(st.sampled_from(['WMS', 'WMTS', 'wms']))), ('REQUEST', 'GetCapabilities'),
                     ('VERSION', draw(slot('param', ['1.1.1', '1.3.0', '1.0.0'], ATTACK_VALUES, 20, used)))]
        else:
            pairs = [(draw(st.sampled_from(['SERVICE', 'REQUEST', 'LAYERS', 'TIME', 'FORMAT', 'EXCEPTIONS', 'SLD', 'SLD_BODY',
                                            'MAP', 'FILE', 'CONFIG', 'TEMPLATE', 'DIM_X'])),
                      draw(st.sampled_from(ATTACK_VALUES + ['WMS', 'GetMap', 'WMTS', 'GetTile'])))
                     for _ in range(draw(st.integers(1, 5)))]
            used.append('param')
        return draw(st.sampled_from(['/service', '/service', '/ows', '/wms'])), pairs

    @st.composite
    def wmts_kvp(draw, used):
        layer = draw(slot('layer', layers, LAYER_ATTACKS, 8, used))
        (z, x, y), vals = draw(tile(used, 10))
        tms = draw(slot('matrixset', ['GLOBAL_MERCATOR'] * 4 + GRID_NAMES, ATTACK_VALUES, 8, used))
        zval = vals[0] if draw(st.booleans()) else '%02d' % z if vals[0].isdigit() and len(vals[0]) < 3 else vals[0]
        req = draw(st.sampled_from(['GetTile'] * 5 + ['GetFeatureInfo']))
        pairs = [('SERVICE', 'WMTS'), ('VERSION', '1.0.0'), ('REQUEST', req), ('LAYER', layer), ('STYLE', 'default'),
                 ('TILEMATRIXSET', tms), ('TILEMATRIX', zval), ('TILECOL', vals[1]), ('TILEROW', vals[2]),
                 ('FORMAT', draw(slot('format', ['image/png', 'png', 'image/jpeg'], ATTACK_VALUES, 5, used)))]
        if req == 'GetFeatureInfo':
            pairs += [('INFOFORMAT', 'text/plain'), ('I', '10'), ('J', draw(slot('tile-index', ['10'], ATTACK_INTS, 20, used)))]
        pairs.extend(draw(dims(used, layer.endswith('_dim'), 50)))
        return '/service', pairs

    @st.composite
    def wmts_rest(draw, used):
        if draw(st.integers(0, 29)) == 0:
            return '/wmts/1.0.0/WMTSCapabilities.xml', []
        layer = draw(slot('layer', layers, LAYER_ATTACKS, 8, used))
        (z, x, y), vals = draw(tile(used, 10))
        tms = draw(slot('matrixset', ['GLOBAL_MERCATOR'] * 4 + GRID_NAMES, ATTACK_VALUES, 8, used))
        t = draw(slot('rest-dimension', TIME_VALUES + ['default'], ATTACK_VALUES, 40, used))
        e = draw(slot('rest-dimension', ELEV_VALUES + ['default'], ATTACK_VALUES, 25, used))
        fmt = draw(slot('format', ['png', 'png', 'jpeg'], ['png/../../x', '../png', 'png\x00', 'kml'], 4, used))
        return '/wmts/%s/%s/%s/%s/%s/%s/%s.%s' % (layer, tms, t, e, vals[0], vals[1], vals[2], fmt), []

    @st.composite
    def tms_like(draw, used):
        svc = draw(st.sampled_from(['tms', 'tms', 'tiles', 'kml']))
        layer = draw(slot('layer', layers, LAYER_ATTACKS, 10, used))
        (z, x, y), vals = draw(tile(used, 12))
        spec = draw(slot('layer-spec', ['EPSG900913', 'EPSG900913', None, None, 'GLOBAL_MERCATOR', 'dim_EPSG900913', 'EPSG4326'],
                         ATTACK_VALUES, 10, used))
        fmt = draw(slot('format', ['png', 'png', 'jpeg', 'kml'], ['png/../../x', '../png', 'png\x00', 'PNG'], 4, used))
        if svc == 'kml' and draw(st.booleans()):
            fmt = 'kml'
        parts = [svc]
        if svc == 'tms' or (svc == 'tiles' and draw(st.booleans())):
            parts.append('1.0.0')
        parts.append(layer)
        if spec is not None:
            parts.append(spec)
        if draw(st.integers(0, 14)) == 0:
            return '/' + '/'.join(parts), []      # capabilities of a layer
        parts += [vals[0], vals[1], vals[2] + '.' + fmt]
        pairs = []
        if draw(st.integers(0, 5)) == 0:
            pairs.append(('origin', draw(st.sampled_from(['nw', 'sw', '../x']))))
        pairs.extend(draw(dims(used, False, 50)) if draw(st.integers(0, 3)) == 0 else [])
        return '/' + '/'.join(parts), pairs

    @st.composite
    def demo(draw, used):
        kind = draw(st.sampled_from(['static', 'static', 'page', 'page', 'caps']))
        if kind == 'static':
            name = draw(slot('static-path', ['site.css', 'img/favicon.ico', 'openlayers/ol.js', 'nosuch.js', 'logo.png'],
                             STATIC_ATTACKS, 60, used))
            return '/demo/static/' + name, []
        if kind == 'page':
            key = draw(st.sampled_from(['wms_layer', 'tms_layer', 'wmts_layer']))
            pairs = [(key, draw(slot('layer', layers, LAYER_ATTACKS + ATTACK_VALUES, 30, used))),
                     ('format', draw(slot('format', ['png', 'jpeg', 'image/png'], ATTACK_VALUES, 20, used))),
                     ('srs', draw(slot('param', ['EPSG:3857', 'EPSG:900913', 'EPSG900913'], ATTACK_VALUES, 25, used)))]
            return '/demo/', pairs
        key = draw(st.sampled_from(['wms_capabilities', 'wmsc_capabilities', 'wmts_capabilities', 'wmts_capabilities_kvp',
                                    'tms_capabilities']))
        pairs = [(key, '')]
        if key == 'tms_capabilities':
            pairs += [('layer', draw(slot('layer', layers, LAYER_ATTACKS + ATTACK_VALUES, 40, used))),
                      ('srs', draw(slot('param', ['EPSG900913'], ATTACK_VALUES, 40, used)))]
        return '/demo/', pairs

    @st.composite
    def stray(draw, used):
        used.append('stray-path')
        segs = draw(st.lists(st.sampled_from(list(_SERVICE_PREFIXES) + ['1.0.0', 'tc', 'tc_dim', '0', '1', '0.png', 'static',
                                                                       'EPSG900913'] + ATTACK_VALUES[:80]),
                             min_size=0, max_size=6))
        pairs = [(draw(st.sampled_from(['time', 'layers', 'request', 'service', 'x'])), draw(st.sampled_from(ATTACK_VALUES)))
                 for _ in range(draw(st.integers(0, 2)))]
        return '/' + '/'.join(segs), pairs

    @st.composite
    def case(draw):
        used = []
        kind = draw(st.sampled_from(['wms.getmap'] * 6 + ['wms.other'] * 2 + ['wmts.kvp'] * 3 + ['wmts.rest'] * 3 +
                                    ['tms'] * 4 + ['demo'] * 2 + ['stray']))
        path, pairs = draw({'wms.getmap': wms_getmap, 'wms.other': wms_other, 'wmts.kvp': wmts_kvp,
                            'wmts.rest': wmts_rest, 'tms': tms_like, 'demo': demo, 'stray': stray}[kind](used))
        if draw(st.integers(0, 11)) == 0 and pairs:
            # duplicate / case-variant parameter
            k, v = pairs[draw(st.integers(0, len(pairs) - 1))]
            pairs.append((k.lower(), draw(st.sampled_from(ATTACK_VALUES))))
            used.append('duplicate-param')
        mode = draw(st.sampled_from(['std', 'std', 'std', 'min', 'full', 'rawutf8']))
        c = {'kind': kind, 'path': path, 'qs': _q(pairs, mode), 'app': 'single'}
        if draw(st.integers(0, 4)) == 0:
            c['app'] = 'multi'
            app = draw(slot('app-name', APP_NAMES, APP_ATTACKS, 30, used))
            c['path'] = '/' + app + path
        if draw(st.integers(0, 14)) == 0:
            used.append('header')
            h = draw(st.sampled_from(['X-Script-Name', 'X-Forwarded-Host', 'Host', 'X-Forwarded-Proto', 'If-None-Match',
                                      'If-Modified-Since', 'Referer']))
            c['headers'] = {h: draw(st.sampled_from(['/../../bait', '../../bait', '{ROOT}/bait', 'a/../../..', 'localhost',
                                                     '/proxy/path', 'x' * 400]))}
        c['attack'] = sorted(set(used))
        return c

    return case()


# ------------------------------------------------------------------------------------------------
# drivers

def _check_fn(env_holder, open_sigs):
    def check(case, st_):
        env = env_holder[0]
        if env is not None and env.poisoned:
            env.close()
            env = None
        if env is None:
            env = env_holder[0] = Env()
        if env.dirty:
            env.repair()      # after a violation: remove escaped files, plant the bait again
        env.served += 1
        return run_case(env, case, st_, open_sigs)
    return check


def _open_signatures():
    # VERIF_C09_NO_EXCLUSION=1: serve the constructs of open findings too (used to show that the check is
    # quiet on a tree with the proposed fix applied while the finding is still listed as open)
    if os.environ.get('VERIF_C09_NO_EXCLUSION'):
        return set()
    return core.open_signatures(PROPERTY)


def random_shard(shard, nshards, seed, tier):
    st_ = core.Stats()
    n = (40000 if tier == 'quick' else 640000) // nshards
    open_sigs = _open_signatures()
    holder = [None]
    try:
        core.hyp_search(_strategies(), _check_fn(holder, open_sigs), st_, max_examples=n, seed=seed, max_signatures=3)
    finally:
        if holder[0] is not None:
            holder[0].close()
    return st_


def _pq(text):
    return urllib.parse.quote(text, safe='')


MATRIX_VECTORS = (
    ('value', '&TIME=a/../../../../x'),
    ('name', '&DIM_a/../../../../x=1'),
    # compatibility forms: fullwidth solidus + two dot leader / fullwidth full stops / ASCII dots, division slash
    ('value-fullwidth-slash-two-dot-leader', '&TIME=' + _pq('x' + (FW_SLASH + TWO_DOT) * 4 + FW_SLASH + 'x')),
    ('name-fullwidth-slash-two-dot-leader', '&' + _pq('DIM_x' + (FW_SLASH + TWO_DOT) * 4 + FW_SLASH + 'x') + '=1'),
    ('value-fullwidth-slash-fullwidth-dots', '&ELEVATION=' + _pq('0' + (FW_SLASH + FW_DOT * 2) * 4 + FW_SLASH + 'x')),
    ('value-fullwidth-slash-ascii-dots', '&TIME=' + _pq(TIME_VALUES[0] + (FW_SLASH + '..') * 4 + FW_SLASH + 'x')),
    ('value-division-slash-one-dot-leaders', '&TIME=' + _pq('x' + (DIV_SLASH + ONE_DOT * 2) * 4 + DIV_SLASH + 'x')),
)


def escape_matrix(stats):
    """Deterministic enumeration: the canonical traversal through a dimension VALUE and through a dimension
    NAME against every configured layer (WMS GetMap, fresh deployment).  Records which layers / backends
    let the request leave the cache directory in stats.extra and returns the violations."""
    bb = '-20037508.342789244,-20037508.342789244,20037508.342789244,20037508.342789244'
    base = ('SERVICE=WMS&VERSION=1.1.1&REQUEST=GetMap&STYLES=&SRS=EPSG:900913&BBOX=' + bb +
            '&WIDTH=256&HEIGHT=256&FORMAT=image/png&LAYERS=')
    env = Env()
    out = []
    matrix = collections.OrderedDict()
    try:
        for layer in env.layer_cache:
            if layer == 'second':
                continue
            row = {'backend': env.backends[env.layer_cache[layer]], 'declares_dimensions': layer.endswith('_dim')}
            for vec, extra in MATRIX_VECTORS:
                case = {'app': 'single', 'kind': 'wms.getmap', 'path': '/service', 'qs': base + layer + extra,
                        'attack': ['dimension-' + ('key' if 'name' in vec else 'value')], 'family': ['escape-matrix']}
                v = run_case(env, case, stats, open_sigs=())
                row[vec] = v.signature if v is not None else None
                if v is not None:
                    out.append(v)
                    env.repair()
            matrix[layer] = row
    finally:
        env.close()
    stats.extra['dimension_escape_matrix'] = matrix
    return out


def run(tier, seed, stats):
    stats.violations.extend(escape_matrix(stats))
    stats.merge(core.parallel(random_shard, 16, seed, tier))
    if tier == 'thorough':
        stats.merge(fuzz_campaign(seed))
    if _open_signatures():
        stats.extra['open_finding_exclusion'] = (
            'WMS GetMap whose TIME/ELEVATION/DIM_* key or value makes the directory component <key>-<value> escape, '
            'addressed at a layer of a file cache whose dimension finding is open, is not served: %s'
            % sorted(_open_signatures()))


def replay(case, stats):
    case = dict(case)
    env = Env()
    try:
        out = []
        # a replayed case is always served (the exclusion of open findings applies to generation only)
        v = run_case(env, case, stats, open_sigs=())
        if v is not None:
            out.append(v)
        return out
    finally:
        env.close()



# ------------------------------------------------------------------------------------------------
# coverage-guided campaign on raw (path, query) bytes (thorough tier)

FUZZ_WORKERS = 16
FUZZ_RUNS = 100000         # executions per worker


def _fuzz_seed_inputs():
    bb = '-20037508.342789244,-20037508.342789244,20037508.342789244,20037508.342789244'
    gm = ('/service?SERVICE=WMS&VERSION=1.1.1&REQUEST=GetMap&STYLES=&SRS=EPSG:3857&BBOX=' + bb +
          '&WIDTH=256&HEIGHT=256&FORMAT=image/png&LAYERS=%s&TIME=%s')
    out = []
    for layer in ('tc', 'tc_dim', 'mp_dim', 'tms', 'reverse_tms_dim', 'quadkey', 'arcgis_dim', 'sqlite', 'mbtiles', 'gpkg',
                  'gpkgl', 'compact1', 'compact2', 'link', 'dir_dim', 'names', 'meta_dim', 'chain', 'nostore_dim'):
        out.append(gm % (layer, TIME_VALUES[0]))
    out.append(gm % ('tc', 'a/b') + '&ELEVATION=0&DIM_CUSTOM=a')
    out.append('/service?SERVICE=WMTS&VERSION=1.0.0&REQUEST=GetTile&LAYER=tc_dim&STYLE=default&TILEMATRIXSET=GLOBAL_MERCATOR'
               '&TILEMATRIX=01&TILECOL=0&TILEROW=1&FORMAT=image/png&TIME=' + TIME_VALUES[1] + '&ELEVATION=1000')
    out.append('/wmts/tms_dim/GLOBAL_MERCATOR/%s/1000/1/0/0.png' % TIME_VALUES[2])
    out.append('/wmts/mbtiles/GLOBAL_MERCATOR/default/default/0/0/0.png')
    out.append('/tms/1.0.0/mp_dim/EPSG900913/1/1/0.png')
    out.append('/tiles/sqlite/EPSG900913/0/0/0.png?origin=nw')
    out.append('/kml/tc/EPSG900913/0/0/0.kml')
    out.append('/kml/tc/EPSG900913/1/0/1.png')
    out.append('/demo/static/site.css')
    out.append('/demo/?wms_layer=tc&format=png&srs=EPSG:3857')
    out.append('/service?SERVICE=WMS&VERSION=1.1.1&REQUEST=GetLegendGraphic&LAYER=tc&FORMAT=image/png')
    out.append('/service?SERVICE=WMS&VERSION=1.1.1&REQUEST=GetFeatureInfo&LAYERS=tc&QUERY_LAYERS=tc&STYLES=&SRS=EPSG:3857&BBOX=' + bb +
               '&WIDTH=256&HEIGHT=256&FORMAT=image/png&X=10&Y=20&INFO_FORMAT=text/plain')
    res = [b'S' + x.encode() for x in out]
    res += [b'M/app' + x.encode() for x in out[:6]] + [b'M/second/tms/1.0.0/second/EPSG900913/0/0/0.png', b'M/']
    return res


def _fuzz_dictionary():
    toks = set()
    for v in ATTACK_VALUES + LAYER_ATTACKS + APP_ATTACKS + ATTACK_INTS + _all_layers() + GRID_NAMES + TIME_VALUES:
        if 0 < len(v.encode('utf-8', 'surrogatepass')) <= 64:
            toks.add(v.encode('utf-8', 'surrogatepass'))
            toks.add(urllib.parse.quote(v, safe='').encode())
    for v in ('TIME=', 'ELEVATION=', 'DIM_', 'DIM_CUSTOM=', 'LAYERS=', 'LAYER=', 'REQUEST=GetMap', 'REQUEST=GetTile', 'SERVICE=WMTS',
              'SERVICE=WMS', 'TILED=true', 'TILEMATRIXSET=', 'TILEMATRIX=', 'TILECOL=', 'TILEROW=', 'FORMAT=image/png', '/service?',
              '/wmts/', '/tms/1.0.0/', '/tiles/', '/kml/', '/demo/static/', '/app/', '/second/', '../', '/../', '..%2f', '%2e%2e',
              '%00', '&', '=', '/', '{ROOT}', '{ROOTREL}', '.png', '.jpeg', '.kml', 'origin=nw', 'QUERY_LAYERS=', 'default'):
        toks.add(v.encode())
    for ch in (FW_SLASH, FW_BACKSLASH, FW_DOT, FW_PERCENT, ONE_DOT, TWO_DOT, ELLIPSIS, DIV_SLASH, FRAC_SLASH,
               FW_SLASH + TWO_DOT, TWO_DOT + FW_SLASH, FW_SLASH + FW_DOT * 2):
        toks.add(ch.encode('utf-8'))
        toks.add(urllib.parse.quote(ch, safe='').encode())
    lines = []
    for t in sorted(toks):
        lines.append('"' + ''.join('\\x%02x' % b for b in t) + '"')
    return '\n'.join(lines) + '\n'


def _fuzz_case(data):
    """raw bytes -> case: first byte 'M' -> MultiMapProxy; the rest is <path>[?<query>]"""
    multi = data[:1] == b'M'
    body = data[1:]
    path, _, query = body.partition(b'?')
    return {'app': 'multi' if multi else 'single', 'kind': 'raw', 'attack': ['raw-bytes'],
            'path': path.decode('utf-8', 'surrogateescape'), 'qs': query.decode('latin-1')}


def fuzz_worker(outdir, index, seed, runs):
    """Body of one campaign process (needs atheris on sys.path); writes <outdir>/worker-<index>.json."""
    import atheris
    import traceback
    with atheris.instrument_imports(include=['mapproxy']):
        import mapproxy.wsgiapp      # noqa: F401
        import mapproxy.multiapp     # noqa: F401
        import mapproxy.config.loader    # noqa: F401
        import mapproxy.service.demo     # noqa: F401
        import mapproxy.service.kml      # noqa: F401
        import mapproxy.service.wmts     # noqa: F401
        import mapproxy.cache.compact    # noqa: F401
        import mapproxy.cache.geopackage  # noqa: F401
    st_ = core.Stats()
    open_sigs = _open_signatures()
    state = {'env': None, 'n': 0}
    result = os.path.join(outdir, 'worker-%d.json' % index)

    def dump(error=None):
        rec = {'evaluations': st_.evaluations, 'nontrivial': sorted(st_.nontrivial), 'classes': dict(st_.classes),
               'excluded': dict(st_.excluded), 'notes': dict(st_.notes), 'samples': st_.samples,
               'violations': [v.as_dict() for v in st_.violations], 'error': error, 'execs': state['n']}
        with open(result + '.tmp', 'w') as f:
            json.dump(rec, f)
        os.replace(result + '.tmp', result)

    def one(data):
        try:
            if state['env'] is not None and state['env'].poisoned:
                state['env'].close()
                state['env'] = None
            if state['env'] is None:
                state['env'] = Env()
            env = state['env']
            if env.dirty:
                env.repair()
            state['n'] += 1
            v = run_case(env, _fuzz_case(data), st_, open_sigs)
            if v is not None and len(st_.violations) < 40 and v.signature not in set(x.signature for x in st_.violations):
                st_.violations.append(v)
                dump()
            if state['n'] % 1000 == 0 or state['n'] >= runs:
                dump()
        except BaseException:
            dump(error=traceback.format_exc())
            if state['env'] is not None:
                state['env'].close()
            os._exit(3)

    corpus = os.path.join(outdir, 'corpus-%d' % index)
    os.makedirs(corpus)
    for i, d in enumerate(_fuzz_seed_inputs()):
        with open(os.path.join(corpus, 'seed-%03d' % i), 'wb') as f:
            f.write(d)
    dict_file = os.path.join(outdir, 'dict-%d.txt' % index)
    with open(dict_file, 'w') as f:
        f.write(_fuzz_dictionary())
    import atexit

    def finish():
        dump()
        if state['env'] is not None:
            state['env'].close()
    atexit.register(finish)
    atheris.Setup([sys.argv[0], corpus, '-dict=' + dict_file, '-runs=%d' % runs, '-seed=%d' % (seed % 2 ** 31 or 1),
                   '-max_len=700', '-timeout=60', '-rss_limit_mb=4096', '-verbosity=0', '-close_fd_mask=3'], one)
    atheris.Fuzz()


def fuzz_campaign(seed, workers=None, runs=None):
    st_ = core.Stats()
    workers = workers or int(os.environ.get('VERIF_C09_FUZZ_WORKERS', FUZZ_WORKERS))
    runs = runs or int(os.environ.get('VERIF_C09_FUZZ_RUNS', FUZZ_RUNS))
    deps = os.path.join(VERIF_DIR, '.deps')
    env = dict(os.environ)
    env['PYTHONPATH'] = os.pathsep.join([deps, VERIF_DIR] + ([env['PYTHONPATH']] if env.get('PYTHONPATH') else []))
    probe = subprocess.run([sys.executable, '-c', 'import atheris'], env=env, capture_output=True)
    if probe.returncode != 0:
        st_.notes['atheris-not-importable-campaign-skipped'] += 1
        return st_
    outdir = tempfile.mkdtemp(prefix='vc09-fuzz-')
    try:
        procs = []
        for i in range(workers):
            cmd = [sys.executable, '-c',
                   'import sys; from vcheck.props import c09_sandbox as m; m.fuzz_worker(sys.argv[1], int(sys.argv[2]), '
                   'int(sys.argv[3]), int(sys.argv[4]))', outdir, str(i), str(core.derive_seed(seed, 'fuzz', i)), str(runs)]
            log = open(os.path.join(outdir, 'log-%d.txt' % i), 'w')
            procs.append((subprocess.Popen(cmd, env=env, cwd=VERIF_DIR, stdout=log, stderr=subprocess.STDOUT), log))
        for p, log in procs:
            p.wait()
            log.close()
        for i, (p, _log) in enumerate(procs):
            path = os.path.join(outdir, 'worker-%d.json' % i)
            if not os.path.exists(path):
                with open(os.path.join(outdir, 'log-%d.txt' % i)) as f:
                    raise core.HarnessError('atheris worker %d left no result (exit %s):\n%s' % (i, p.returncode, f.read()[-3000:]))
            with open(path) as f:
                rec = json.load(f)
            if rec.get('error'):
                raise core.HarnessError('atheris worker %d failed:\n%s' % (i, rec['error']))
            w = core.Stats()
            w.evaluations = rec['evaluations']
            w.nontrivial = set(rec['nontrivial'])
            w.classes.update(dict(('fuzz/' + k, v) for k, v in rec['classes'].items()))
            w.excluded.update(rec['excluded'])
            w.notes.update(rec['notes'])
            w.samples = rec['samples'][:2]
            for v in rec['violations']:
                w.violations.append(core.Violation(v['signature'], v['message'], v['case']))
            w.notes['atheris-executions'] += rec['execs']
            st_.merge(w)
        st_.extra['atheris'] = '%d workers x %d runs on raw (path, query) bytes, dictionary of %d tokens' % (
            workers, runs, _fuzz_dictionary().count('\n'))
    finally:
        shutil.rmtree(outdir, ignore_errors=True)
    return st_
